(** Tie between the hand-written model of the specification front end
    (Spec/Verify.v), which every theorem of Props/C13.v is about, and the text
    GENERATED from the current source of yamlspecification.py, study.py,
    dag.py, studyenvironment.py and parameters.py (Spec/VerifyGen.v, by
    translate/tcode_spec.py): each generated function is EQUAL to the model's.
    The theorems of Props/C13.v therefore hold of the functions regenerated
    from the source, and an edit that changes what one of them does changes
    VerifyGen.v and breaks one of these obligations.

    Hypotheses: the equalities that go through verify_parameters ([verify],
    the loader, the pipeline) ask for what every Python mapping guarantees --
    no key twice in global.parameters ([uniq_keys]; the source's own "name in
    global_names" guard is dead code on a dict and has no counterpart in
    Verify.v); [add_step] asks for the source node Study.__init__ creates.
    [yaml_load] establishes the first, [study_nodes_gen] the second, so
    [verify_and_build_is_generated] at the end -- about the very function the
    theorems of Props/C13.v are stated for -- is unconditional.
    Not translated (Verify.v's hand-written text stands): the constructors of
    the environment classes ([new_Variable] ... in VerifyOps.v), the message
    building inside validate_schema, maestro.run_study's reserved names. *)
From Coq Require Import List ZArith NArith Bool Arith Lia.
From MWF Require Import Base.Str Spec.Json Spec.Schema Gen.SpecData Spec.Verify Spec.SchemaProofs
  Spec.SpecProofs Spec.VerifyOps Spec.VerifyGen.
Import ListNotations.

(* ------------------------------------------------------------------------- *)
(** * the monad and the loops                                                 *)
(* ------------------------------------------------------------------------- *)
Lemma bind_ret {A} (m : res A) : (x <- m ;; Ok x) = m.
Proof. destruct m; reflexivity. Qed.

Lemma bind_unit (m : res unit) : (m ;;; Ok tt) = m.
Proof. destruct m as [[]|]; reflexivity. Qed.

Lemma bind_unit' (m : res unit) : (x <- m ;; Ok tt) = m.
Proof. destruct m as [[]|]; reflexivity. Qed.

Lemma mfold_ext {A S} (f g : S -> A -> res S) l :
  (forall st a, In a l -> f st a = g st a) -> forall st, mfold f l st = mfold g l st.
Proof.
  induction l as [|a l IH]; intros H st; [reflexivity|]. cbn [mfold].
  rewrite (H st a (or_introl eq_refl)). destruct (g st a); [|reflexivity].
  apply IH. intros st' a' Hin. apply H. right. exact Hin.
Qed.

(** two loops over the same list that keep related states and fail alike *)
Definition sim {S T} (R : S -> T -> Prop) (x : res S) (y : res T) : Prop :=
  match x, y with
  | Ok a, Ok b => R a b
  | Err c, Err c' => c = c'
  | _, _ => False
  end.

Lemma mfold_sim {A S T} (R : S -> T -> Prop) (f : S -> A -> res S) (g : T -> A -> res T) l :
  (forall st tt' a, In a l -> R st tt' -> sim R (f st a) (g tt' a)) ->
  forall st tt', R st tt' -> sim R (mfold f l st) (mfold g l tt').
Proof.
  induction l as [|a l IH]; intros H st tt' HR; [exact HR|]. cbn [mfold].
  pose proof (H st tt' a (or_introl eq_refl) HR) as Hs. unfold sim in Hs.
  destruct (f st a), (g tt' a); try contradiction; cbn [bind].
  - apply IH; [|exact Hs]. intros ? ? ? Hin. apply H. right. exact Hin.
  - exact Hs.
Qed.

Lemma sim_unit {S T} (R : S -> T -> Prop) (x : res S) (y : res T) :
  sim R x y -> (x ;;; Ok tt) = (y ;;; Ok tt).
Proof. unfold sim. destruct x, y; try contradiction; [reflexivity | intros ->; reflexivity]. Qed.

(* ------------------------------------------------------------------------- *)
(** * validate_schema, name, verify_description                               *)
(* ------------------------------------------------------------------------- *)
Theorem validate_schema_is_generated : forall d v sc, validate_schema_gen d v sc = validate d sc v.
Proof.
  intros d v sc. unfold validate_schema_gen, validate, iter_errors, for_in.
  destruct (valid sc v); reflexivity.
Qed.

Theorem name_is_generated : forall sp, (name_gen sp ;;; Ok tt) = (getitem (sp_desc sp) (s "name") ;;; Ok tt).
Proof. intros sp. unfold name_gen. destruct (getitem (sp_desc sp) (s "name")); reflexivity. Qed.

Theorem verify_description_is_generated : forall sp sc,
  verify_description_gen sp sc = validate DSchemaDescription sc (sp_desc sp).
Proof.
  intros sp sc. unfold verify_description_gen. rewrite validate_schema_is_generated. apply bind_unit.
Qed.

(* ------------------------------------------------------------------------- *)
(** * _verify_variables, _verify_sources, _verify_dependencies, verify_environment *)
(* ------------------------------------------------------------------------- *)
Theorem verify_variables_is_generated : forall sp, verify_variables_gen sp = verify_variables (sp_env sp).
Proof.
  intros sp. unfold verify_variables_gen, verify_variables, set_empty.
  destruct (contains (s "variables") (sp_env sp)) as [[|]|]; cbn [bind negb]; try reflexivity.
  destruct (getitem (sp_env sp) (s "variables")) as [vars|]; cbn [bind]; [|reflexivity].
  destruct (items vars) as [kvs|]; cbn [bind]; [|reflexivity].
  rewrite bind_ret. unfold for_items. apply mfold_ext. intros seen [k v] _. cbn [fst snd].
  unfold truthy_str, set_add.
  destruct k; cbn [is_nil negb]; [reflexivity|].
  destruct v as [| | | |[|]| |]; reflexivity.
Qed.

Theorem verify_sources_is_generated : forall sp, verify_sources_gen sp = Ok tt.
Proof. reflexivity. Qed.

Theorem verify_dependencies_is_generated : forall sp seen,
  verify_dependencies_gen sp seen = verify_dependencies (sp_env sp) seen.
Proof.
  intros sp seen. unfold verify_dependencies_gen, verify_dependencies, dep_types.
  destruct (contains (s "dependencies") (sp_env sp)) as [[|]|]; cbn [bind negb]; try reflexivity.
  rewrite bind_ret. unfold for_in at 1. cbn [mfold].
  destruct (getitem (sp_env sp) (s "dependencies")) as [deps|]; cbn [bind]; [|reflexivity].
  assert (Hstep : forall t sn,
    (t3 <- contains t deps ;;
     if t3 then
       t4 <- getitem deps t ;; t5 <- iter t4 ;;
       keys_seen <- for_in t5 (fun item keys_seen =>
          t6 <- getitem item (s "name") ;; t7 <- as_str t6 ;;
          if mem_str t7 keys_seen then Err (Diag DDupDepName) else
          let keys_seen := set_add t7 keys_seen in Ok keys_seen) sn ;;
       Ok keys_seen
     else Ok sn) =
    (b <- contains t deps ;;
     if negb b then Ok sn else
     lst <- getitem deps t ;; its <- iter lst ;;
     mfold (fun seen item =>
              n <- getitem item (s "name") ;; n <- as_str n ;;
              if mem_str n seen then Err (Diag DDupDepName) else Ok (seen ++ [n])) its sn)).
  { intros t sn. destruct (contains t deps) as [[|]|]; cbn [bind negb]; try reflexivity.
    destruct (getitem deps t) as [lst|]; cbn [bind]; [|reflexivity].
    destruct (iter lst) as [its|]; cbn [bind]; [|reflexivity].
    rewrite bind_ret. reflexivity. }
  rewrite Hstep.
  match goal with |- bind ?m _ = bind ?m _ => destruct m as [s1|]; cbn [bind]; [|reflexivity] end.
  rewrite Hstep.
  match goal with |- bind ?m _ = bind ?m _ => destruct m as [s2|]; reflexivity end.
Qed.

Theorem verify_environment_is_generated : forall sp,
  verify_environment_gen sp ENV = verify_environment (sp_env sp).
Proof.
  intros sp. unfold verify_environment_gen, verify_environment.
  rewrite validate_schema_is_generated.
  destruct (validate DSchemaEnv ENV (sp_env sp)) as [[]|]; cbn [bind]; [|reflexivity].
  rewrite verify_variables_is_generated.
  destruct (verify_variables (sp_env sp)) as [seen|]; cbn [bind]; [|reflexivity].
  rewrite verify_dependencies_is_generated.
  destruct (verify_dependencies (sp_env sp) seen); reflexivity.
Qed.

(* ------------------------------------------------------------------------- *)
(** * _verify_steps, verify_study                                             *)
(* ------------------------------------------------------------------------- *)
Theorem verify_steps_is_generated : forall sp sc,
  verify_steps_gen sp sc = (steps <- iter (sp_study sp) ;; miter (validate DSchemaStep sc) steps).
Proof.
  intros sp sc. unfold verify_steps_gen.
  destruct (iter (sp_study sp)) as [steps|]; cbn [bind]; [|reflexivity].
  rewrite bind_unit'. unfold for_in, miter. apply mfold_ext. intros [] st _.
  rewrite validate_schema_is_generated.
  destruct st; cbn [is_dict py_get bind]; apply bind_unit.
Qed.

Theorem verify_study_is_generated : forall sp, verify_study_gen sp STUDY_STEP = verify_study (sp_study sp).
Proof.
  intros sp. unfold verify_study_gen, verify_study.
  destruct (truthy (sp_study sp)); cbn [negb]; [|reflexivity].
  rewrite verify_steps_is_generated.
  destruct (sp_study sp); cbn [is_list negb iter bind]; try reflexivity.
  apply bind_unit'.
Qed.

(* ------------------------------------------------------------------------- *)
(** * verify_parameters                                                       *)
(* ------------------------------------------------------------------------- *)
(** what every Python mapping guarantees: no key twice *)
Definition uniq_keys (v : jv) : Prop :=
  match v with JObj l => nodup_str (keys l) = true | _ => True end.

Lemma Zeqb_of_nat a b : Z.eqb (Z.of_nat a) (Z.of_nat b) = Nat.eqb a b.
Proof.
  destruct (Nat.eqb_spec a b) as [->|H]; [apply Z.eqb_refl|]. apply Z.eqb_neq. lia.
Qed.

Lemma distinct_length_le l : (List.length (distinct_jv l) <= List.length l)%nat.
Proof. induction l as [|a l IH]; cbn; [lia|]. destruct (mem_jv a l); cbn; lia. Qed.

Lemma distinct_unique l : Nat.eqb (List.length l) (List.length (distinct_jv l)) = unique_jv l.
Proof.
  induction l as [|a l IH]; [reflexivity|]. cbn [distinct_jv unique_jv].
  destruct (mem_jv a l); cbn [negb andb].
  - apply Nat.eqb_neq. pose proof (distinct_length_le l). cbn [List.length]. lia.
  - cbn [List.length Nat.eqb]. exact IH.
Qed.

(** the sentinel [values_len = -1] against the model's [option nat] *)
Definition prel (vl : Z) (o : option nat) : Prop :=
  match o with None => vl = (-1)%Z | Some m => vl = Z.of_nat m end.

Theorem verify_parameters_is_generated : forall sp, uniq_keys (sp_globals sp) ->
  verify_parameters_gen sp PARAM = verify_parameters (sp_globals sp).
Proof.
  intros sp. unfold verify_parameters_gen, verify_parameters, uniq_keys.
  destruct (sp_globals sp) as [| | | | | |kvs]; cbn [is_dict negb]; try reflexivity.
  intros Hnd. destruct kvs as [|kv0 kvs0]; [reflexivity|].
  cbn [truthy items bind]. unfold set_empty.
  remember (kv0 :: kvs0) as kvs eqn:Ek. clear Ek kv0 kvs0.
  match goal with
  | |- bind (for_items _ ?b _) ?kk = bind (mfold ?mb _ _) _ => set (body := b); set (k := kk); set (mbody := mb)
  end.
  assert (H : forall todo gn vl o, prel vl o ->
            (forall x, In x (keys todo) -> mem_str x gn = false) ->
            nodup_str (keys todo) = true ->
            bind (for_items todo body (gn, vl)) k = (mfold mbody todo o ;;; Ok tt)).
  { induction todo as [|[name value] todo IH]; intros gn vl o Hrel Hfresh Hnodup; [reflexivity|].
    unfold for_items in *. cbn [mfold fst snd].
    unfold body at 1, mbody at 1. cbn beta iota. cbn [fst snd].
    rewrite (Hfresh name (or_introl eq_refl)).
    rewrite validate_schema_is_generated.
    destruct (validate DSchemaParam PARAM value) as [[]|]; cbn [bind]; [|reflexivity].
    destruct (getitem value (s "values")) as [values|]; cbn [bind]; [|reflexivity].
    destruct (getitem value (s "label")) as [label|]; cbn [bind]; [|reflexivity].
    cbn in Hnodup. apply andb_true_iff in Hnodup. destruct Hnodup as [Hn1 Hn2].
    assert (Hfresh' : forall x, In x (keys todo) -> mem_str x (set_add name gn) = false).
    { intros x Hx. unfold set_add. rewrite mem_str_app. rewrite (Hfresh x (or_intror Hx)). cbn.
      rewrite orb_false_r. apply str_eqb_neq. intros ->.
      apply negb_true_iff in Hn1. apply mem_str_false in Hn1. contradiction. }
    assert (Hm1 : forall m, Z.eqb (Z.of_nat m) (-1) = false) by (intros m; apply Z.eqb_neq; lia).
    unfold py_len. destruct (pylen values) as [n|] eqn:En; cbn [bind].
    - destruct label as [| | | | |ll|]; cbn [is_list bind pylen py_set]; unfold set_len;
        rewrite ?Zeqb_of_nat, ?distinct_unique;
        try (destruct (Nat.eqb n (List.length ll)); cbn [negb bind]; [|reflexivity];
             destruct (unique_jv ll); cbn [negb bind]; [|reflexivity]);
        (destruct o as [mm|]; cbn in Hrel; subst vl; rewrite ?Hm1; cbn [Z.eqb bind];
         [ rewrite Zeqb_of_nat; destruct (Nat.eqb n mm); cbn [negb bind]; [|reflexivity];
           apply (IH _ _ (Some mm)); [reflexivity | exact Hfresh' | exact Hn2]
         | apply (IH _ _ (Some n)); [reflexivity | exact Hfresh' | exact Hn2] ]).
    - destruct label; cbn [is_list bind]; try reflexivity;
        destruct o; cbn in Hrel; subst vl; rewrite ?Hm1; reflexivity. }
  rewrite (H kvs [] (-1)%Z None); [reflexivity | reflexivity | intros; reflexivity | exact Hnd].
Qed.

(* ------------------------------------------------------------------------- *)
(** * verify                                                                  *)
(* ------------------------------------------------------------------------- *)
Theorem verify_is_generated : forall sp, uniq_keys (sp_globals sp) -> verify_gen sp = verify sp.
Proof.
  intros sp Hu. unfold verify_gen, verify.
  rewrite verify_description_is_generated, verify_environment_is_generated,
    verify_study_is_generated, (verify_parameters_is_generated sp Hu).
  destruct (validate DSchemaDescription DESCRIPTION (sp_desc sp)); cbn [bind]; [|reflexivity].
  destruct (verify_environment (sp_env sp)); cbn [bind]; [|reflexivity].
  destruct (verify_study (sp_study sp)); cbn [bind]; [|reflexivity].
  destruct (verify_parameters (sp_globals sp)); cbn [bind]; [|reflexivity].
  apply name_is_generated.
Qed.

(* ------------------------------------------------------------------------- *)
(** * __init__, load_specification_from_stream                                *)
(* ------------------------------------------------------------------------- *)
Theorem load_specification_is_generated : forall d,
  (forall sp, load d = Ok sp -> uniq_keys (sp_globals sp)) ->
  load_specification_gen d = (sp <- load d ;; verify sp ;;; Ok sp).
Proof.
  intros d Hu. unfold load_specification_gen, load.
  destruct d as [| | | | | |l]; cbn [is_dict negb]; try reflexivity.
  cbn [py_get dict_pop_default bind]. unfold getd.
  rewrite !(lookup_remove_key_neq (s "env")), !(lookup_remove_key_neq (s "study")),
    !(lookup_remove_key_neq (s "global.parameters")) by reflexivity.
  unfold new_specification_gen, spec_set_description, spec_set_environment, spec_set_study, spec_set_globals.
  cbn [sp_desc sp_env sp_study sp_globals].
  rewrite verify_is_generated; [reflexivity|].
  apply (Hu _ eq_refl).
Qed.

(* ------------------------------------------------------------------------- *)
(** * DAG.add_node / add_edge guards, Study.add_step, Study.__init__          *)
(* ------------------------------------------------------------------------- *)
Theorem dag_add_node_is_generated : forall nodes n,
  dag_add_node_gen nodes n = Ok (if mem_str n nodes then nodes else nodes ++ [n]).
Proof. intros nodes n. unfold dag_add_node_gen, set_add. destruct (mem_str n nodes); reflexivity. Qed.

(** an edge from a known node to another node is taken silently; from an
    unknown node it is a ValueError *)
Theorem dag_add_edge_is_generated : forall nodes a b, str_eqb a b = false ->
  dag_add_edge_gen nodes a b = if mem_str a nodes then Ok tt else Err (Diag DUnknownDep).
Proof.
  intros nodes a b H. unfold dag_add_edge_gen. rewrite H.
  destruct (mem_str a nodes); cbn [negb]; [|reflexivity]. destruct (mem_str b nodes); reflexivity.
Qed.

Lemma strip_stars_no_star d : str_has_char 42 d = false -> strip_stars d = d.
Proof.
  unfold str_has_char. induction d as [|c r IH]; [reflexivity|]. cbn [existsb strip_stars]. intros H.
  apply orb_false_iff in H. destruct H as [Hc Hr]. rewrite N.eqb_sym in Hc. rewrite Hc.
  destruct (N.eqb c 95).
  - destruct r as [|c2 r2]; [reflexivity|]. cbn [existsb] in Hr. apply orb_false_iff in Hr.
    destruct Hr as [Hc2 Hr2]. rewrite N.eqb_sym in Hc2. rewrite Hc2. f_equal. apply IH.
    cbn [existsb]. rewrite N.eqb_sym in Hc2. rewrite Hc2. exact Hr2.
  - f_equal. apply IH. exact Hr.
Qed.

Lemma run_depends_default : has_key (s "depends") step_run_defaults_gen = true.
Proof. vm_compute. reflexivity. Qed.

Lemma run_getitem_depends st :
  run_getitem step_run_defaults_gen st (s "depends") = Ok (getd (s "depends") (JStr []) (snd st)).
Proof.
  unfold run_getitem, getd. destruct (lookup (s "depends") (snd st)); [reflexivity|].
  vm_compute. reflexivity.
Qed.

Theorem add_step_is_generated : forall nodes st, mem_str source_name nodes = true ->
  add_step_gen nodes st = add_step nodes st.
Proof.
  intros nodes st Hsrc. unfold add_step_gen, add_step, step_real_name, apply_environment.
  destruct (as_str (fst st)) as [name|] eqn:Ename; cbn [bind]; [|reflexivity].
  destruct (mem_str name nodes) eqn:Hm; [reflexivity|].
  rewrite dag_add_node_is_generated, Hm. cbn [bind].
  unfold run_contains. rewrite run_depends_default, orb_true_r, run_getitem_depends. cbn [bind].
  destruct (truthy (getd (s "depends") (JStr []) (snd st))); cbn [negb].
  - destruct (iter (getd (s "depends") (JStr []) (snd st))) as [ds|]; cbn [bind]; [|reflexivity].
    match goal with
    | |- bind (for_in _ ?b _) _ = bind (miter ?mb _) _ =>
      assert (H : forall ds, for_in ds b tt = miter mb ds)
    end.
    { intros ds'. unfold for_in, miter. apply mfold_ext. intros [] dep _.
      destruct (as_str dep) as [d|]; cbn [bind]; [|reflexivity]. unfold re_sub_all_combos.
      destruct (str_eqb (strip_stars d) name) eqn:Hself; [reflexivity|].
      destruct (str_has_char 42 d) eqn:Hstar; cbn [negb].
      - rewrite (dag_add_edge_is_generated _ _ _ Hself).
        destruct (mem_str (strip_stars d) (nodes ++ [name])); reflexivity.
      - rewrite (strip_stars_no_star _ Hstar) in *.
        rewrite (dag_add_edge_is_generated _ _ _ Hself).
        destruct (mem_str d (nodes ++ [name])); reflexivity. }
    rewrite H. destruct (miter _ ds) as [[]|]; reflexivity.
  - unfold dag_add_edge_gen.
    assert (Hs : source_gen = source_name) by reflexivity. rewrite Hs.
    destruct (str_eqb source_name name); [reflexivity|].
    rewrite mem_str_app, Hsrc. cbn [orb negb]. rewrite mem_str_app. cbn [mem_str existsb].
    rewrite str_eqb_refl. rewrite orb_true_r. reflexivity.
Qed.

Lemma add_step_keeps nodes st nodes' x :
  add_step nodes st = Ok nodes' -> mem_str x nodes = true -> mem_str x nodes' = true.
Proof.
  unfold add_step. destruct (as_str (fst st)) as [name|]; cbn [bind]; [|discriminate].
  destruct (mem_str name nodes); [discriminate|].
  assert (Hk : mem_str x nodes = true -> mem_str x (nodes ++ [name]) = true).
  { intros H. rewrite mem_str_app, H. reflexivity. }
  destruct (negb (truthy _)); [intros [= <-]; exact Hk|].
  destruct (iter _); cbn [bind]; [|discriminate].
  destruct (miter _ _); cbn [bind]; [|discriminate]. intros [= <-]. exact Hk.
Qed.

Theorem study_nodes_is_generated : forall steps,
  study_nodes_gen steps = mfold add_step steps [source_name].
Proof.
  intros steps. unfold study_nodes_gen, set_empty. rewrite dag_add_node_is_generated. cbn [mem_str existsb bind app].
  rewrite ?bind_ret. unfold for_in.
  assert (Hs : source_gen = source_name) by reflexivity. rewrite Hs.
  assert (H : forall steps nodes, mem_str source_name nodes = true ->
            mfold (fun st a => nodes0 <- add_step_gen st a ;; Ok nodes0) steps nodes = mfold add_step steps nodes).
  { induction steps0 as [|st steps0 IH]; intros nodes Hn; [reflexivity|]. cbn [mfold].
    rewrite bind_ret, (add_step_is_generated _ _ Hn).
    destruct (add_step nodes st) as [nodes'|] eqn:E; cbn [bind]; [|reflexivity].
    apply IH. exact (add_step_keeps _ _ _ _ E Hn). }
  apply H. reflexivity.
Qed.

(* ------------------------------------------------------------------------- *)
(** * get_study_steps                                                         *)
(* ------------------------------------------------------------------------- *)
Lemma mfold_append_mmap {A B} (f : A -> res B) l : forall acc,
  mfold (fun acc a => b <- f a ;; Ok (acc ++ [b])) l acc = (bs <- mmap f l ;; Ok (acc ++ bs)).
Proof.
  induction l as [|a l IH]; intros acc; cbn [mfold mmap bind]; [rewrite app_nil_r; reflexivity|].
  destruct (f a) as [b|]; cbn [bind]; [|reflexivity]. rewrite IH.
  destruct (mmap f l); cbn [bind]; [|reflexivity]. rewrite <- app_assoc. reflexivity.
Qed.

Lemma run_items_loop kvs : forall (u : stepobj),
  for_items kvs (fun key value u_ => let u_ := run_setitem key value u_ in Ok u_) u = Ok (fst u, snd u ++ kvs).
Proof.
  unfold for_items. induction kvs as [|[k v] kvs IH]; intros u; cbn [mfold bind fst snd].
  - rewrite app_nil_r. destruct u; reflexivity.
  - rewrite IH. unfold run_setitem. cbn [fst snd]. rewrite <- app_assoc. reflexivity.
Qed.

Theorem get_study_steps_is_generated : forall sp, get_study_steps_gen sp = get_study_steps (sp_study sp).
Proof.
  intros sp. unfold get_study_steps_gen, get_study_steps.
  destruct (iter (sp_study sp)) as [steps|]; cbn [bind]; [|reflexivity].
  rewrite bind_ret. unfold for_in.
  match goal with
  | |- _ = mmap ?f _ =>
    transitivity (mfold (fun acc a => b <- f a ;; Ok (acc ++ [b])) steps []);
      [|rewrite mfold_append_mmap; cbn [app]; apply bind_ret]
  end.
  apply mfold_ext. intros acc st _.
  destruct (getitem st (s "name")) as [n|]; cbn [bind]; [|reflexivity].
  destruct (getitem st (s "description")) as [d|]; cbn [bind]; [|reflexivity].
  destruct (getitem st (s "run")) as [r|]; cbn [bind]; [|reflexivity].
  destruct (items r) as [kvs|]; cbn [bind]; [|reflexivity].
  rewrite run_items_loop. reflexivity.
Qed.

(* ------------------------------------------------------------------------- *)
(** * ParameterGenerator.add_parameter, get_parameters                        *)
(* ------------------------------------------------------------------------- *)
Theorem add_parameter_is_generated : forall (len : nat) key values label name,
  add_parameter_gen (Z.of_nat len) key values label name =
  (n <- pylen values ;;
   if Nat.eqb len 0 then Ok (Z.of_nat n)
   else if Nat.eqb n len then Ok (Z.of_nat len) else Err (Diag DParamLen)).
Proof.
  intros len key values label name. unfold add_parameter_gen, py_len.
  change 0%Z with (Z.of_nat 0). rewrite Zeqb_of_nat.
  destruct (pylen values) as [n|]; cbn [bind]; [|destruct (Nat.eqb len 0); reflexivity].
  destruct (Nat.eqb len 0); cbn [bind]; [reflexivity|].
  rewrite Zeqb_of_nat. destruct (Nat.eqb n len); reflexivity.
Qed.

Theorem get_parameters_is_generated : forall sp,
  (get_parameters_gen sp ;;; Ok tt) = get_parameters (sp_globals sp).
Proof.
  intros sp. unfold get_parameters_gen, get_parameters, new_ParameterGenerator.
  destruct (items (sp_globals sp)) as [kvs|]; cbn [bind]; [|reflexivity].
  rewrite bind_ret. unfold for_items. change 0%Z with (Z.of_nat 0).
  apply (sim_unit (fun z n => z = Z.of_nat n)).
  apply mfold_sim; [|reflexivity]. intros z len [key value] _ ->. cbn [fst snd]. unfold sim.
  destruct (contains (s "name") value) as [b|]; cbn [bind]; [|reflexivity].
  destruct (getitem value (s "values")) as [vals|]; cbn [bind]; [|destruct b; reflexivity].
  destruct (getitem value (s "label")) as [lab|]; cbn [bind]; [|destruct b; reflexivity].
  destruct b; cbn [negb bind].
  - destruct (getitem value (s "name")) as [nm|]; cbn [bind]; [|reflexivity].
    rewrite bind_ret, add_parameter_is_generated.
    destruct (pylen vals) as [n|]; cbn [bind]; [|reflexivity].
    destruct (Nat.eqb len 0); [reflexivity|]. destruct (Nat.eqb n len); reflexivity.
  - rewrite bind_ret, add_parameter_is_generated.
    destruct (pylen vals) as [n|]; cbn [bind]; [|reflexivity].
    destruct (Nat.eqb len 0); [reflexivity|]. destruct (Nat.eqb n len); reflexivity.
Qed.

(* ------------------------------------------------------------------------- *)
(** * StudyEnvironment.add, get_study_environment                             *)
(* ------------------------------------------------------------------------- *)
Theorem env_add_is_generated : forall names item,
  env_add_gen names item =
  match item with
  | EDependency n | ESubstitution n => add_name names n
  | ESource => Ok names
  end.
Proof. intros names [n|n|]; reflexivity. Qed.

Lemma variables_loop kvs : forall names,
  for_items kvs (fun key value env => u_ <- new_Variable key value ;; env <- env_add_gen env u_ ;; Ok env) names =
  mfold add_variable kvs names.
Proof.
  intros names. unfold for_items. apply mfold_ext. intros st [k v] _. cbn [fst snd].
  unfold new_Variable, add_variable. cbn [fst snd].
  destruct (is_nil k || _); cbn [bind]; [reflexivity|]. rewrite bind_ret. apply env_add_is_generated.
Qed.

Lemma sources_loop srcs : forall names,
  for_in srcs (fun source env => u_ <- new_Script source ;; env <- env_add_gen env u_ ;; Ok env) names =
  (miter (fun src => x <- as_str src ;; if wordy x then Ok tt else Err (Diag DScript)) srcs ;;; Ok names).
Proof.
  unfold for_in, miter. induction srcs as [|src srcs IH]; intros names; [reflexivity|]. cbn [mfold].
  unfold new_Script at 1. destruct (as_str src) as [x|]; cbn [bind]; [|reflexivity].
  destruct (wordy x); cbn [bind]; [|reflexivity]. apply IH.
Qed.

Lemma paths_loop its : forall names,
  for_in its (fun path_ env =>
      t15 <- getitem path_ (s "name") ;; t16 <- getitem path_ (s "path") ;;
      u_ <- new_PathDependency t15 t16 ;; env <- env_add_gen env u_ ;; Ok env) names =
  mfold add_path_dep its names.
Proof.
  intros names. unfold for_in. apply mfold_ext. intros st it _. unfold add_path_dep, new_PathDependency.
  destruct (getitem it (s "name")) as [n|]; cbn [bind]; [|reflexivity].
  destruct (getitem it (s "path")) as [p|]; cbn [bind]; [|reflexivity].
  destruct (as_str p); cbn [bind]; [|reflexivity].
  destruct (as_str n) as [n'|]; cbn [bind]; [|reflexivity].
  destruct (wordy n'); cbn [bind]; [|reflexivity]. rewrite bind_ret. reflexivity.
Qed.

Lemma git_item names repo :
  (let optionals := repo in
   optionals <- dict_pop optionals (s "name") ;;
   optionals <- dict_pop optionals (s "url") ;;
   optionals <- dict_pop optionals (s "path") ;;
   t20 <- getitem repo (s "name") ;;
   t21 <- getitem repo (s "url") ;;
   t22 <- getitem repo (s "path") ;;
   u_ <- new_GitDependency t20 t21 t22 optionals ;;
   env <- env_add_gen names u_ ;; Ok env) = add_git_dep names repo.
Proof.
  unfold add_git_dep. cbv zeta. destruct repo as [| | | | | |kvs]; try reflexivity.
  cbn [dict_pop items bind getitem]. unfold has_key.
  destruct (lookup (s "name") kvs) as [n|] eqn:Ln; cbn [bind dict_pop]; [|reflexivity].
  unfold has_key. rewrite (lookup_remove_key_neq (s "url") (s "name")) by reflexivity.
  destruct (lookup (s "url") kvs) as [u|] eqn:Lu; cbn [bind dict_pop]; [|reflexivity].
  unfold has_key. rewrite !(lookup_remove_key_neq (s "path")) by reflexivity.
  destruct (lookup (s "path") kvs) as [p|] eqn:Lp; cbn [bind dict_pop]; [|reflexivity].
  unfold new_GitDependency. cbn [items bind].
  destruct (existsb _ _); [reflexivity|].
  destruct (as_str n) as [n'|]; cbn [bind]; [|reflexivity].
  destruct (as_str u) as [u'|]; cbn [bind]; [|reflexivity].
  destruct (as_str p) as [p'|]; cbn [bind]; [|reflexivity].
  destruct (as_str (getd (s "hash") _ _)) as [h|]; cbn [bind]; [|reflexivity].
  destruct (as_str (getd (s "tag") _ _)) as [t|]; cbn [bind]; [|reflexivity].
  destruct (as_str (getd (s "branch") _ _)) as [b|]; cbn [bind]; [|reflexivity].
  destruct (Nat.ltb 1 _); [reflexivity|].
  destruct (_ && _); cbn [bind]; [|reflexivity]. rewrite bind_ret. reflexivity.
Qed.

Theorem get_study_environment_is_generated : forall sp,
  get_study_environment_gen sp = get_study_environment (sp_env sp).
Proof.
  intros sp. unfold get_study_environment_gen, get_study_environment, add_variables, add_sources,
    add_dependencies, new_StudyEnvironment.
  set (env := sp_env sp).
  (* variables *)
  destruct (contains (s "variables") env) as [bv|]; cbn [bind]; [|reflexivity].
  assert (Hv : forall names,
    (if bv then t2 <- getitem env (s "variables") ;; t3 <- items t2 ;;
                env0 <- for_items t3 (fun key value env0 =>
                  u_ <- new_Variable key value ;; env1 <- env_add_gen env0 u_ ;; Ok env1) names ;; Ok env0
     else Ok names) =
    (if negb bv then Ok names else
     vars <- getitem env (s "variables") ;; kvs <- items vars ;; mfold add_variable kvs names)).
  { intros names. destruct bv; cbn [negb]; [|reflexivity].
    destruct (getitem env (s "variables")) as [vars|]; cbn [bind]; [|reflexivity].
    destruct (items vars) as [kvs|]; cbn [bind]; [|reflexivity].
    rewrite bind_ret. apply variables_loop. }
  rewrite Hv. clear Hv.
  match goal with |- bind ?m _ = bind ?m _ => destruct m as [names1|]; cbn [bind]; [|reflexivity] end.
  (* sources *)
  destruct (contains (s "sources") env) as [bs|]; cbn [bind]; [|reflexivity].
  assert (Hs : forall names,
    (if bs then t5 <- getitem env (s "sources") ;; t6 <- iter t5 ;;
                env0 <- for_in t6 (fun source env0 =>
                  u_ <- new_Script source ;; env1 <- env_add_gen env0 u_ ;; Ok env1) names ;; Ok env0
     else Ok names) =
    ((if negb bs then Ok tt else
      lst <- getitem env (s "sources") ;; srcs <- iter lst ;;
      miter (fun src => x <- as_str src ;; if wordy x then Ok tt else Err (Diag DScript)) srcs) ;;; Ok names)).
  { intros names. destruct bs; cbn [negb bind]; [|reflexivity].
    destruct (getitem env (s "sources")) as [lst|]; cbn [bind]; [|reflexivity].
    destruct (iter lst) as [srcs|]; cbn [bind]; [|reflexivity].
    rewrite bind_ret. apply sources_loop. }
  rewrite Hs. clear Hs.
  match goal with |- bind (bind ?m _) _ = bind ?m _ => destruct m as [[]|]; cbn [bind]; [|reflexivity] end.
  (* labels *)
  destruct (contains (s "labels") env) as [bl|]; cbn [bind]; [|reflexivity].
  assert (Hl : forall names,
    (if bl then t8 <- getitem env (s "labels") ;; t9 <- items t8 ;;
                env0 <- for_items t9 (fun key value env0 =>
                  label <- new_Variable key value ;; env1 <- env_add_gen env0 label ;; Ok env1) names ;; Ok env0
     else Ok names) =
    (if negb bl then Ok names else
     vars <- getitem env (s "labels") ;; kvs <- items vars ;; mfold add_variable kvs names)).
  { intros names. destruct bl; cbn [negb]; [|reflexivity].
    destruct (getitem env (s "labels")) as [vars|]; cbn [bind]; [|reflexivity].
    destruct (items vars) as [kvs|]; cbn [bind]; [|reflexivity].
    rewrite bind_ret. apply variables_loop. }
  rewrite Hl. clear Hl.
  match goal with |- bind ?m _ = bind ?m _ => destruct m as [names2|]; cbn [bind]; [|reflexivity] end.
  (* dependencies *)
  destruct (contains (s "dependencies") env) as [[|]|]; cbn [bind negb]; rewrite ?bind_ret; try reflexivity.
  destruct (getitem env (s "dependencies")) as [deps|]; cbn [bind]; [|reflexivity].
  destruct (contains (s "paths") deps) as [bp|]; cbn [bind]; [|reflexivity].
  assert (Hp : forall names,
    (if bp then t13 <- getitem deps (s "paths") ;; t14 <- iter t13 ;;
                env0 <- for_in t14 (fun path_ env0 =>
                  t15 <- getitem path_ (s "name") ;; t16 <- getitem path_ (s "path") ;;
                  u_ <- new_PathDependency t15 t16 ;; env1 <- env_add_gen env0 u_ ;; Ok env1) names ;; Ok env0
     else Ok names) =
    (if negb bp then Ok names else
     lst <- getitem deps (s "paths") ;; its <- iter lst ;; mfold add_path_dep its names)).
  { intros names. destruct bp; cbn [negb]; [|reflexivity].
    destruct (getitem deps (s "paths")) as [lst|]; cbn [bind]; [|reflexivity].
    destruct (iter lst) as [its|]; cbn [bind]; [|reflexivity].
    rewrite bind_ret. apply paths_loop. }
  rewrite Hp. clear Hp.
  match goal with |- bind ?m _ = bind ?m _ => destruct m as [names3|]; cbn [bind]; [|reflexivity] end.
  destruct (contains (s "git") deps) as [[|]|]; cbn [bind negb]; try reflexivity.
  destruct (getitem deps (s "git")) as [lst|]; cbn [bind]; [|reflexivity].
  destruct (iter lst) as [its|]; cbn [bind]; [|reflexivity].
  rewrite bind_ret. unfold for_in. apply mfold_ext. intros st repo _. apply git_item.
Qed.

(* ------------------------------------------------------------------------- *)
(** * the whole front end on a loaded document                                *)
(* ------------------------------------------------------------------------- *)
(** [pipeline] of Verify.v with every translated function replaced by its
    generated text (maestro.run_study's reserved names are not translated) *)
Definition pipeline_gen (d : jv) : res (list str) :=
  sp <- load_specification_gen d ;;
  names <- get_study_environment_gen sp ;;
  steps <- get_study_steps_gen sp ;;
  reserved_ok names ;;;
  get_parameters_gen sp ;;;
  nodes <- study_nodes_gen steps ;;
  Ok (tl nodes).

Theorem pipeline_is_generated : forall d,
  (forall sp, load d = Ok sp -> uniq_keys (sp_globals sp)) -> pipeline_gen d = pipeline d.
Proof.
  intros d Hu. unfold pipeline_gen, pipeline. rewrite (load_specification_is_generated d Hu).
  destruct (load d) as [sp|]; cbn [bind]; [|reflexivity].
  destruct (verify sp); cbn [bind]; [|reflexivity].
  rewrite get_study_environment_is_generated.
  destruct (get_study_environment (sp_env sp)) as [names|]; cbn [bind]; [|reflexivity].
  rewrite get_study_steps_is_generated.
  destruct (get_study_steps (sp_study sp)) as [steps|]; cbn [bind]; [|reflexivity].
  destruct (reserved_ok names); cbn [bind]; [|reflexivity].
  pose proof (get_parameters_is_generated sp) as Hp.
  destruct (get_parameters_gen sp), (get_parameters (sp_globals sp)) as [[]|]; cbn [bind] in *;
    try discriminate; try (injection Hp as <-); try reflexivity.
  rewrite study_nodes_is_generated. reflexivity.
Qed.

(** what [yaml_load] returns is built of Python dicts: no mapping repeats a key *)
Lemma dedup_pairs_nodup l : forall seen,
  nodup_str (keys (dedup_pairs seen l)) = true /\
  (forall k, mem_str k seen = true -> mem_str k (keys (dedup_pairs seen l)) = false).
Proof.
  induction l as [|[k v] l IH]; intros seen; cbn [dedup_pairs]; [split; reflexivity|].
  destruct (mem_str k seen) eqn:Hk; [apply IH|].
  destruct (IH (k :: seen)) as [Hn Hf]. cbn [keys map fst nodup_str mem_str existsb]. split.
  - fold (keys (dedup_pairs (k :: seen) l)). fold (mem_str k (keys (dedup_pairs (k :: seen) l))).
    rewrite (Hf k), Hn; [reflexivity|]. unfold mem_str; cbn [existsb]. rewrite str_eqb_refl. reflexivity.
  - intros k' Hk'. fold (keys (dedup_pairs (k :: seen) l)). fold (mem_str k' (keys (dedup_pairs (k :: seen) l))).
    rewrite (Hf k') by (unfold mem_str in *; cbn [existsb]; rewrite Hk'; apply orb_true_r). rewrite orb_false_r.
    apply str_eqb_neq. intros ->. rewrite Hk in Hk'. discriminate.
Qed.

Lemma last_val_in k l : forall cur, last_val k l cur = cur \/ In (last_val k l cur) (map snd l).
Proof.
  induction l as [|[k' v] l IH]; intros cur; cbn [last_val]; [left; reflexivity|].
  destruct (str_eqb k k'); [destruct (IH v) as [->|H] | destruct (IH cur) as [->|H]]; cbn [map snd In]; auto.
Qed.

Lemma dedup_pairs_vals l : forall seen x, In x (map snd (dedup_pairs seen l)) -> In x (map snd l).
Proof.
  induction l as [|[k v] l IH]; intros seen x; cbn [dedup_pairs]; [tauto|].
  destruct (mem_str k seen); cbn [map snd In]; [right; eapply IH; eassumption|].
  intros [<-|H]; [|right; eapply IH; eassumption].
  destruct (last_val_in k l v) as [->|H]; auto.
Qed.

Lemma uniq_keys_yaml_load v : uniq_keys (yaml_load v).
Proof. destruct v; cbn [yaml_load uniq_keys]; try exact I. apply dedup_pairs_nodup. Qed.

Lemma lookup_In_vals k l x : lookup k l = Some x -> In x (map snd l).
Proof. intros H. apply lookup_In in H. apply (in_map snd) in H. exact H. Qed.

Lemma load_uniq doc sp : load (yaml_load doc) = Ok sp -> uniq_keys (sp_globals sp).
Proof.
  destruct doc; cbn [yaml_load load]; try discriminate. intros [= <-]. cbn [sp_globals]. unfold getd.
  destruct (lookup _ _) as [x|] eqn:L; [|reflexivity].
  apply lookup_In_vals, dedup_pairs_vals in L. rewrite map_map in L. apply in_map_iff in L.
  destruct L as [[k y] [<- _]]. apply uniq_keys_yaml_load.
Qed.

(** the function all of Props/C13.v is about, with the generated text inside *)
Definition verify_and_build_gen (doc : jv) : result :=
  match pipeline_gen (yaml_load doc) with Ok ns => Accept ns | Err c => Reject c end.

Theorem verify_and_build_is_generated : forall doc, verify_and_build_gen doc = verify_and_build doc.
Proof.
  intros doc. unfold verify_and_build_gen, verify_and_build, build.
  rewrite pipeline_is_generated; [reflexivity|]. intros sp. apply load_uniq.
Qed.

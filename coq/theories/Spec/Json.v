(** JSON / YAML values as the specification loader sees them (C13).

    A document is a [jv].  Objects are association lists and MAY hold the same
    key twice: that is what a YAML text can say.  [yaml_load] is what
    PyYAML's FullLoader builds from it: a Python dict, i.e. the FIRST position
    of a key with the LAST value given for it (no deep merge).  Numbers: Python
    [int] is [JInt]; a Python [float] written as a short decimal is
    [JFlt m e] = m / 10^e (never compared as floats: only order against the
    schema's bounds and integrality are used).  [bool] is not a number
    (jsonschema's rule, not Python's).

    Model-side definitions only (stdlib only); lemmas live in SpecProofs.v. *)
From Coq Require Import List ZArith NArith Bool Arith.
From MWF Require Import Base.Str.
Import ListNotations.
Local Open Scope Z_scope.

Inductive jv : Type :=
| JNull
| JBool (b : bool)
| JInt (z : Z)
| JFlt (m : Z) (e : nat)
| JStr (x : str)
| JArr (l : list jv)
| JObj (l : list (str * jv)).

(* ------------------------------------------------------------------ strings *)
Definition mem_str (k : str) (l : list str) : bool := existsb (str_eqb k) l.

Fixpoint nodup_str (l : list str) : bool :=
  match l with [] => true | x :: r => negb (mem_str x r) && nodup_str r end.

(** ASCII [str.lower] (the strings it is applied to here are ASCII). *)
Definition lower_char (c : N) : N :=
  if (N.leb 65 c && N.leb c 90)%bool then (c + 32)%N else c.
Definition ascii_lower (x : str) : str := map lower_char x.

(** Python's [\w] restricted to ASCII: [A-Za-z0-9_].  (Non-ASCII alphanumerics
    also match in Python; the generators only place ASCII or non-alphanumeric
    code points where [\w] is consulted -- hypothesis [H_word].) *)
Definition is_word (c : N) : bool :=
  ((N.leb 48 c && N.leb c 57) || (N.leb 65 c && N.leb c 90) ||
   (N.leb 97 c && N.leb c 122) || N.eqb c 95)%bool.
(** [re.search(r"\w+", x)] succeeds *)
Definition wordy (x : str) : bool := existsb is_word x.

(** [re.search(r"^\$\(\w+\)$", x)]: "$(" word+ ")" , optionally followed by one
    final newline (Python's [$]). *)
Fixpoint var_tail (x : str) (seen : bool) : bool :=
  match x with
  | [] => false
  | c :: r =>
      if is_word c then var_tail r true
      else if N.eqb c 41 (* ")" *)
           then seen && match r with [] => true | [10%N] => true | _ => false end
           else false
  end.
Definition is_var_ref (x : str) : bool :=
  match x with
  | 36%N :: 40%N :: r => var_tail r false     (* "$(" *)
  | _ => false
  end.

(** first-match decision list (an if-chain of string tests) *)
Fixpoint decide_list {A} (tbl : list (list str * A)) (x : str) : option A :=
  match tbl with
  | [] => None
  | (ks, a) :: r => if mem_str x ks then Some a else decide_list r x
  end.

(* ------------------------------------------------------------------ objects *)
Fixpoint lookup (k : str) (l : list (str * jv)) : option jv :=
  match l with
  | [] => None
  | (k', v) :: r => if str_eqb k k' then Some v else lookup k r
  end.
Definition has_key (k : str) (l : list (str * jv)) : bool :=
  match lookup k l with Some _ => true | None => false end.
Definition keys (l : list (str * jv)) : list str := map fst l.

Fixpoint remove_key (k : str) (l : list (str * jv)) : list (str * jv) :=
  match l with
  | [] => []
  | (k', v) :: r => if str_eqb k k' then remove_key k r else (k', v) :: remove_key k r
  end.
(** replace the value of every occurrence of [k] *)
Fixpoint set_key (k : str) (x : jv) (l : list (str * jv)) : list (str * jv) :=
  match l with
  | [] => []
  | (k', v) :: r => if str_eqb k k' then (k', x) :: set_key k x r else (k', v) :: set_key k x r
  end.

(* ---------------------------------------------------------------- yaml load *)
Fixpoint last_val (k : str) (l : list (str * jv)) (cur : jv) : jv :=
  match l with
  | [] => cur
  | (k', v) :: r => if str_eqb k k' then last_val k r v else last_val k r cur
  end.
Fixpoint dedup_pairs (seen : list str) (l : list (str * jv)) : list (str * jv) :=
  match l with
  | [] => []
  | (k, v) :: r =>
      if mem_str k seen then dedup_pairs seen r
      else (k, last_val k r v) :: dedup_pairs (k :: seen) r
  end.
Fixpoint yaml_load (v : jv) : jv :=
  match v with
  | JArr l => JArr (map yaml_load l)
  | JObj l => JObj (dedup_pairs [] (map (fun kv => match kv with (k, x) => (k, yaml_load x) end) l))
  | _ => v
  end.

(** no mapping anywhere in the document repeats a key *)
Fixpoint nodupkeys (v : jv) : bool :=
  match v with
  | JArr l => forallb nodupkeys l
  | JObj l => nodup_str (keys l) && forallb (fun kv => match kv with (_, x) => nodupkeys x end) l
  | _ => true
  end.

(* ------------------------------------------------------------------ numbers *)
Definition pow10 (e : nat) : Z := Z.pow 10 (Z.of_nat e).
(** a number as (mantissa, decimal exponent); [None] for non-numbers *)
Definition num_of (v : jv) : option (Z * nat) :=
  match v with JInt z => Some (z, O) | JFlt m e => Some (m, e) | _ => None end.
(** m1/10^e1 <= m2/10^e2 *)
Definition num_le (a b : Z * nat) : bool :=
  Z.leb (fst a * pow10 (snd b)) (fst b * pow10 (snd a)).
Definition num_eq (a b : Z * nat) : bool :=
  Z.eqb (fst a * pow10 (snd b)) (fst b * pow10 (snd a)).
(** Python [float.is_integer] for m/10^e *)
Definition num_integral (a : Z * nat) : bool := Z.eqb (Z.modulo (fst a) (pow10 (snd a))) 0.

(** Python truthiness ([not x] is [negb (truthy x)]) *)
Definition truthy (v : jv) : bool :=
  match v with
  | JNull => false
  | JBool b => b
  | JInt z => negb (Z.eqb z 0)
  | JFlt m _ => negb (Z.eqb m 0)
  | JStr x => match x with [] => false | _ => true end
  | JArr l => match l with [] => false | _ => true end
  | JObj l => match l with [] => false | _ => true end
  end.

(** JSON equality as jsonschema's [equal]/[uniq] see it on loaded values:
    numbers by value across int/float, booleans apart from numbers, mappings
    irrespective of order (loaded mappings have unique keys). *)
Fixpoint jv_eqb (a b : jv) : bool :=
  match a, b with
  | JNull, JNull => true
  | JBool x, JBool y => Bool.eqb x y
  | JInt x, JInt y => Z.eqb x y
  | JInt x, JFlt m e => num_eq (x, O) (m, e)
  | JFlt m e, JInt y => num_eq (m, e) (y, O)
  | JFlt m e, JFlt m' e' => num_eq (m, e) (m', e')
  | JStr x, JStr y => str_eqb x y
  | JArr l, JArr l' =>
      (fix go (l : list jv) (l' : list jv) : bool :=
         match l, l' with
         | [], [] => true
         | x :: r, y :: r' => jv_eqb x y && go r r'
         | _, _ => false
         end) l l'
  | JObj l, JObj l' =>
      Nat.eqb (List.length l) (List.length l') &&
      (fix sub (l : list (str * jv)) : bool :=
         match l with
         | [] => true
         | (k, x) :: r => match lookup k l' with
                          | Some y => jv_eqb x y && sub r
                          | None => false
                          end
         end) l
  | _, _ => false
  end.
Definition mem_jv (x : jv) (l : list jv) : bool := existsb (jv_eqb x) l.
Fixpoint unique_jv (l : list jv) : bool :=
  match l with [] => true | x :: r => negb (mem_jv x r) && unique_jv r end.

(** Interpreter for exactly the JSON-Schema (Draft 7) keywords that
    maestrowf/specification/schemas/yamlspecification.json uses (C13).

    A schema is the list of its keywords, in source order ([kw] mirrors the
    JSON text one to one; the T-data generator translate/tdata_enums.py emits
    it and fails closed on anything else).  [valid s v] is
    [jsonschema.Draft7Validator(s).is_valid(v)]: every keyword must pass, a
    keyword ignores values of a kind it does not talk about.
    Validated against the real jsonschema on every run (harness/props/c13.py).

    Also here (definitions only): navigation of a schema along a path, and the
    decidable "this schema guarantees that shape" check used by the proofs. *)
From Coq Require Import List ZArith NArith Bool Arith.
From MWF Require Import Base.Str Spec.Json.
Import ListNotations.

Inductive jty := TNull | TBoolean | TInteger | TNumber | TString | TArray | TObject.

Inductive kw : Type :=
| KType (t : jty)                             (* "type": "<t>" *)
| KProperties (ps : list (str * list kw))     (* "properties": {...} *)
| KPatternAll (s : list kw)                   (* "patternProperties": {"^.*": s} *)
| KRequired (ks : list str)                   (* "required": [...] *)
| KAdditionalFalse                            (* "additionalProperties": false *)
| KItems (s : list kw)                        (* "items": s *)
| KUniqueItems                                (* "uniqueItems": true *)
| KMinLength (n : nat)
| KMinItems (n : nat)
| KEnum (vs : list jv)
| KAnyOf (ss : list (list kw))
| KOneOf (ss : list (list kw))
| KMinimum (b : Z * nat)                      (* bound as mantissa/10^e *)
| KMaximum (b : Z * nat)
| KPatternVar.                                (* "pattern": "^\\$\\(\\w+\\)$" *)
Definition schema := list kw.

Definition has_type (t : jty) (v : jv) : bool :=
  match t, v with
  | TNull, JNull => true
  | TBoolean, JBool _ => true
  | TInteger, JInt _ => true
  | TInteger, JFlt m e => num_integral (m, e)      (* draft 6+: 2.0 is an integer *)
  | TNumber, JInt _ => true
  | TNumber, JFlt _ _ => true
  | TString, JStr _ => true
  | TArray, JArr _ => true
  | TObject, JObj _ => true
  | _, _ => false
  end.

Fixpoint assoc_schema (k : str) (ps : list (str * list kw)) : option (list kw) :=
  match ps with
  | [] => None
  | (k', s) :: r => if str_eqb k k' then Some s else assoc_schema k r
  end.

(** the "properties" table of a keyword list (first occurrence), [] if none *)
Fixpoint props_of (s : list kw) : list (str * list kw) :=
  match s with
  | [] => []
  | KProperties ps :: _ => ps
  | _ :: r => props_of r
  end.
Fixpoint pattern_all_of (s : list kw) : option (list kw) :=
  match s with
  | [] => None
  | KPatternAll p :: _ => Some p
  | _ :: r => pattern_all_of r
  end.

Definition count_true (l : list bool) : nat := List.length (filter (fun b => b) l).

(** [kw_ok sibs k v]: keyword [k] of the schema [sibs] accepts [v] *)
Fixpoint kw_ok (sibs : list kw) (k : kw) (v : jv) {struct k} : bool :=
  let valid_ := fun (s : list kw) (x : jv) =>
    (fix go (l : list kw) : bool :=
       match l with [] => true | k' :: r => kw_ok s k' x && go r end) s in
  match k with
  | KType t => has_type t v
  | KProperties ps =>
      match v with
      | JObj l =>
          (fix go (ps : list (str * list kw)) : bool :=
             match ps with
             | [] => true
             | (p, s) :: r =>
                 match lookup p l with
                 | Some x => valid_ s x && go r
                 | None => go r
                 end
             end) ps
      | _ => true
      end
  | KPatternAll s =>
      match v with
      | JObj l => forallb (fun kv => valid_ s (snd kv)) l
      | _ => true
      end
  | KRequired ks =>
      match v with
      | JObj l => forallb (fun p => has_key p l) ks
      | _ => true
      end
  | KAdditionalFalse =>
      match v with
      | JObj l =>
          match pattern_all_of sibs with
          | Some _ => true
          | None => forallb (fun p => match assoc_schema p (props_of sibs) with
                                      | Some _ => true | None => false end) (keys l)
          end
      | _ => true
      end
  | KItems s =>
      match v with
      | JArr l => forallb (valid_ s) l
      | _ => true
      end
  | KUniqueItems => match v with JArr l => unique_jv l | _ => true end
  | KMinLength n => match v with JStr x => Nat.leb n (List.length x) | _ => true end
  | KMinItems n => match v with JArr l => Nat.leb n (List.length l) | _ => true end
  | KEnum vs => mem_jv v vs
  | KAnyOf ss =>
      (fix go (ss : list (list kw)) : bool :=
         match ss with [] => false | s :: r => valid_ s v || go r end) ss
  | KOneOf ss =>
      Nat.eqb 1 (count_true
        ((fix go (ss : list (list kw)) : list bool :=
            match ss with [] => [] | s :: r => valid_ s v :: go r end) ss))
  | KMinimum b => match num_of v with Some a => num_le b a | None => true end
  | KMaximum b => match num_of v with Some a => num_le a b | None => true end
  | KPatternVar => match v with JStr x => is_var_ref x | _ => true end
  end.

Definition valid_from (s : schema) (l : list kw) (v : jv) : bool :=
  forallb (fun k => kw_ok s k v) l.
Definition valid (s : schema) (v : jv) : bool := valid_from s s v.

(* ------------------------------------------------------ reading a schema *)
Fixpoint type_of (s : schema) : option jty :=
  match s with [] => None | KType t :: _ => Some t | _ :: r => type_of r end.
Fixpoint required_of (s : schema) : list str :=
  match s with [] => [] | KRequired ks :: r => ks ++ required_of r | _ :: r => required_of r end.
Fixpoint items_of (s : schema) : option schema :=
  match s with [] => None | KItems i :: _ => Some i | _ :: r => items_of r end.
Fixpoint closed_of (s : schema) : bool :=
  match s with [] => false | KAdditionalFalse :: _ => true | _ :: r => closed_of r end.
Fixpoint min_length_of (s : schema) : nat :=
  match s with [] => O | KMinLength n :: r => Nat.max n (min_length_of r) | _ :: r => min_length_of r end.
Definition jty_eqb (a b : jty) : bool :=
  match a, b with
  | TNull, TNull | TBoolean, TBoolean | TInteger, TInteger | TNumber, TNumber
  | TString, TString | TArray, TArray | TObject, TObject => true
  | _, _ => false
  end.
Definition is_type (s : schema) (t : jty) : bool :=
  match type_of s with Some t' => jty_eqb t t' | None => false end.

(** sub-schema governing the member [k] of an object / the items of an array *)
Definition prop_schema (s : schema) (k : str) : option schema :=
  match assoc_schema k (props_of s) with
  | Some p => Some p
  | None => pattern_all_of s
  end.

(* ------------------------------------------------------------------ paths *)
Inductive pstep := PKey (k : str) | PIdx (i : nat).
Definition path := list pstep.

Fixpoint value_at (v : jv) (p : path) : option jv :=
  match p with
  | [] => Some v
  | PKey k :: r => match v with
                   | JObj l => match lookup k l with Some x => value_at x r | None => None end
                   | _ => None
                   end
  | PIdx i :: r => match v with
                   | JArr l => match nth_error l i with Some x => value_at x r | None => None end
                   | _ => None
                   end
  end.

Fixpoint set_nth (i : nat) (x : jv) (l : list jv) : list jv :=
  match l, i with
  | [], _ => []
  | _ :: r, O => x :: r
  | y :: r, S i' => y :: set_nth i' x r
  end.

(** replace the value at [p] (nothing happens when the path does not exist) *)
Fixpoint set_at (v : jv) (p : path) (x : jv) : jv :=
  match p with
  | [] => x
  | PKey k :: r =>
      match v with
      | JObj l => match lookup k l with
                  | Some c => JObj (set_key k (set_at c r x) l)
                  | None => v
                  end
      | _ => v
      end
  | PIdx i :: r =>
      match v with
      | JArr l => match nth_error l i with
                  | Some c => JArr (set_nth i (set_at c r x) l)
                  | None => v
                  end
      | _ => v
      end
  end.

Fixpoint schema_at (s : schema) (p : path) : option schema :=
  match p with
  | [] => Some s
  | PKey k :: r => match prop_schema s k with Some s' => schema_at s' r | None => None end
  | PIdx _ :: r => match items_of s with Some s' => schema_at s' r | None => None end
  end.

(* ----------------------------------------------------------------- shapes *)
(** What a consumer needs from a value.  [ShObj fields]: a mapping in which
    every [(k, true, sh)] is present, and every listed key that is present
    conforms to its shape; [ShClosed ks fields]: additionally no key outside
    [ks]; [ShMap sh]: a mapping all of whose values conform; [ShArr sh]: a
    list all of whose items conform. *)
Inductive shape : Type :=
| ShAny
| ShStr
| ShArr (item : shape)
| ShMap (val : shape)
| ShObj (closed : option (list str)) (fields : list (str * (bool * shape))).

Fixpoint conforms (sh : shape) (v : jv) {struct sh} : bool :=
  match sh with
  | ShAny => true
  | ShStr => match v with JStr _ => true | _ => false end
  | ShArr it => match v with JArr l => forallb (conforms it) l | _ => false end
  | ShMap it => match v with JObj l => forallb (fun kv => conforms it (snd kv)) l | _ => false end
  | ShObj closed fields =>
      match v with
      | JObj l =>
          match closed with
          | Some ks => forallb (fun k => mem_str k ks) (keys l)
          | None => true
          end &&
          (fix go (fs : list (str * (bool * shape))) : bool :=
             match fs with
             | [] => true
             | (k, (req, sh')) :: r =>
                 match lookup k l with
                 | Some x => conforms sh' x && go r
                 | None => negb req && go r
                 end
             end) fields
      | _ => false
      end
  end.

Definition is_any (sh : shape) : bool := match sh with ShAny => true | _ => false end.

(** decidable sufficient condition: every value [valid] for [s] conforms to [sh] *)
Fixpoint guarantees (s : schema) (sh : shape) {struct sh} : bool :=
  match sh with
  | ShAny => true
  | ShStr => is_type s TString
  | ShArr it =>
      is_type s TArray &&
      (is_any it || match items_of s with Some s' => guarantees s' it | None => false end)
  | ShMap it =>
      is_type s TObject &&
      (is_any it ||
       match pattern_all_of s with
       | Some s' => guarantees s' it
       | None => false
       end)
  | ShObj closed fields =>
      is_type s TObject &&
      match closed with
      | Some ks => closed_of s &&
                   match pattern_all_of s with Some _ => false | None => true end &&
                   forallb (fun k => mem_str k ks) (map fst (props_of s))
      | None => true
      end &&
      (fix go (fs : list (str * (bool * shape))) : bool :=
         match fs with
         | [] => true
         | (k, (req, sh')) :: r =>
             (negb req || mem_str k (required_of s)) &&
             (is_any sh' || match prop_schema s k with
                            | Some s' => guarantees s' sh'
                            | None => false
                            end) &&
             go r
         end) fields
  end.

(** Concrete documents used by the non-vacuity examples and by the known-finding
    witness of C13 (definitions only). *)
From Coq Require Import List ZArith NArith Bool.
From MWF Require Import Base.Str Spec.Json Spec.Schema Gen.SpecData Spec.Verify.
Import ListNotations.

Definition ex_step (n : str) (deps : list str) : jv :=
  JObj [(s "name", JStr n); (s "description", JStr (s "does things"));
        (s "run", JObj ([(s "cmd", JStr (s "echo hi"))] ++
                        match deps with [] => [] | _ => [(s "depends", JArr (map JStr deps))] end))].

(** a valid specification: two steps, b after a, an environment with one of
    everything, two parameters of two values *)
Definition ex_doc : jv :=
  JObj [(s "description", JObj [(s "name", JStr (s "study")); (s "description", JStr (s "d"))]);
        (s "env", JObj [(s "variables", JObj [(s "OUTPUT_PATH", JStr (s "./out")); (s "V", JInt 3)]);
                        (s "labels", JObj [(s "L", JStr (s "$(V).txt"))]);
                        (s "sources", JArr [JStr (s "module load x")]);
                        (s "dependencies",
                         JObj [(s "paths", JArr [JObj [(s "name", JStr (s "PD")); (s "path", JStr (s "/tmp"))]]);
                               (s "git", JArr [JObj [(s "name", JStr (s "GD")); (s "path", JStr (s "p"));
                                                     (s "url", JStr (s "u")); (s "tag", JStr (s "v1"))]])])]);
        (s "study", JArr [ex_step (s "a") []; ex_step (s "b") [s "a_*"]]);
        (s "global.parameters",
         JObj [(s "P", JObj [(s "values", JArr [JInt 1; JInt 2]); (s "label", JStr (s "P.%%"))]);
               (s "Q", JObj [(s "values", JArr [JStr (s "x"); JStr (s "y")]); (s "label", JStr (s "Q.%%"))])])].

Definition p_run0 : path := [PKey (s "study"); PIdx 0; PKey (s "run")].
Definition p_cmd0 : path := [PKey (s "study"); PIdx 0; PKey (s "run"); PKey (s "cmd")].
Definition p_step1 : path := [PKey (s "study"); PIdx 1].
Definition p_prio0 : path := [PKey (s "study"); PIdx 0; PKey (s "run"); PKey (s "priority")].

(** witness of the known finding K5 (corpus/C13/k5_duplicate_yaml_keys.json) *)
Definition k5_witness : jv :=
  JObj [(s "description", JObj [(s "name", JStr (s "n")); (s "description", JStr (s "d"))]);
        (s "env", JObj [(s "variables", JObj [(s "V", JStr (s "x")); (s "V", JStr (s "y"))])]);
        (s "study", JArr [JObj [(s "name", JStr (s "a")); (s "description", JStr (s "da"));
                                (s "run", JObj [(s "cmd", JStr (s "echo a"))])]])].

(** Proofs for C13 (specification front end).  Model: Spec/Verify.v. *)
From Coq Require Import List ZArith NArith Bool Arith Lia.
From MWF Require Import Base.Str Spec.Json Spec.Schema Gen.SpecData Spec.Verify.
Import ListNotations.

(* ------------------------------------------------------------------ enums *)
Lemma enums_all_ok : forallb enum_ok priority_enum = true.
Proof. vm_compute. reflexivity. Qed.

Lemma enums_ok : forall x, In x priority_enum ->
  exists p u, priority_from_str x = Some p /\ urgency_of p flux_urgency_table = Some u /\ (0 <= u <= 31)%Z.
Proof.
  intros x Hin.
  pose proof (proj1 (forallb_forall enum_ok priority_enum) enums_all_ok x Hin) as H.
  unfold enum_ok, flux_urgency_str in H.
  destruct (priority_from_str x) as [p|] eqn:Ep; [|discriminate].
  destruct (urgency_of p flux_urgency_table) as [u|] eqn:Eu; [|discriminate].
  exists p, u. apply andb_prop in H; destruct H as [H1 H2].
  apply Z.leb_le in H1. apply Z.leb_le in H2. split; [reflexivity|]. split; [exact Eu|]. lia.
Qed.

(** Proofs for C13 (specification front end).  Model: Spec/Verify.v.

    Part 1 (this file): the priority enum; the monad; what an accepted
    verification says about the four sections ([verify_ok_inv]); SAFETY: the
    whole pipeline never answers [Internal], whatever the document
    ([build_never_internal]).
    Part 2 (SpecAccept.v): what acceptance implies ([accept_sound]). *)
From Coq Require Import List ZArith NArith Bool Arith Lia.
From MWF Require Import Base.Str Spec.Json Spec.Schema Gen.SpecData Spec.Verify Spec.SchemaProofs.
Import ListNotations.

(* ------------------------------------------------------------------ enums *)
Lemma enums_all_ok : forallb enum_ok priority_enum = true.
Proof. vm_compute. reflexivity. Qed.

Lemma enums_ok : forall x, In x priority_enum ->
  exists p u, priority_from_str x = Some p /\ urgency_of p flux_urgency_table = Some u /\ (0 <= u <= 31)%Z.
Proof.
  intros x Hin.
  pose proof (proj1 (forallb_forall enum_ok priority_enum) enums_all_ok x Hin) as H.
  unfold enum_ok, flux_urgency_str in H.
  destruct (priority_from_str x) as [p|] eqn:Ep; [|discriminate].
  destruct (urgency_of p flux_urgency_table) as [u|] eqn:Eu; [|discriminate].
  exists p, u. apply andb_prop in H; destruct H as [H1 H2].
  apply Z.leb_le in H1. apply Z.leb_le in H2. split; [reflexivity|]. split; [exact Eu|]. lia.
Qed.

(** the regenerated form of environment.Script._verify is the one [wordy] models *)
Lemma script_form_ok : script_verify_form = script_form_expected.
Proof. vm_compute. reflexivity. Qed.

Lemma priority_enum_nonempty : priority_enum <> [].
Proof. vm_compute. discriminate. Qed.

(** the numeric branch ceil(n/d * scale) stays inside 0..scale for 0 <= n/d <= 1 *)
Lemma urgency_num_range n d : (0 < d)%Z -> (0 <= n <= d)%Z ->
  (0 <= flux_urgency_num n d <= flux_urgency_scale)%Z.
Proof.
  intros Hd Hn. unfold flux_urgency_num.
  assert (Hs : (0 <= flux_urgency_scale)%Z) by (vm_compute; discriminate).
  set (k := flux_urgency_scale) in *.
  split.
  - assert ((- (n * k)) / d <= 0)%Z; [|lia].
    apply Z.div_le_upper_bound; [exact Hd|]. nia.
  - assert (- k <= (- (n * k)) / d)%Z; [|lia].
    apply Z.div_le_lower_bound; [exact Hd|]. nia.
Qed.

(* -------------------------------------------------------------- the monad *)
Definition safe {A} (r : res A) : Prop := r <> Err Internal.

Lemma safe_ok {A} (a : A) : safe (Ok a).
Proof. unfold safe. discriminate. Qed.
Lemma safe_diag {A} d : safe (@Err A (Diag d)).
Proof. unfold safe. discriminate. Qed.
#[export] Hint Resolve safe_ok safe_diag : c13.

Lemma bind_ok {A B} (r : res A) (f : A -> res B) b :
  bind r f = Ok b -> exists a, r = Ok a /\ f a = Ok b.
Proof. destruct r as [a|c]; simpl; [eauto | discriminate]. Qed.

Lemma safe_bind {A B} (r : res A) (f : A -> res B) :
  safe r -> (forall a, r = Ok a -> safe (f a)) -> safe (bind r f).
Proof.
  intros Hr Hf. destruct r as [a|c]; simpl.
  - apply Hf. reflexivity.
  - unfold safe in *. intro E. apply Hr. inversion E. reflexivity.
Qed.

Lemma safe_mfold {A S} (f : S -> A -> res S) l :
  (forall st a, In a l -> safe (f st a)) -> forall st, safe (mfold f l st).
Proof.
  induction l as [|a r IH]; intros H st; simpl.
  - apply safe_ok.
  - apply safe_bind.
    + apply H. left. reflexivity.
    + intros st' _. apply IH. intros st0 a0 Hin. apply H. right. exact Hin.
Qed.
Lemma safe_mfold_inv {A S} (f : S -> A -> res S) (Inv : S -> Prop) l :
  (forall st a, In a l -> Inv st -> safe (f st a) /\ forall st', f st a = Ok st' -> Inv st') ->
  forall st, Inv st -> safe (mfold f l st).
Proof.
  induction l as [|a r IH]; intros H st Hst; simpl.
  - apply safe_ok.
  - destruct (H st a (or_introl eq_refl) Hst) as [H1 H2]. apply safe_bind.
    + exact H1.
    + intros st' E. apply IH; [|apply H2; exact E].
      intros st0 a0 Hin. apply H. right. exact Hin.
Qed.
Lemma safe_miter {A} (f : A -> res unit) l : (forall a, In a l -> safe (f a)) -> safe (miter f l).
Proof. intro H. unfold miter. apply safe_mfold. intros st a Hin. apply H. exact Hin. Qed.
Lemma safe_mmap {A B} (f : A -> res B) l : (forall a, In a l -> safe (f a)) -> safe (mmap f l).
Proof.
  induction l as [|a r IH]; intro H; simpl.
  - apply safe_ok.
  - apply safe_bind; [apply H; left; reflexivity|]. intros b _.
    apply safe_bind; [apply IH; intros a0 Hin; apply H; right; exact Hin|].
    intros bs _. apply safe_ok.
Qed.

Lemma miter_ok {A} (f : A -> res unit) l u : miter f l = Ok u -> forall a, In a l -> f a = Ok tt.
Proof.
  unfold miter. revert u. generalize tt at 1.
  induction l as [|a r IH]; intros u0 u H x Hin; [contradiction|].
  simpl in H. apply bind_ok in H. destruct H as [st' [H1 H2]]. destruct st'.
  destruct Hin as [->|Hin]; [exact H1 | eapply IH; eauto].
Qed.
Lemma mmap_ok {A B} (f : A -> res B) l bs : mmap f l = Ok bs -> Forall2 (fun a b => f a = Ok b) l bs.
Proof.
  revert bs. induction l as [|a r IH]; intros bs H; simpl in H.
  - inversion H. constructor.
  - apply bind_ok in H. destruct H as [b [H1 H]]. apply bind_ok in H. destruct H as [bs' [H2 H]].
    inversion H; subst. constructor; [exact H1 | apply IH; exact H2].
Qed.

Lemma Forall2_in_r {A B} (R : A -> B -> Prop) l l' b :
  Forall2 R l l' -> In b l' -> exists a, In a l /\ R a b.
Proof.
  induction 1 as [|a b' l l' H H2 IH]; intro Hin; [contradiction|].
  destruct Hin as [->|Hin].
  - exists a. split; [left; reflexivity | exact H].
  - destruct (IH Hin) as [a0 [H3 H4]]. exists a0. split; [right; exact H3 | exact H4].
Qed.

(* --------------------------------------------------- the partial operations *)
Lemma getitem_ok v k x : getitem v k = Ok x -> exists l, v = JObj l /\ lookup k l = Some x.
Proof.
  destruct v; simpl; try discriminate. destruct (lookup k l) eqn:E; [|discriminate].
  intro H. inversion H; subst. eauto.
Qed.
Lemma contains_ok k v b : contains k v = Ok b -> exists l, v = JObj l /\ b = has_key k l.
Proof. destruct v; simpl; try discriminate. intro H. inversion H. eauto. Qed.
Lemma items_ok v l : items v = Ok l -> v = JObj l.
Proof. destruct v; simpl; try discriminate. intro H. inversion H. reflexivity. Qed.
Lemma iter_ok v l : iter v = Ok l -> v = JArr l.
Proof. destruct v; simpl; try discriminate. intro H. inversion H. reflexivity. Qed.
Lemma as_str_ok v x : as_str v = Ok x -> v = JStr x.
Proof. destruct v; simpl; try discriminate. intro H. inversion H. reflexivity. Qed.
Lemma getitem_obj l k x : lookup k l = Some x -> getitem (JObj l) k = Ok x.
Proof. simpl. intro H. rewrite H. reflexivity. Qed.

Lemma field_obj k l : field k (JObj l) = match lookup k l with Some x => x | None => JNull end.
Proof. reflexivity. Qed.

Lemma lookup_remove_key_neq k k' l : str_eqb k k' = false -> lookup k (remove_key k' l) = lookup k l.
Proof.
  intro N. induction l as [|[k0 v] r IH]; simpl; [reflexivity|].
  destruct (str_eqb k' k0) eqn:E.
  - apply str_eqb_eq in E. subst. rewrite N. exact IH.
  - simpl. rewrite IH. reflexivity.
Qed.

(* ------------------------------------------------------------------ shapes *)
(** what the consumers need from each section; [guarantees] (decided by
    computation on the REGENERATED schema) says every valid value has it *)
Definition sh_desc : shape := ShObj None [(s "name", (true, ShAny))].
Definition sh_pathdep : shape :=
  ShObj None [(s "name", (true, ShStr)); (s "path", (true, ShStr))].
Definition git_keys : list str := [s "name"; s "path"; s "url"; s "tag"; s "hash"; s "branch"].
Definition sh_gitdep : shape :=
  ShObj (Some git_keys)
        [(s "name", (true, ShStr)); (s "path", (true, ShStr)); (s "url", (true, ShStr));
         (s "tag", (false, ShStr)); (s "hash", (false, ShStr)); (s "branch", (false, ShStr))].
Definition sh_deps : shape :=
  ShObj None [(s "paths", (false, ShArr sh_pathdep)); (s "git", (false, ShArr sh_gitdep))].
Definition sh_env : shape :=
  ShObj None [(s "variables", (false, ShMap ShAny)); (s "labels", (false, ShMap ShAny));
              (s "sources", (false, ShArr ShStr)); (s "dependencies", (false, sh_deps))].
Definition sh_run : shape := ShObj None [(s "depends", (false, ShArr ShStr))].
Definition sh_step : shape :=
  ShObj None [(s "name", (true, ShStr)); (s "description", (true, ShAny)); (s "run", (true, sh_run))].
Definition sh_param : shape :=
  ShObj None [(s "values", (true, ShArr ShAny)); (s "label", (true, ShAny))].

Lemma schema_guarantees :
  guarantees DESCRIPTION sh_desc = true /\ guarantees ENV sh_env = true /\
  guarantees STUDY_STEP sh_step = true /\ guarantees PARAM sh_param = true.
Proof. vm_compute. repeat split; reflexivity. Qed.

Lemma valid_desc_shape v : valid DESCRIPTION v = true -> conforms sh_desc v = true.
Proof. apply guarantees_sound. apply schema_guarantees. Qed.
Lemma valid_env_shape v : valid ENV v = true -> conforms sh_env v = true.
Proof. apply guarantees_sound. apply schema_guarantees. Qed.
Lemma valid_step_shape v : valid STUDY_STEP v = true -> conforms sh_step v = true.
Proof. apply guarantees_sound. apply schema_guarantees. Qed.
Lemma valid_param_shape v : valid PARAM v = true -> conforms sh_param v = true.
Proof. apply guarantees_sound. apply schema_guarantees. Qed.

Lemma default_env_valid : valid ENV default_env = true.
Proof. vm_compute. reflexivity. Qed.
Lemma empty_desc_invalid : valid DESCRIPTION (JObj []) = false.
Proof. vm_compute. reflexivity. Qed.

Local Opaque s DESCRIPTION ENV STUDY_STEP PARAM.

Ltac inl := simpl; repeat (first [left; reflexivity | right]).

(** a conforming field that is present *)
Lemma field_conforms c fs l k req sh x :
  conforms (ShObj c fs) (JObj l) = true -> In (k, (req, sh)) fs -> lookup k l = Some x -> conforms sh x = true.
Proof.
  intros H Hin L. apply conforms_obj_inv in H. destruct H as [l' [E [H _]]]. inversion E; subst l'.
  specialize (H _ _ _ Hin). rewrite L in H. exact H.
Qed.
Lemma field_required c fs l k sh :
  conforms (ShObj c fs) (JObj l) = true -> In (k, (true, sh)) fs -> exists x, lookup k l = Some x /\ conforms sh x = true.
Proof.
  intros H Hin. apply conforms_obj_inv in H. destruct H as [l' [E [H _]]]. inversion E; subst l'.
  specialize (H _ _ _ Hin). destruct (lookup k l) as [x|]; [eauto | discriminate].
Qed.

(* ------------------------------------------------------------------ verify *)
Lemma validate_ok d sc v u : validate d sc v = Ok u -> valid sc v = true.
Proof. unfold validate. destruct (valid sc v); [reflexivity | discriminate]. Qed.
Lemma validate_safe d sc v : safe (validate d sc v).
Proof. unfold validate. destruct (valid sc v); auto with c13. Qed.

Lemma verify_variables_safe env : conforms sh_env env = true -> safe (verify_variables env).
Proof.
  intro C. destruct (conforms_obj_inv _ _ _ C) as [l [-> _]].
  unfold verify_variables. simpl contains. simpl bind.
  destruct (has_key (s "variables") l) eqn:HK; simpl; [|apply safe_ok].
  destruct (has_key_lookup _ _ HK) as [x L]. rewrite L. simpl.
  assert (Cx : conforms (ShMap ShAny) x = true) by (eapply field_conforms; [exact C| |exact L]; inl).
  destruct (conforms_map_inv _ _ Cx) as [vl [-> _]]. simpl.
  apply safe_mfold. intros seen kv _.
  destruct (is_nil (fst kv)); [apply safe_diag|].
  destruct (match snd kv with JStr [] => true | _ => false end); [apply safe_diag|].
  destruct (mem_str (fst kv) seen); auto with c13.
Qed.

Definition path_item (it : jv) : Prop :=
  exists il n p, it = JObj il /\ lookup (s "name") il = Some (JStr n) /\ lookup (s "path") il = Some (JStr p).
Definition git_item (it : jv) : Prop :=
  exists il n p u, it = JObj il /\ lookup (s "name") il = Some (JStr n) /\
    lookup (s "path") il = Some (JStr p) /\ lookup (s "url") il = Some (JStr u) /\
    (forall k, In k (keys il) -> In k git_keys) /\
    (forall k x, In k [s "tag"; s "hash"; s "branch"] -> lookup k il = Some x -> exists z, x = JStr z).

Lemma pathdep_item it : conforms sh_pathdep it = true -> path_item it.
Proof.
  intro C. destruct (conforms_obj_inv _ _ _ C) as [il [-> _]].
  destruct (field_required _ _ _ (s "name") ShStr C) as [n [Ln Cn]]; [inl|].
  destruct (field_required _ _ _ (s "path") ShStr C) as [p [Lp Cp]]; [inl|].
  destruct (conforms_str_inv _ Cn) as [n' ->]. destruct (conforms_str_inv _ Cp) as [p' ->].
  exists il, n', p'. auto.
Qed.
Lemma gitdep_item it : conforms sh_gitdep it = true -> git_item it.
Proof.
  intro C. destruct (conforms_obj_inv _ _ _ C) as [il [-> [_ Hc]]].
  destruct (field_required _ _ _ (s "name") ShStr C) as [n [Ln Cn]]; [inl|].
  destruct (field_required _ _ _ (s "path") ShStr C) as [p [Lp Cp]]; [inl|].
  destruct (field_required _ _ _ (s "url") ShStr C) as [u [Lu Cu]]; [inl|].
  destruct (conforms_str_inv _ Cn) as [n' ->]. destruct (conforms_str_inv _ Cp) as [p' ->].
  destruct (conforms_str_inv _ Cu) as [u' ->].
  exists il, n', p', u'. repeat split; auto.
  intros k x Hk L. apply conforms_str_inv.
  destruct Hk as [<-|[<-|[<-|[]]]]; (eapply field_conforms; [exact C| |exact L]; inl).
Qed.

(** what the environment's shape gives the dependency loops *)
Lemma env_deps_facts l x :
  conforms sh_env (JObj l) = true -> lookup (s "dependencies") l = Some x ->
  exists dl, x = JObj dl /\
    (forall y, lookup (s "paths") dl = Some y -> exists pl, y = JArr pl /\ forall it, In it pl -> path_item it) /\
    (forall y, lookup (s "git") dl = Some y -> exists gl, y = JArr gl /\ forall it, In it gl -> git_item it).
Proof.
  intros C L.
  assert (Cx : conforms sh_deps x = true) by (eapply field_conforms; [exact C| |exact L]; inl).
  destruct (conforms_obj_inv _ _ _ Cx) as [dl [-> _]]. exists dl. split; [reflexivity|]. split.
  - intros y Ly.
    assert (Cy : conforms (ShArr sh_pathdep) y = true) by (eapply field_conforms; [exact Cx| |exact Ly]; inl).
    destruct (conforms_arr_inv _ _ Cy) as [pl [-> H]]. exists pl. split; [reflexivity|].
    intros it Hin. apply pathdep_item. apply H. exact Hin.
  - intros y Ly.
    assert (Cy : conforms (ShArr sh_gitdep) y = true) by (eapply field_conforms; [exact Cx| |exact Ly]; inl).
    destruct (conforms_arr_inv _ _ Cy) as [gl [-> H]]. exists gl. split; [reflexivity|].
    intros it Hin. apply gitdep_item. apply H. exact Hin.
Qed.

Lemma verify_dependencies_safe env seen : conforms sh_env env = true -> safe (verify_dependencies env seen).
Proof.
  intro C. destruct (conforms_obj_inv _ _ _ C) as [l [-> _]].
  unfold verify_dependencies.
  assert (Hts : forall t, In t dep_types -> t = s "paths" \/ t = s "git").
  { unfold dep_types. intros t [<-|[<-|[]]]; auto. }
  revert Hts. generalize dep_types. intros ts Hts.
  simpl contains. simpl bind.
  destruct (has_key (s "dependencies") l) eqn:HK; simpl; [|apply safe_ok].
  destruct (has_key_lookup _ _ HK) as [x L]. rewrite L. simpl.
  destruct (env_deps_facts _ _ C L) as [dl [-> [Hp Hg]]].
  assert (Hname : forall (its : list jv) seen0,
             (forall it, In it its -> exists il n, it = JObj il /\ lookup (s "name") il = Some (JStr n)) ->
             safe (mfold (fun seen1 item =>
                            n <- getitem item (s "name") ;; n0 <- as_str n ;;
                            (if mem_str n0 seen1 then Err (Diag DDupDepName) else Ok (seen1 ++ [n0])))
                         its seen0)).
  { intros its seen0 H. apply safe_mfold. intros st it Hin.
    destruct (H _ Hin) as [il [n [-> Ln]]]. simpl. rewrite Ln. simpl.
    destruct (mem_str n st); auto with c13. }
  apply safe_mfold. intros st t Ht. simpl.
  destruct (has_key t dl) eqn:HKt; simpl; [|apply safe_ok].
  destruct (has_key_lookup _ _ HKt) as [y Ly]. rewrite Ly. simpl.
  destruct (Hts _ Ht) as [->| ->].
  - destruct (Hp _ Ly) as [pl [-> H]]. simpl. apply Hname.
    intros it Hin. destruct (H _ Hin) as [il [n [p [-> [Ln _]]]]]. eauto.
  - destruct (Hg _ Ly) as [gl [-> H]]. simpl. apply Hname.
    intros it Hin. destruct (H _ Hin) as [il [n [p [u [-> [Ln _]]]]]]. eauto.
Qed.

Lemma verify_environment_safe env : safe (verify_environment env).
Proof.
  unfold verify_environment. apply safe_bind; [apply validate_safe|]. intros u V.
  apply validate_ok in V. apply valid_env_shape in V.
  apply safe_bind; [apply verify_variables_safe; exact V|]. intros seen _.
  apply safe_bind; [apply verify_dependencies_safe; exact V|]. intros; apply safe_ok.
Qed.

Lemma verify_study_safe study : safe (verify_study study).
Proof.
  unfold verify_study. destruct (negb (truthy study)); [apply safe_diag|].
  destruct study; try apply safe_diag.
  apply safe_miter. intros a _. apply validate_safe.
Qed.

Lemma param_facts value : valid PARAM value = true ->
  exists vl vs lab, value = JObj vl /\ lookup (s "values") vl = Some (JArr vs) /\ lookup (s "label") vl = Some lab.
Proof.
  intro V. apply valid_param_shape in V.
  destruct (conforms_obj_inv _ _ _ V) as [vl [-> _]].
  destruct (field_required _ _ _ (s "values") (ShArr ShAny) V) as [x [Lx Cx]]; [inl|].
  destruct (field_required _ _ _ (s "label") ShAny V) as [lab [Ll _]]; [inl|].
  destruct (conforms_arr_inv _ _ Cx) as [vs [-> _]]. exists vl, vs, lab. auto.
Qed.

Lemma verify_parameters_safe g : safe (verify_parameters g).
Proof.
  unfold verify_parameters. destruct g; try apply safe_diag.
  apply safe_bind; [|intros; apply safe_ok].
  apply safe_mfold. intros vlen kv _.
  apply safe_bind; [apply validate_safe|]. intros u V. apply validate_ok in V.
  destruct (param_facts _ V) as [vl [vs [lab [E [Lv Ll]]]]]. rewrite E.
  simpl getitem. rewrite Lv, Ll. simpl.
  apply safe_bind.
  - destruct lab; auto with c13.
    destruct (negb (Nat.eqb (List.length vs) (List.length l0))); [apply safe_diag|].
    destruct (negb (unique_jv l0)); auto with c13.
  - intros _ _. destruct vlen as [m|]; [|apply safe_ok].
    destruct (Nat.eqb (List.length vs) m); auto with c13.
Qed.

Lemma verify_safe sp : safe (verify sp).
Proof.
  unfold verify. apply safe_bind; [apply validate_safe|]. intros u V. apply validate_ok in V.
  apply safe_bind; [apply verify_environment_safe|]. intros _ _.
  apply safe_bind; [apply verify_study_safe|]. intros _ _.
  apply safe_bind; [apply verify_parameters_safe|]. intros _ _.
  apply valid_desc_shape in V.
  destruct (conforms_obj_inv _ _ _ V) as [l [E _]]. rewrite E in *.
  destruct (field_required _ _ _ (s "name") ShAny V) as [x [Lx _]]; [inl|].
  simpl. rewrite Lx. simpl. apply safe_ok.
Qed.

(** what a successful verification established *)
Record verified (sp : spec) : Prop := {
  vf_desc : valid DESCRIPTION (sp_desc sp) = true;
  vf_env : valid ENV (sp_env sp) = true;
  vf_study : exists steps, sp_study sp = JArr steps /\ steps <> [] /\
                           forall st, In st steps -> valid STUDY_STEP st = true;
  vf_globals : exists kvs, sp_globals sp = JObj kvs /\
                           forall kv, In kv kvs -> valid PARAM (snd kv) = true
}.

Lemma mfold_ok_each {A S} (f : S -> A -> res S) (P : A -> Prop) :
  (forall st a st', f st a = Ok st' -> P a) ->
  forall l st st', mfold f l st = Ok st' -> forall a, In a l -> P a.
Proof.
  intros Hf. induction l as [|a r IH]; intros st st' H x Hin; [contradiction|].
  simpl in H. apply bind_ok in H. destruct H as [st1 [H1 H2]].
  destruct Hin as [->|Hin]; [eapply Hf; eauto | eapply IH; eauto].
Qed.

Lemma verify_ok_inv sp u : verify sp = Ok u -> verified sp.
Proof.
  unfold verify. intro H.
  apply bind_ok in H. destruct H as [u1 [H1 H]]. apply validate_ok in H1.
  apply bind_ok in H. destruct H as [u2 [H2 H]].
  apply bind_ok in H. destruct H as [u3 [H3 H]].
  apply bind_ok in H. destruct H as [u4 [H4 _]].
  constructor.
  - exact H1.
  - unfold verify_environment in H2. apply bind_ok in H2. destruct H2 as [u5 [H2 _]].
    eapply validate_ok. exact H2.
  - unfold verify_study in H3. destruct (truthy (sp_study sp)) eqn:T; simpl in H3; [|discriminate].
    destruct (sp_study sp) as [| | | | |steps|]; try discriminate.
    exists steps. split; [reflexivity|]. split.
    + intro E. subst. simpl in T. discriminate.
    + intros st Hin. eapply validate_ok. eapply miter_ok; eauto.
  - unfold verify_parameters in H4. destruct (sp_globals sp) as [| | | | | |kvs]; try discriminate.
    exists kvs. split; [reflexivity|].
    apply bind_ok in H4. destruct H4 as [vlen [H4 _]].
    intros kv Hin. revert kv Hin. eapply mfold_ok_each; [|exact H4].
    intros st a st' Hf. apply bind_ok in Hf. destruct Hf as [u6 [Hf _]].
    eapply validate_ok. exact Hf.
Qed.

(* --------------------------------------------------------------- consumers *)
Lemma add_name_safe names n : safe (add_name names n).
Proof. unfold add_name. destruct (negb (is_nil n) && mem_str n names); auto with c13. Qed.
Lemma add_variable_safe names kv : safe (add_variable names kv).
Proof.
  unfold add_variable. destruct (is_nil (fst kv) || match snd kv with JNull => true | _ => false end);
    [apply safe_diag | apply add_name_safe].
Qed.

Lemma add_variables_safe key env names :
  conforms sh_env env = true -> In (key, (false, ShMap ShAny)) [(s "variables", (false, ShMap ShAny)); (s "labels", (false, ShMap ShAny))] ->
  safe (add_variables key env names).
Proof.
  intros C Hk. destruct (conforms_obj_inv _ _ _ C) as [l [-> _]].
  unfold add_variables. simpl contains. simpl bind.
  destruct (has_key key l) eqn:HK; simpl; [|apply safe_ok].
  destruct (has_key_lookup _ _ HK) as [x L]. rewrite L. simpl.
  assert (Cx : conforms (ShMap ShAny) x = true).
  { eapply field_conforms; [exact C| |exact L]. destruct Hk as [Hk|[Hk|[]]]; inversion Hk; subst; inl. }
  destruct (conforms_map_inv _ _ Cx) as [vl [-> _]]. simpl.
  apply safe_mfold. intros st kv _. apply add_variable_safe.
Qed.

Lemma add_sources_safe env : conforms sh_env env = true -> safe (add_sources env).
Proof.
  intro C. destruct (conforms_obj_inv _ _ _ C) as [l [-> _]].
  unfold add_sources. simpl contains. simpl bind.
  destruct (has_key (s "sources") l) eqn:HK; simpl; [|apply safe_ok].
  destruct (has_key_lookup _ _ HK) as [x L]. rewrite L. simpl.
  assert (Cx : conforms (ShArr ShStr) x = true) by (eapply field_conforms; [exact C| |exact L]; inl).
  destruct (conforms_arr_inv _ _ Cx) as [sl [-> H]]. simpl.
  apply safe_miter. intros a Hin. destruct (conforms_str_inv _ (H _ Hin)) as [z ->]. simpl.
  destruct (wordy z); auto with c13.
Qed.

Lemma add_path_dep_safe names it : path_item it -> safe (add_path_dep names it).
Proof.
  intros [il [n [p [-> [Ln Lp]]]]]. unfold add_path_dep. simpl. rewrite Ln, Lp. simpl.
  destruct (wordy n); [apply add_name_safe | apply safe_diag].
Qed.

Lemma git_keys_not_reserved : forallb (fun k => negb (mem_str k git_reserved_kw)) git_keys = true.
Proof. vm_compute. reflexivity. Qed.

Lemma keys_remove_key_incl k l k' : In k' (keys (remove_key k l)) -> In k' (keys l).
Proof. intro H. apply keys_remove_key in H. tauto. Qed.

Lemma add_git_dep_safe names it : git_item it -> safe (add_git_dep names it).
Proof.
  intros [il [n [p [u [-> [Ln [Lp [Lu [Hc Ho]]]]]]]]]. unfold add_git_dep. simpl items. simpl bind.
  simpl getitem. rewrite Ln, Lu, Lp. simpl bind.
  set (rest := remove_key (s "path") (remove_key (s "url") (remove_key (s "name") il))).
  assert (Hrest : forall k, In k (keys rest) -> In k git_keys).
  { intros k Hk. apply Hc. unfold rest in Hk.
    apply keys_remove_key_incl in Hk. apply keys_remove_key_incl in Hk. apply keys_remove_key_incl in Hk. exact Hk. }
  match goal with |- safe (if ?c then _ else _) => assert (E : c = false) end.
  { match goal with |- ?c = false => destruct c eqn:E' end; [|reflexivity].
    apply existsb_exists in E'. destruct E' as [k [Hk Hm]].
    pose proof (proj1 (forallb_forall _ _) git_keys_not_reserved _ (Hrest _ Hk)) as H.
    cbv beta in H. unfold mem_str, git_reserved_kw in H. simpl existsb in H.
    rewrite Hm in H. discriminate. }
  rewrite E.
  assert (Hopt : forall k, In k [s "tag"; s "hash"; s "branch"] ->
                           exists z, getd k (JStr []) rest = JStr z).
  { intros k Hk. unfold getd.
    assert (L : lookup k rest = lookup k il).
    { unfold rest. rewrite !lookup_remove_key_neq; [reflexivity| | |];
        destruct Hk as [<-|[<-|[<-|[]]]]; vm_compute; reflexivity. }
    rewrite L. destruct (lookup k il) as [x|] eqn:Lk; [|eauto].
    destruct (Ho _ _ Hk Lk) as [z ->]. eauto. }
  destruct (Hopt (s "hash")) as [h ->]; [inl|].
  destruct (Hopt (s "tag")) as [t ->]; [inl|].
  destruct (Hopt (s "branch")) as [b ->]; [inl|].
  simpl.
  destruct (Nat.ltb 1 _); [apply safe_diag|].
  destruct (_ && _); [apply add_name_safe | apply safe_diag].
Qed.

Lemma add_dependencies_safe env names : conforms sh_env env = true -> safe (add_dependencies env names).
Proof.
  intro C. destruct (conforms_obj_inv _ _ _ C) as [l [-> _]].
  unfold add_dependencies. simpl contains. simpl bind.
  destruct (has_key (s "dependencies") l) eqn:HK; simpl; [|apply safe_ok].
  destruct (has_key_lookup _ _ HK) as [x L]. rewrite L. simpl.
  destruct (env_deps_facts _ _ C L) as [dl [-> [Hp Hg]]]. simpl.
  apply safe_bind.
  - destruct (has_key (s "paths") dl) eqn:HKp; simpl; [|apply safe_ok].
    destruct (has_key_lookup _ _ HKp) as [y Ly]. rewrite Ly. simpl.
    destruct (Hp _ Ly) as [pl [-> H]]. simpl.
    apply safe_mfold. intros st it Hin. apply add_path_dep_safe. apply H. exact Hin.
  - intros names' _.
    destruct (has_key (s "git") dl) eqn:HKg; simpl; [|apply safe_ok].
    destruct (has_key_lookup _ _ HKg) as [y Ly]. rewrite Ly. simpl.
    destruct (Hg _ Ly) as [gl [-> H]]. simpl.
    apply safe_mfold. intros st it Hin. apply add_git_dep_safe. apply H. exact Hin.
Qed.

Lemma get_study_environment_safe env : valid ENV env = true -> safe (get_study_environment env).
Proof.
  intro V. apply valid_env_shape in V. unfold get_study_environment.
  apply safe_bind; [apply add_variables_safe; [exact V | inl]|]. intros n1 _.
  apply safe_bind; [apply add_sources_safe; exact V|]. intros _ _.
  apply safe_bind; [apply add_variables_safe; [exact V | inl]|]. intros n2 _.
  apply add_dependencies_safe. exact V.
Qed.

(** a verified step, as the consumers read it *)
Definition step_item (st : jv) : Prop :=
  exists l n dsc rl, st = JObj l /\ lookup (s "name") l = Some (JStr n) /\
    lookup (s "description") l = Some dsc /\ lookup (s "run") l = Some (JObj rl) /\
    (forall x, lookup (s "depends") rl = Some x -> exists ds, x = JArr ds /\ forall y, In y ds -> exists z, y = JStr z).

Lemma step_facts st : valid STUDY_STEP st = true -> step_item st.
Proof.
  intro V. apply valid_step_shape in V.
  destruct (conforms_obj_inv _ _ _ V) as [l [-> _]].
  destruct (field_required _ _ _ (s "name") ShStr V) as [n [Ln Cn]]; [inl|].
  destruct (field_required _ _ _ (s "description") ShAny V) as [dsc [Ld _]]; [inl|].
  destruct (field_required _ _ _ (s "run") sh_run V) as [r [Lr Cr]]; [inl|].
  destruct (conforms_str_inv _ Cn) as [n' ->].
  destruct (conforms_obj_inv _ _ _ Cr) as [rl [-> _]].
  exists l, n', dsc, rl. repeat split; auto.
  intros x Lx.
  assert (Cx : conforms (ShArr ShStr) x = true) by (eapply field_conforms; [exact Cr| |exact Lx]; inl).
  destruct (conforms_arr_inv _ _ Cx) as [ds [-> H]]. exists ds. split; [reflexivity|].
  intros y Hy. apply conforms_str_inv. apply H. exact Hy.
Qed.

Definition step_fn (st : jv) : res (jv * list (str * jv)) :=
  n <- getitem st (s "name") ;; _ <- getitem st (s "description") ;;
  r <- getitem st (s "run") ;; kvs <- items r ;; Ok (n, kvs).
Lemma get_study_steps_eq study : get_study_steps study = (steps <- iter study ;; mmap step_fn steps).
Proof. reflexivity. Qed.

Lemma step_fn_item st : step_item st ->
  exists n rl, step_fn st = Ok (JStr n, rl) /\
    (forall x, lookup (s "depends") rl = Some x -> exists ds, x = JArr ds /\ forall y, In y ds -> exists z, y = JStr z).
Proof.
  intros [l [n [dsc [rl [-> [Ln [Ld [Lr Hd]]]]]]]]. exists n, rl. split; [|exact Hd].
  unfold step_fn. simpl. rewrite Ln, Ld, Lr. reflexivity.
Qed.

Lemma add_step_safe nodes n rl :
  (forall x, lookup (s "depends") rl = Some x -> exists ds, x = JArr ds /\ forall y, In y ds -> exists z, y = JStr z) ->
  safe (add_step nodes (JStr n, rl)).
Proof.
  intro Hd. unfold add_step. simpl fst. simpl snd. simpl as_str. simpl bind.
  destruct (mem_str n nodes); [apply safe_diag|].
  unfold getd. destruct (lookup (s "depends") rl) as [x|] eqn:L; [|simpl; apply safe_ok].
  destruct (Hd _ eq_refl) as [ds [-> H]].
  destruct (negb (truthy (JArr ds))); [apply safe_ok|]. simpl iter. simpl bind.
  apply safe_bind; [|intros; apply safe_ok].
  apply safe_miter. intros y Hy. destruct (H _ Hy) as [z ->]. simpl.
  destruct (str_eqb (strip_stars z) n); [apply safe_diag|].
  destruct (mem_str (strip_stars z) (nodes ++ [n])); auto with c13.
Qed.

Lemma get_parameters_safe g :
  (exists kvs, g = JObj kvs /\ forall kv, In kv kvs -> valid PARAM (snd kv) = true) -> safe (get_parameters g).
Proof.
  intros [kvs [-> H]]. unfold get_parameters. simpl items. simpl bind.
  apply safe_bind; [|intros; apply safe_ok].
  apply safe_mfold. intros len kv Hin.
  destruct (param_facts _ (H _ Hin)) as [vl [vs [lab [E [Lv Ll]]]]]. rewrite E.
  simpl contains. simpl bind. simpl getitem. rewrite Lv, Ll. simpl bind.
  apply safe_bind.
  - destruct (has_key (s "name") vl) eqn:HK; [|apply safe_ok].
    destruct (has_key_lookup _ _ HK) as [x ->]. apply safe_ok.
  - intros _ _. simpl. destruct (Nat.eqb len 0); [apply safe_ok|].
    destruct (Nat.eqb (List.length vs) len); auto with c13.
Qed.

(* ------------------------------------------------------------------ SAFETY *)
Theorem pipeline_safe d : safe (pipeline d).
Proof.
  unfold pipeline. apply safe_bind.
  { unfold load. destruct d; auto with c13. }
  intros sp _. apply safe_bind; [apply verify_safe|]. intros u V.
  apply verify_ok_inv in V. destruct V as [Vd Ve [steps [Es [Hne Vs]]] Vg].
  apply safe_bind; [apply get_study_environment_safe; exact Ve|]. intros names _.
  assert (Hs : forall st, In st steps -> exists n rl, step_fn st = Ok (JStr n, rl) /\
             (forall x, lookup (s "depends") rl = Some x -> exists ds, x = JArr ds /\ forall y, In y ds -> exists z, y = JStr z)).
  { intros st Hin. apply step_fn_item. apply step_facts. apply Vs. exact Hin. }
  apply safe_bind.
  { rewrite get_study_steps_eq, Es. simpl iter. simpl bind. apply safe_mmap.
    intros st Hin. destruct (Hs _ Hin) as [n [rl [E _]]]. rewrite E. apply safe_ok. }
  intros sts Hsts.
  apply safe_bind; [unfold reserved_ok; destruct (mem_str _ names); auto with c13|]. intros _ _.
  apply safe_bind; [apply get_parameters_safe; exact Vg|]. intros _ _.
  apply safe_bind; [|intros; apply safe_ok].
  rewrite get_study_steps_eq, Es in Hsts. simpl in Hsts. apply mmap_ok in Hsts.
  apply safe_mfold. intros nodes p Hp.
  destruct (Forall2_in_r _ _ _ _ Hsts Hp) as [st [Hin Est]].
  destruct (Hs _ Hin) as [n [rl [E Hd]]]. rewrite E in Est. inversion Est; subst p.
  apply add_step_safe. exact Hd.
Qed.

(** the consumers are total on every verified specification: each key they
    index is present with the kind of value they need *)
Theorem consumers_total sp u : verify sp = Ok u ->
  get_study_environment (sp_env sp) <> Err Internal /\
  get_study_steps (sp_study sp) <> Err Internal /\
  get_parameters (sp_globals sp) <> Err Internal /\
  (forall steps nodes, get_study_steps (sp_study sp) = Ok steps -> mfold add_step steps nodes <> Err Internal).
Proof.
  intro V. apply verify_ok_inv in V. destruct V as [Vd Ve [steps [Es [Hne Vs]]] Vg].
  assert (Hs : forall st, In st steps -> exists n rl, step_fn st = Ok (JStr n, rl) /\
             (forall x, lookup (s "depends") rl = Some x -> exists ds, x = JArr ds /\ forall y, In y ds -> exists z, y = JStr z)).
  { intros st Hin. apply step_fn_item. apply step_facts. apply Vs. exact Hin. }
  split; [apply get_study_environment_safe; exact Ve|].
  split.
  { rewrite get_study_steps_eq, Es. simpl iter. simpl bind. apply safe_mmap.
    intros st Hin. destruct (Hs _ Hin) as [n [rl [E _]]]. rewrite E. apply safe_ok. }
  split; [apply get_parameters_safe; exact Vg|].
  intros sts nodes Hsts.
  rewrite get_study_steps_eq, Es in Hsts. simpl in Hsts. apply mmap_ok in Hsts.
  apply safe_mfold. intros nodes' p Hp.
  destruct (Forall2_in_r _ _ _ _ Hsts Hp) as [st [Hin Est]].
  destruct (Hs _ Hin) as [n [rl [E Hd]]]. rewrite E in Est. inversion Est; subst p.
  apply add_step_safe. exact Hd.
Qed.

Theorem verify_never_internal sp : verify sp <> Err Internal.
Proof. exact (verify_safe sp). Qed.

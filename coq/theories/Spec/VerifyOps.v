(** Combinators the text GENERATED from the specification front end of maestrowf
    (Spec/VerifyGen.v, by translate/tcode_spec.py) is composed of: one combinator
    per Python expression / statement template of
      maestrowf/specification/yamlspecification.py  (verify*, the consumers),
      maestrowf/datastructures/core/study.py        (StudyStep, Study.add_step),
      maestrowf/datastructures/core/studyenvironment.py (StudyEnvironment.add),
      maestrowf/datastructures/core/parameters.py   (ParameterGenerator.add_parameter),
      maestrowf/datastructures/dag.py               (the guards of add_node / add_edge).

    The representation is the one of Spec/Verify.v: a Python value that came out
    of the YAML loader is a [jv]; every partial Python operation answers in
    [res] -- [Err Internal] is a KeyError / TypeError / AttributeError on the
    given JSON shape, [Err (Diag _)] a deliberate ValidationError / ValueError /
    Exception(msg).  The partial operations themselves ([getitem], [contains],
    [items], [iter], [as_str]) are Verify.v's; what is added here are the type
    tests, the local containers, the loops and the objects the consumers build.

    Stdlib only, small total functions, no proofs.  The equality of the generated
    functions with the hand-written model is in Spec/VerifyGenProofs.v. *)
From Coq Require Import List ZArith NArith Bool Arith.
From MWF Require Import Base.Str Spec.Json Spec.Schema Spec.Verify.
Import ListNotations.

(** [(a, b) = e; f] in the [res] monad *)
Notation "' p <- e ;; f" := (bind e (fun p => f))
  (at level 61, p pattern, e at next level, right associativity).

(* ------------------------------------------------------------------------- *)
(** * type tests, truth values, integers                                      *)
(* ------------------------------------------------------------------------- *)

(** [isinstance(v, dict)], [isinstance(v, list)], [isinstance(v, str)] *)
Definition is_dict (v : jv) : bool := match v with JObj _ => true | _ => false end.
Definition is_list (v : jv) : bool := match v with JArr _ => true | _ => false end.
Definition is_str (v : jv) : bool := match v with JStr _ => true | _ => false end.

(** truth value of a mapping key / step name (a Python [str]) *)
Definition truthy_str (k : str) : bool := negb (is_nil k).

(** [len(v)] as a Python int *)
Definition py_len (v : jv) : res Z := n <- pylen v ;; Ok (Z.of_nat n).

(** [v.get(k)]: only a mapping has [.get] *)
Definition py_get (v : jv) (k : str) : res jv :=
  match v with JObj l => Ok (getd k JNull l) | _ => Err Internal end.

(** [x in v] / [x not in v] for a string [v]: substring test, here only for
    the one-character needle ["*"] *)
Definition str_has_char (c : N) (x : str) : bool := existsb (N.eqb c) x.

(* ------------------------------------------------------------------------- *)
(** * local containers                                                        *)
(* ------------------------------------------------------------------------- *)

(** [set()], [s.add(k)] on a set of names (insertion order kept, as in Verify.v;
    membership is [mem_str]) *)
Definition set_empty : list str := [].
Definition set_add (k : str) (st : list str) : list str := st ++ [k].

(** [set(v)] of a loaded list: its distinct members.  Only ever applied behind
    the schema (labels are strings); hashing of unhashable members is not
    modelled, as in Verify.v *)
Fixpoint distinct_jv (l : list jv) : list jv :=
  match l with
  | [] => []
  | x :: r => if mem_jv x r then distinct_jv r else x :: distinct_jv r
  end.
Definition py_set (v : jv) : res (list jv) :=
  match v with JArr l => Ok (distinct_jv l) | _ => Err Internal end.
Definition set_len (st : list jv) : Z := Z.of_nat (List.length st).

(** [[]], [l.append(x)] *)
Definition list_append {A} (l : list A) (x : A) : list A := l ++ [x].

(** [d.pop(k)] without default on (a copy of) a loaded value: KeyError when
    the key is missing, AttributeError / TypeError on a non-mapping *)
Definition dict_pop (v : jv) (k : str) : res jv :=
  match v with
  | JObj l => if has_key k l then Ok (JObj (remove_key k l)) else Err Internal
  | _ => Err Internal
  end.

(** [d.pop(k, default)] on the mapping the loader returned: the value and the
    mapping without the key *)
Definition dict_pop_default (v : jv) (k : str) (d : jv) : res (jv * jv) :=
  match v with JObj l => Ok (getd k d l, JObj (remove_key k l)) | _ => Err Internal end.

(** [specification.<attribute> = v] on a YAMLSpecification *)
Definition spec_set_description (v : jv) (sp : spec) : spec :=
  {| sp_desc := v; sp_env := sp_env sp; sp_study := sp_study sp; sp_globals := sp_globals sp |}.
Definition spec_set_environment (v : jv) (sp : spec) : spec :=
  {| sp_desc := sp_desc sp; sp_env := v; sp_study := sp_study sp; sp_globals := sp_globals sp |}.
Definition spec_set_study (v : jv) (sp : spec) : spec :=
  {| sp_desc := sp_desc sp; sp_env := sp_env sp; sp_study := v; sp_globals := sp_globals sp |}.
Definition spec_set_globals (v : jv) (sp : spec) : spec :=
  {| sp_desc := sp_desc sp; sp_env := sp_env sp; sp_study := sp_study sp; sp_globals := v |}.

(* ------------------------------------------------------------------------- *)
(** * control flow                                                            *)
(* ------------------------------------------------------------------------- *)

(** [for x in l: body]; [st] is the tuple of the locals the body re-binds;
    a [raise] in the body ends the loop with that error *)
Definition for_in {A S} (l : list A) (body : A -> S -> res S) (st : S) : res S :=
  mfold (fun st a => body a st) l st.

(** [for k, v in d.items(): body] *)
Definition for_items {S} (l : list (str * jv)) (body : str -> jv -> S -> res S) (st : S) : res S :=
  mfold (fun st kv => body (fst kv) (snd kv) st) l st.

(** [jsonschema.Draft7Validator(schema).iter_errors(instance)]: only whether
    there is a first error matters (the formatter raises on it) *)
Definition iter_errors (sc : schema) (v : jv) : list unit :=
  if valid sc v then [] else [tt].

(* ------------------------------------------------------------------------- *)
(** * StudyStep objects (study.py)                                            *)
(* ------------------------------------------------------------------------- *)

(** a StudyStep as Verify.v sees it: the value given as its name and the
    entries written into its [run] dictionary, in assignment order (the keys
    come from [.items()] of a mapping: no key twice); the entries of
    [StudyStep.__init__] stay underneath as [defaults] *)
Definition stepobj : Type := (jv * list (str * jv))%type.

(** [StudyStep()]: [_name = ""], nothing written into [run] yet *)
Definition new_StudyStep : stepobj := (JStr [], []).
(** [step.name = v] (the setter stores [_name]) *)
Definition step_set_name (v : jv) (st : stepobj) : stepobj := (v, snd st).
(** [step.description = v]: no part of the model *)
Definition step_set_description (v : jv) (st : stepobj) : stepobj := st.
(** [step.run[k] = v] *)
Definition run_setitem (k : str) (v : jv) (st : stepobj) : stepobj := (fst st, snd st ++ [(k, v)]).
(** [step.real_name] (= [_name]) where a string is needed: membership in the
    table of a DAG, comparison with a dependency name *)
Definition step_real_name (st : stepobj) : res str := as_str (fst st).
(** [k in step.run] *)
Definition run_contains (defaults : list (str * jv)) (k : str) (st : stepobj) : bool :=
  has_key k (snd st) || has_key k defaults.
(** [step.run[k]] *)
Definition run_getitem (defaults : list (str * jv)) (st : stepobj) (k : str) : res jv :=
  match lookup k (snd st) with
  | Some x => Ok x
  | None => match lookup k defaults with Some x => Ok x | None => Err Internal end
  end.

(** [apply_function(step.__dict__, self.environment.apply_environment)]:
    substitution of environment tokens into the step's strings; step names and
    dependency names without "$" are unchanged (hypothesis [tokfree] of the
    C13 theorems), the substitution itself is C09's *)
Definition apply_environment (st : stepobj) : stepobj := st.

(** [re.sub(ALL_COMBOS, "", d)] with [ALL_COMBOS = _\*|\*] *)
Definition re_sub_all_combos (d : str) : str := strip_stars d.

(* ------------------------------------------------------------------------- *)
(** * environment objects (studyenvironment.py and the classes it is given)   *)
(* ------------------------------------------------------------------------- *)

(** what [StudyEnvironment.add] looks at: the class family and the name *)
Inductive envobj :=
| EDependency (name : str)
| ESubstitution (name : str)
| ESource.

Definition is_Dependency (o : envobj) : bool := match o with EDependency _ => true | _ => false end.
Definition is_Substitution (o : envobj) : bool := match o with ESubstitution _ => true | _ => false end.
Definition is_Source (o : envobj) : bool := match o with ESource => true | _ => false end.
(** [item.name] (only read behind the isinstance test that guarantees it) *)
Definition item_name (o : envobj) : res (option str) :=
  match o with EDependency n => Ok (Some n) | ESubstitution n => Ok (Some n) | ESource => Err Internal end.
(** [name and name in self._names] pieces, [self._names.add(name)] ([None] is
    not a name of the model) *)
Definition opt_truthy (n : option str) : bool := match n with Some k => truthy_str k | None => false end.
Definition opt_mem (n : option str) (names : list str) : bool :=
  match n with Some k => mem_str k names | None => false end.
Definition names_add (n : option str) (names : list str) : list str :=
  match n with Some k => names ++ [k] | None => names end.

(** [StudyEnvironment()]: no names yet; [ParameterGenerator()]: [length = 0] *)
Definition new_StudyEnvironment : list str := [].
Definition new_ParameterGenerator : Z := 0%Z.

(** the constructors (hand-written from environment/variable.py, script.py,
    pathdependency.py, gitdependency.py: attribute stores and [_verify]) *)
Definition new_Variable (key : str) (value : jv) : res envobj :=
  if is_nil key || match value with JNull => true | _ => false end
  then Err (Diag DVarIncomplete) else Ok (ESubstitution key).
Definition new_Script (source : jv) : res envobj :=
  x <- as_str source ;; if wordy x then Ok ESource else Err (Diag DScript).
Definition new_PathDependency (name value : jv) : res envobj :=
  _ <- as_str value ;;
  n <- as_str name ;;
  if wordy n then Ok (EDependency n) else Err (Diag DPathDep).
Definition new_GitDependency (name url path optionals : jv) : res envobj :=
  rest <- items optionals ;;
  if existsb (fun k => mem_str k git_reserved_kw) (keys rest) then Err Internal else
  n <- as_str name ;; u <- as_str url ;; p <- as_str path ;;
  h <- as_str (getd (s "hash") (JStr []) rest) ;;
  t <- as_str (getd (s "tag") (JStr []) rest) ;;
  b <- as_str (getd (s "branch") (JStr []) rest) ;;
  if Nat.ltb 1 (List.length (distinct_str (filter (fun x => negb (is_nil x)) [b; h; t])))
  then Err (Diag DGitOpts)
  else if wordy n && wordy u && wordy p && truthy (getd (s "token") (JStr (s "$")) rest) &&
          (is_nil (first_nonempty [h; t; b]) || wordy (first_nonempty [h; t; b]))
       then Ok (EDependency n)
       else Err (Diag DGitDep).

(** labels of diagnostic sites that have none of their own in Verify.v because
    they cannot fire on a Python mapping (its keys are distinct) *)
Definition DParamDup : diag := DParamsNotMap.

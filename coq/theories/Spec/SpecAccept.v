(** Proofs for C13, part 2: what acceptance implies.

    [accept_sound]: if the pipeline (verify + consumers + Study construction)
    accepts a loaded document [d] with step list [ns], then [d] breaks none of
    the documented rules ([malformed d = false]) and [ns] is exactly the
    document's step names, in order.  With [pipeline_safe] (never Internal):
    [monitor_holds], the theorem about the monitor [C13_ok], and
    [malformed_rejected]. *)
From Coq Require Import List ZArith NArith Bool Arith Lia.
From MWF Require Import Base.Str Spec.Json Spec.Schema Gen.SpecData Spec.Verify Spec.SchemaProofs Spec.SpecProofs.
Import ListNotations.

Local Opaque s DESCRIPTION ENV STUDY_STEP PARAM.

(* ---------------------------------------------------------------- helpers *)
Lemma NoDup_snoc' {A} (x : A) l : NoDup l -> ~ In x l -> NoDup (l ++ [x]).
Proof.
  induction l as [|a l IH]; simpl; intros H Hn.
  - constructor; [intros []|constructor].
  - inversion H; subst. constructor.
    + rewrite in_app_iff. simpl. intros [H1|[H1|[]]]; [contradiction | subst; apply Hn; left; reflexivity].
    + apply IH; [assumption | intro H1; apply Hn; right; exact H1].
Qed.

Definition good (names : list str) : Prop := NoDup names /\ ~ In [] names.
Lemma good_nil : good [].
Proof. split; [constructor | intros []]. Qed.
Lemma good_snoc names n : good names -> n <> [] -> ~ In n names -> good (names ++ [n]).
Proof.
  intros [H1 H2] Hn Hi. split.
  - apply NoDup_snoc'; assumption.
  - rewrite in_app_iff. simpl. intros [H|[H|[]]]; [contradiction | congruence].
Qed.

Lemma has_key_false_lookup k l : has_key k l = false -> lookup k l = None.
Proof. unfold has_key. destruct (lookup k l); [discriminate | reflexivity]. Qed.

Lemma is_nil_false {A} (l : list A) : is_nil l = false -> l <> [].
Proof. destruct l; simpl; [discriminate | discriminate]. Qed.
Lemma wordy_nonempty x : wordy x = true -> x <> [].
Proof. destruct x; simpl; [discriminate | discriminate]. Qed.

Lemma add_name_ok names n names' :
  add_name names n = Ok names' -> n <> [] -> names' = names ++ [n] /\ ~ In n names.
Proof.
  unfold add_name. intros H Hn. destruct n as [|c n]; [congruence|]. simpl negb in H. simpl andb in H.
  destruct (mem_str (c :: n) names) eqn:E; [discriminate|].
  inversion H. split; [reflexivity|]. apply mem_str_false. exact E.
Qed.

(** a fold that appends one fresh, non-empty name per item *)
Lemma mfold_names {A} (f : list str -> A -> res (list str)) (nm : A -> str) :
  (forall names it names', f names it = Ok names' ->
     names' = names ++ [nm it] /\ nm it <> [] /\ ~ In (nm it) names) ->
  forall its names names', mfold f its names = Ok names' ->
    names' = names ++ map nm its /\ (good names -> good names').
Proof.
  intro Hf. induction its as [|it r IH]; intros names names' H; simpl in H.
  - inversion H. rewrite app_nil_r. auto.
  - apply bind_ok in H. destruct H as [n1 [H1 H2]].
    destruct (Hf _ _ _ H1) as [E [Hne Hni]]. subst n1.
    destruct (IH _ _ H2) as [E2 G2]. split.
    + rewrite E2. simpl. rewrite <- app_assoc. reflexivity.
    + intro G. apply G2. apply good_snoc; assumption.
Qed.

(* ------------------------------------------------------------- environment *)
Lemma add_variable_ok names kv names' :
  add_variable names kv = Ok names' ->
  names' = names ++ [fst kv] /\ fst kv <> [] /\ ~ In (fst kv) names.
Proof.
  unfold add_variable. destruct (is_nil (fst kv)) eqn:N; simpl orb; [discriminate|].
  destruct (match snd kv with JNull => true | _ => false end); [discriminate|].
  intro H. apply is_nil_false in N. destruct (add_name_ok _ _ _ H N). auto.
Qed.

Lemma add_variables_ok key env names names' :
  add_variables key env names = Ok names' ->
  names' = names ++ keys (obj_items (field key env)) /\ (good names -> good names').
Proof.
  unfold add_variables. intro H. apply bind_ok in H. destruct H as [b [Hc H]].
  apply contains_ok in Hc. destruct Hc as [l [-> ->]]. rewrite field_obj.
  destruct (has_key key l) eqn:HK; simpl negb in H; cbv iota in H.
  - apply bind_ok in H. destruct H as [vars [Hg H]]. apply bind_ok in H. destruct H as [kvs [Hi H]].
    apply getitem_ok in Hg. destruct Hg as [l' [E L]]. inversion E; subst l'. rewrite L.
    apply items_ok in Hi. subst vars. simpl obj_items.
    exact (mfold_names add_variable fst add_variable_ok _ _ _ H).
  - inversion H. rewrite (has_key_false_lookup _ _ HK). simpl. rewrite app_nil_r. auto.
Qed.

Definition item_name (it : jv) : str := str_of (field (s "name") it).

Lemma add_path_dep_ok names it names' :
  add_path_dep names it = Ok names' ->
  names' = names ++ [item_name it] /\ item_name it <> [] /\ ~ In (item_name it) names.
Proof.
  unfold add_path_dep. intro H.
  apply bind_ok in H. destruct H as [n [Hn H]]. apply bind_ok in H. destruct H as [p [Hp H]].
  apply bind_ok in H. destruct H as [p' [Hp' H]]. apply bind_ok in H. destruct H as [x [Hx H]].
  apply getitem_ok in Hn. destruct Hn as [il [-> Ln]]. apply as_str_ok in Hx. subst n.
  unfold item_name. rewrite field_obj, Ln. simpl str_of.
  destruct (wordy x) eqn:W; [|discriminate]. apply wordy_nonempty in W.
  destruct (add_name_ok _ _ _ H W). auto.
Qed.

Lemma add_git_dep_ok names it names' :
  add_git_dep names it = Ok names' ->
  names' = names ++ [item_name it] /\ item_name it <> [] /\ ~ In (item_name it) names.
Proof.
  unfold add_git_dep. intro H.
  apply bind_ok in H. destruct H as [kvs [Hk H]]. apply items_ok in Hk. subst it.
  apply bind_ok in H. destruct H as [n [Hn H]]. apply bind_ok in H. destruct H as [u [Hu H]].
  apply bind_ok in H. destruct H as [p [Hp H]].
  apply getitem_ok in Hn. destruct Hn as [il [E Ln]]. inversion E; subst il. clear E.
  match type of H with (if ?c then _ else _) = _ => destruct c; [discriminate|] end.
  apply bind_ok in H. destruct H as [x [Hx H]]. apply as_str_ok in Hx. subst n.
  apply bind_ok in H. destruct H as [u' [_ H]]. apply bind_ok in H. destruct H as [p' [_ H]].
  apply bind_ok in H. destruct H as [h [_ H]]. apply bind_ok in H. destruct H as [t [_ H]].
  apply bind_ok in H. destruct H as [b [_ H]].
  match type of H with (if ?c then _ else _) = _ => destruct c; [discriminate|] end.
  destruct (wordy x) eqn:W; [|simpl in H; discriminate]. apply wordy_nonempty in W.
  match type of H with (if ?c then _ else _) = _ => destruct c; [|discriminate] end.
  unfold item_name. rewrite field_obj, Ln. simpl str_of.
  destruct (add_name_ok _ _ _ H W). auto.
Qed.

Definition dep_names (deps : jv) : list str :=
  map item_name (arr_items (field (s "paths") deps)) ++ map item_name (arr_items (field (s "git") deps)).

Lemma dep_list_ok (f : list str -> jv -> res (list str)) key deps names names' :
  (forall names it names', f names it = Ok names' ->
     names' = names ++ [item_name it] /\ item_name it <> [] /\ ~ In (item_name it) names) ->
  (bp <- contains key deps ;;
   if negb bp then Ok names else lst <- getitem deps key ;; its <- iter lst ;; mfold f its names) = Ok names' ->
  names' = names ++ map item_name (arr_items (field key deps)) /\ (good names -> good names').
Proof.
  intros Hf H. apply bind_ok in H. destruct H as [b [Hc H]].
  apply contains_ok in Hc. destruct Hc as [l [-> ->]]. rewrite field_obj.
  destruct (has_key key l) eqn:HK; simpl negb in H; cbv iota in H.
  - apply bind_ok in H. destruct H as [lst [Hg H]]. apply bind_ok in H. destruct H as [its [Hi H]].
    apply getitem_ok in Hg. destruct Hg as [l' [E L]]. inversion E; subst l'. rewrite L.
    apply iter_ok in Hi. subst lst. simpl arr_items.
    exact (mfold_names f item_name Hf _ _ _ H).
  - inversion H. rewrite (has_key_false_lookup _ _ HK). simpl. rewrite app_nil_r. auto.
Qed.

Lemma add_dependencies_ok env names names' :
  add_dependencies env names = Ok names' ->
  names' = names ++ dep_names (field (s "dependencies") env) /\ (good names -> good names').
Proof.
  unfold add_dependencies. intro H. apply bind_ok in H. destruct H as [b [Hc H]].
  apply contains_ok in Hc. destruct Hc as [l [-> ->]]. rewrite field_obj.
  destruct (has_key (s "dependencies") l) eqn:HK; simpl negb in H; cbv iota in H.
  - apply bind_ok in H. destruct H as [deps [Hg H]].
    apply getitem_ok in Hg. destruct Hg as [l' [E L]]. inversion E; subst l'. rewrite L.
    apply bind_ok in H. destruct H as [bp [Hbp H]].
    apply bind_ok in H. destruct H as [n1 [H1 H]].
    apply bind_ok in H. destruct H as [bg [Hbg H]].
    assert (P1 : n1 = names ++ map item_name (arr_items (field (s "paths") deps)) /\ (good names -> good n1)).
    { apply (dep_list_ok add_path_dep); [exact add_path_dep_ok|]. rewrite Hbp. exact H1. }
    assert (P2 : names' = n1 ++ map item_name (arr_items (field (s "git") deps)) /\ (good n1 -> good names')).
    { apply (dep_list_ok add_git_dep); [exact add_git_dep_ok|]. rewrite Hbg. exact H. }
    destruct P1 as [E1 G1], P2 as [E2 G2]. split.
    + rewrite E2, E1. unfold dep_names. rewrite <- app_assoc. reflexivity.
    + intro G. apply G2, G1, G.
  - inversion H. rewrite (has_key_false_lookup _ _ HK). unfold dep_names. simpl. rewrite app_nil_r. auto.
Qed.

Definition env_names_env (env : jv) : list str :=
  let deps := field (s "dependencies") env in
  keys (obj_items (field (s "variables") env)) ++
  keys (obj_items (field (s "labels") env)) ++
  map (fun it => str_of (field (s "name") it)) (arr_items (field (s "paths") deps)) ++
  map (fun it => str_of (field (s "name") it)) (arr_items (field (s "git") deps)).
Lemma env_names_eq d : env_names d = env_names_env (field (s "env") d).
Proof. reflexivity. Qed.

Lemma get_study_environment_ok env names :
  get_study_environment env = Ok names -> names = env_names_env env /\ good names.
Proof.
  unfold get_study_environment. intro H.
  apply bind_ok in H. destruct H as [n1 [H1 H]]. apply bind_ok in H. destruct H as [u [_ H]].
  apply bind_ok in H. destruct H as [n2 [H2 H]].
  apply add_variables_ok in H1. destruct H1 as [E1 G1].
  apply add_variables_ok in H2. destruct H2 as [E2 G2].
  apply add_dependencies_ok in H. destruct H as [E3 G3]. split.
  - rewrite E3, E2, E1. unfold env_names_env, dep_names, item_name. simpl app. rewrite <- app_assoc. reflexivity.
  - apply G3, G2, G1, good_nil.
Qed.

Lemma default_env_names : env_names_env default_env = [].
Proof. vm_compute. reflexivity. Qed.
Lemma null_env_names : env_names_env JNull = [].
Proof. vm_compute. reflexivity. Qed.

(* -------------------------------------------------------------------- steps *)
Definition step_name (st : jv) : str := str_of (field (s "name") st).
Lemma step_names_eq d : step_names d = map step_name (doc_steps d).
Proof. reflexivity. Qed.

Lemma falsy_arr_items x : truthy x = false -> arr_items x = [].
Proof. destruct x; simpl; try reflexivity. destruct l; [reflexivity | discriminate]. Qed.

Definition dep_bad (name : str) (earlier : list str) (dep : str) : bool :=
  str_eqb (strip_stars dep) name || negb (mem_str (strip_stars dep) earlier).

Lemma add_step_ok nodes st p nodes' :
  step_fn st = Ok p -> add_step nodes p = Ok nodes' ->
  nodes' = nodes ++ [step_name st] /\ ~ In (step_name st) nodes /\
  existsb (dep_bad (step_name st) nodes) (step_depends st) = false.
Proof.
  unfold step_fn. intros Hs H.
  apply bind_ok in Hs. destruct Hs as [n [Hn Hs]]. apply bind_ok in Hs. destruct Hs as [dsc [_ Hs]].
  apply bind_ok in Hs. destruct Hs as [r [Hr Hs]]. apply bind_ok in Hs. destruct Hs as [kvs [Hk Hs]].
  inversion Hs; subst p. clear Hs.
  apply getitem_ok in Hn. destruct Hn as [l [-> Ln]].
  apply getitem_ok in Hr. destruct Hr as [l' [E Lr]]. inversion E; subst l'. clear E.
  apply items_ok in Hk. subst r.
  unfold add_step in H. simpl fst in H. simpl snd in H.
  apply bind_ok in H. destruct H as [name [Hname H]]. apply as_str_ok in Hname. subst n.
  assert (En : step_name (JObj l) = name) by (unfold step_name; rewrite field_obj, Ln; reflexivity).
  rewrite En.
  destruct (mem_str name nodes) eqn:M; [discriminate|]. apply mem_str_false in M.
  assert (Ed : step_depends (JObj l) =
               map str_of (arr_items (match lookup (s "depends") kvs with Some x => x | None => JNull end))).
  { unfold step_depends. rewrite (field_obj (s "run")), Lr. rewrite field_obj. reflexivity. }
  rewrite Ed. unfold getd in H.
  destruct (lookup (s "depends") kvs) as [x|] eqn:Ld.
  - destruct (truthy x) eqn:T; simpl negb in H; cbv iota in H.
    + apply bind_ok in H. destruct H as [ds [Hi H]]. apply iter_ok in Hi. subst x.
      apply bind_ok in H. destruct H as [u [Hm H]]. inversion H. split; [reflexivity|]. split; [exact M|].
      simpl arr_items.
      destruct (existsb _ (map str_of ds)) eqn:Ex; [|reflexivity]. exfalso.
      apply existsb_exists in Ex. destruct Ex as [dep [Hin Hb]].
      apply in_map_iff in Hin. destruct Hin as [y [Ey Hy]].
      pose proof (miter_ok _ _ _ Hm _ Hy) as Hy1. cbv beta in Hy1.
      apply bind_ok in Hy1. destruct Hy1 as [dd [Hd Hy1]]. apply as_str_ok in Hd. subst y.
      simpl in Ey. subst dd. unfold dep_bad in Hb.
      destruct (str_eqb (strip_stars dep) name) eqn:E1; [discriminate|].
      destruct (mem_str (strip_stars dep) (nodes ++ [name])) eqn:E2; [|discriminate].
      rewrite mem_str_app in E2. simpl in Hb.
      assert (E3 : mem_str (strip_stars dep) [name] = false) by (unfold mem_str; simpl; rewrite E1; reflexivity).
      rewrite E3, orb_false_r in E2. rewrite E2 in Hb. discriminate.
    + inversion H. rewrite (falsy_arr_items _ T). simpl. auto.
  - simpl in H. inversion H. simpl. auto.
Qed.

Lemma add_steps_ok : forall sl ps nodes nodes',
  Forall2 (fun st p => step_fn st = Ok p) sl ps -> mfold add_step ps nodes = Ok nodes' ->
  nodes' = nodes ++ map step_name sl /\ (NoDup nodes -> NoDup nodes') /\ bad_deps_from nodes sl = false.
Proof.
  induction sl as [|st sl IH]; intros ps nodes nodes' F H.
  - inversion F; subst. simpl in H. inversion H. rewrite app_nil_r. auto.
  - inversion F as [|? p ? ps' Hst F']; subst. simpl in H.
    apply bind_ok in H. destruct H as [n1 [H1 H2]].
    destruct (add_step_ok _ _ _ _ Hst H1) as [E1 [Hni Hb]]. subst n1.
    destruct (IH _ _ _ F' H2) as [E2 [N2 B2]]. split; [|split].
    + rewrite E2. simpl. rewrite <- app_assoc. reflexivity.
    + intro N. apply N2. apply NoDup_snoc'; assumption.
    + simpl. fold (step_name st). unfold dep_bad in Hb. rewrite Hb. simpl. exact B2.
Qed.

(* --------------------------------------------------------------- parameters *)
Definition plen (kv : str * jv) : nat := List.length (arr_items (field (s "values") (snd kv))).
Lemma param_lengths_eq d :
  param_lengths d = map plen (obj_items (field (s "global.parameters") d)).
Proof. reflexivity. Qed.

Definition param_step (vlen : option nat) (kv : str * jv) : res (option nat) :=
  let value := snd kv in
  validate DSchemaParam PARAM value ;;;
  values <- getitem value (s "values") ;;
  label <- getitem value (s "label") ;;
  n <- pylen values ;;
  match label with
  | JArr ll =>
      if negb (Nat.eqb n (List.length ll)) then Err (Diag DLabelLen)
      else if negb (unique_jv ll) then Err (Diag DLabelDup) else Ok tt
  | _ => Ok tt
  end ;;;
  match vlen with
  | None => Ok (Some n)
  | Some m => if Nat.eqb n m then Ok vlen else Err (Diag DParamLen)
  end.
Lemma verify_parameters_eq kvs : verify_parameters (JObj kvs) = (mfold param_step kvs None ;;; Ok tt).
Proof. reflexivity. Qed.

Lemma param_step_ok vlen kv v' :
  param_step vlen kv = Ok v' ->
  match vlen with
  | None => v' = Some (plen kv)
  | Some m => plen kv = m /\ v' = Some m
  end.
Proof.
  unfold param_step. intro H. apply bind_ok in H. destruct H as [u [V H]]. apply validate_ok in V.
  destruct (param_facts _ V) as [vl [vs [lab [E [Lv Ll]]]]].
  assert (Ep : plen kv = List.length vs) by (unfold plen; rewrite E, field_obj, Lv; reflexivity).
  rewrite E in H. simpl getitem in H. rewrite Lv, Ll in H. simpl bind in H.
  apply bind_ok in H. destruct H as [u2 [_ H]].
  destruct vlen as [m|].
  - destruct (Nat.eqb (List.length vs) m) eqn:Em; [|discriminate].
    apply Nat.eqb_eq in Em. inversion H. rewrite Ep. auto.
  - inversion H. rewrite Ep. reflexivity.
Qed.

Lemma param_fold_ok : forall kvs vlen v',
  mfold param_step kvs vlen = Ok v' ->
  match vlen with
  | Some m => forallb (Nat.eqb m) (map plen kvs) = true
  | None => all_eq_nat (map plen kvs) = true
  end.
Proof.
  induction kvs as [|kv r IH]; intros vlen v' H.
  - destruct vlen; reflexivity.
  - simpl in H. apply bind_ok in H. destruct H as [v1 [H1 H2]].
    apply param_step_ok in H1. destruct vlen as [m|].
    + destruct H1 as [E ->]. specialize (IH _ _ H2). simpl. rewrite E, Nat.eqb_refl. exact IH.
    + subst v1. specialize (IH _ _ H2). simpl. exact IH.
Qed.

(* ------------------------------------------------------------ the document *)
Lemma strs_eqb_refl l : strs_eqb l l = true.
Proof. induction l as [|x r IH]; [reflexivity|]. simpl. rewrite str_eqb_refl. exact IH. Qed.

Lemma valid_study_list steps :
  steps <> [] -> (forall st, In st steps -> valid STUDY_STEP st = true) ->
  valid [KType TArray; KMinItems 1; KItems STUDY_STEP] (JArr steps) = true.
Proof.
  intros Hne H. apply valid_intro. intros k [<-|[<-|[<-|[]]]].
  - reflexivity.
  - simpl. destruct steps; [congruence | reflexivity].
  - rewrite kw_ok_items. apply forallb_forall. exact H.
Qed.
Lemma valid_params_map kvs :
  (forall kv, In kv kvs -> valid PARAM (snd kv) = true) ->
  valid [KType TObject; KPatternAll PARAM] (JObj kvs) = true.
Proof.
  intro H. apply valid_intro. intros k [<-|[<-|[]]].
  - reflexivity.
  - rewrite kw_ok_pattern. apply forallb_forall. exact H.
Qed.

Theorem accept_sound d ns : pipeline d = Ok ns -> malformed d = false /\ ns = step_names d.
Proof.
  unfold pipeline. intro H.
  apply bind_ok in H. destruct H as [sp [Hl H]].
  apply bind_ok in H. destruct H as [u [Hv H]].
  apply bind_ok in H. destruct H as [names [He H]].
  apply bind_ok in H. destruct H as [steps [Hs H]].
  apply bind_ok in H. destruct H as [u2 [_ H]].
  apply bind_ok in H. destruct H as [u3 [_ H]].
  apply bind_ok in H. destruct H as [nodes [Hn H]]. inversion H; subst ns. clear H.
  (* the document is a mapping *)
  unfold load in Hl. destruct d as [| | | | | |l]; try discriminate. inversion Hl; subst sp. clear Hl.
  pose proof (verify_ok_inv _ _ Hv) as [Vd Ve [sl [Es [Hne Vs]]] [kvs [Eg Vg]]].
  simpl sp_desc in *. simpl sp_env in *. simpl sp_study in *. simpl sp_globals in *.
  (* study: the key is present and holds the list *)
  assert (Ls : lookup (s "study") l = Some (JArr sl)).
  { unfold getd in Es. destruct (lookup (s "study") l) as [x|]; [congruence|].
    inversion Es. subst sl. congruence. }
  assert (Eds : doc_steps (JObj l) = sl) by (unfold doc_steps; rewrite field_obj, Ls; reflexivity).
  (* steps *)
  rewrite get_study_steps_eq in Hs. unfold getd in Hs. rewrite Ls in Hs. simpl in Hs. apply mmap_ok in Hs.
  destruct (add_steps_ok _ _ _ _ Hs Hn) as [En [Nn Bn]].
  assert (Nodes : NoDup nodes) by (apply Nn; constructor; [intros [] | constructor]).
  (* environment *)
  apply get_study_environment_ok in He. destruct He as [Een [Gn1 Gn2]].
  assert (Een' : names = env_names (JObj l)).
  { rewrite env_names_eq, field_obj. unfold getd in Een. destruct (lookup (s "env") l) as [x|]; [exact Een|].
    rewrite Een, default_env_names, null_env_names. reflexivity. }
  (* parameters *)
  assert (Epl : param_lengths (JObj l) = map plen kvs).
  { rewrite param_lengths_eq, field_obj. unfold getd in Eg.
    destruct (lookup (s "global.parameters") l) as [x|]; [rewrite Eg; reflexivity|].
    inversion Eg. reflexivity. }
  assert (Hpl : all_eq_nat (map plen kvs) = true).
  { unfold verify in Hv. apply bind_ok in Hv. destruct Hv as [? [_ Hv]].
    apply bind_ok in Hv. destruct Hv as [? [_ Hv]]. apply bind_ok in Hv. destruct Hv as [? [_ Hv]].
    apply bind_ok in Hv. destruct Hv as [? [Hp _]]. simpl sp_globals in Hp. rewrite Eg in Hp.
    rewrite verify_parameters_eq in Hp. apply bind_ok in Hp. destruct Hp as [v' [Hp _]].
    exact (param_fold_ok _ _ _ Hp). }
  split.
  - unfold malformed.
    assert (V : valid DOC (JObj l) = true).
    { apply valid_intro. unfold DOC. intros k [<-|[<-|[<-|[]]]].
      - reflexivity.
      - rewrite kw_ok_props. unfold props_ok. simpl forallb. unfold getd in *.
        rewrite Ls.
        destruct (lookup (s "description") l) as [x|]; [rewrite Vd|]; simpl;
        (destruct (lookup (s "env") l) as [y|]; [rewrite Ve|]); simpl;
        rewrite (valid_study_list _ Hne Vs); simpl;
        (destruct (lookup (s "global.parameters") l) as [z|];
           [rewrite Eg, (valid_params_map _ Vg)|]); reflexivity.
      - rewrite kw_ok_required. simpl forallb. unfold getd in Vd.
        rewrite (lookup_has_key _ _ _ Ls).
        destruct (lookup (s "description") l) as [x|] eqn:Ld.
        + rewrite (lookup_has_key _ _ _ Ld). reflexivity.
        + rewrite empty_desc_invalid in Vd. discriminate. }
    rewrite V. simpl negb. simpl orb.
    assert (D1 : dup_step_names (JObj l) = false).
    { unfold dup_step_names. rewrite step_names_eq, Eds.
      rewrite En in Nodes. simpl in Nodes. apply nodup_str_NoDup in Nodes. rewrite Nodes. reflexivity. }
    assert (D2 : bad_dependency (JObj l) = false) by (unfold bad_dependency; rewrite Eds; exact Bn).
    assert (D3 : param_len_mismatch (JObj l) = false) by (unfold param_len_mismatch; rewrite Epl, Hpl; reflexivity).
    assert (D4 : dup_env_names (JObj l) = false).
    { unfold dup_env_names. rewrite <- Een'. apply nodup_str_NoDup in Gn1. rewrite Gn1. reflexivity. }
    assert (D5 : empty_var_name (JObj l) = false).
    { unfold empty_var_name. apply mem_str_false. intro Hin. apply Gn2.
      rewrite Een', env_names_eq. unfold env_names_env. apply in_or_app. left. exact Hin. }
    rewrite D1, D2, D3, D4, D5. reflexivity.
  - rewrite step_names_eq, Eds, En. reflexivity.
Qed.

(* ------------------------------------------------- the theorems of the property *)
Theorem build_never_internal d : build d <> Reject Internal.
Proof.
  unfold build. pose proof (pipeline_safe d) as H. unfold safe in H.
  destruct (pipeline d) as [ns|c]; [discriminate|]. intro E. inversion E. subst. apply H. reflexivity.
Qed.

Theorem monitor_holds doc : nodupkeys doc = true -> C13_ok doc (verify_and_build doc) = true.
Proof.
  intro N. unfold verify_and_build.
  pose proof (build_never_internal (yaml_load doc)) as NI. unfold build in *.
  destruct (pipeline (yaml_load doc)) as [ns|c] eqn:P.
  - destruct (accept_sound _ _ P) as [M E]. simpl. rewrite N, M, E, strs_eqb_refl. reflexivity.
  - destruct c; [reflexivity | congruence].
Qed.

Theorem malformed_rejected d : malformed d = true -> exists dg, build d = Reject (Diag dg).
Proof.
  intro M. pose proof (build_never_internal d) as NI. unfold build in *.
  destruct (pipeline d) as [ns|c] eqn:P.
  - destruct (accept_sound _ _ P) as [M' _]. congruence.
  - destruct c as [dg|]; [eauto | congruence].
Qed.

Theorem accepted_steps d ns : build d = Accept ns -> ns = step_names d.
Proof.
  unfold build. destruct (pipeline d) as [ns'|c] eqn:P; [|discriminate].
  intro E. inversion E; subst. exact (proj2 (accept_sound _ _ P)).
Qed.

(** the same, on documents as written *)
Theorem written_never_internal doc : verify_and_build doc <> Reject Internal.
Proof. exact (build_never_internal (yaml_load doc)). Qed.
Theorem written_no_drop doc ns : verify_and_build doc = Accept ns -> ns = step_names (yaml_load doc).
Proof. exact (accepted_steps (yaml_load doc) ns). Qed.

"""END-TO-END correspondence helpers: real `maestro run -fg` / `conductor`
sub-processes (through harness/e2e_launcher.py, which only stubs time.sleep)
on generated studies whose steps are all local, observed from the outside:

  * a marker log the steps append to themselves (start / end / cwd / pid / code),
    interleaved with the POLL markers of the launcher's sleep stub,
  * status.csv after every poll (+ the execution-graph snapshot <name>.pkl),
  * the captured <step>.<pid>.out/.err files,
  * the process exit code,

translated into the vocabulary of the Exec model (coq/theories/Exec) and
checked INSIDE Coq: model observations = implementation observations, and the
trace monitor (the theorems' own predicate) silent on the implementation's
observations.  Used by C19 (props/c19.py), C18 (props/c18.py) and by C05 for
the exit-code clause (`exit_code_cases` / `check_exit_codes`).

What is and is not observable here.  The real LocalScriptAdapter cannot be
asked which calls it received, so of the model's adapter-call events only
the submissions (one per executed attempt: ESubmit x Main false res) and the
cancel request (ECancel [], observed as "the .cancel.lock a step created was
consumed") are compared; ECheck / EGen are projected away from the model's
trace (`vis`).  `res` is taken from the REAL exit code of the attempt (Some j
iff the script exited 0) -- the ground truth -- while the status rows are what
Maestro wrote; the monitor's ledger then checks one against the other.

Studies with SCHEDULED steps go through the same command line with the
launcher's scripted scheduler adapter (E2E_SCRIPTED): there every adapter call
is logged, the complete trace is compared (ExecCases.both_ok).

For C05 (exit-code clause):

    from harness import e2e
    items = e2e.exit_code_cases(random.Random(ck.seed * 31 + 5), 18)     # ~28 runs, ~10-20 s
    e2e.check_exit_codes(ck, items)        # reports violations / mismatches to ck, fills ck.cov["e2e_exit_codes"]

Entry points: gen_local_study / gen_scripted_study, evaluate / evaluate_scripted,
exit_code_cases / check_exit_codes, launch, parse_status, read_graph.
"""
import glob
import json
import os
import random
import shutil
import subprocess
import sys
from collections import Counter
from concurrent.futures import ThreadPoolExecutor

from harness import common
from harness import exec_harness as H

PY = "/venv/bin/python" if os.path.exists("/venv/bin/python") else sys.executable
LAUNCHER = os.path.join(os.path.dirname(os.path.abspath(__file__)), "e2e_launcher.py")
POLL_SLEEP = 7919            # distinctive sleeptime: marks the conductor's sleep between polls
STUDY = "e2e"
NAMES = ["alpha", "beta", "gen", "sim", "post-1", "run.x", "s2", "Z9"]
KEYS = ["P", "QQ"]
FAIL_CODES = [1, 2, 3, 7, 126, 127, 128, 129, 137, 143, 255]
# "T" / "K": the step's shell kills itself with SIGTERM / SIGKILL (Popen return code -15 / -9)
SIGNALS = {"T": ("TERM", -15), "K": ("KILL", -9)}


def fail_code(rng):
    """a failing outcome of one attempt: any exit code 1..255 or death by a signal"""
    r = rng.random()
    if r < 0.22:
        return rng.choice(["T", "K"])
    if r < 0.6:
        return rng.choice(FAIL_CODES)
    return rng.randint(1, 255)
STATUS_OF_RC = {0: "FINISHED", 2: "FAILURE", 3: "CANCELLED"}


# ----------------------------------------------------------------------------
# sub-process plumbing
# ----------------------------------------------------------------------------
def base_env(extra=None):
    env = dict(os.environ)
    env["PYTHONPATH"] = common.REPO + ":" + common.VERIF
    env["PYTHONDONTWRITEBYTECODE"] = "1"
    env.setdefault("PYTHONHASHSEED", "0")
    tmp = os.path.join(common.WORK, "tmp")          # --usetmp: mkdtemp of the code under test stays out of /tmp
    os.makedirs(tmp, exist_ok=True)
    env["TMPDIR"] = tmp
    for k in list(env):
        if k.startswith("E2E_"):
            del env[k]
    env.update(extra or {})
    for k in [k for k, v in env.items() if v is None]:      # a value of None = the variable is UNSET for the child
        del env[k]
    return env


def launch(entry, argv, cwd, env=None, stdin_text=None, timeout=150, logfile=None, umask=None):
    """Run the launcher; returns (exit code, combined output tail)."""
    cmd = [PY, LAUNCHER, entry] + [str(a) for a in argv]
    if umask is not None:
        cmd = ["/bin/sh", "-c", "umask %03o; exec \"$@\"" % umask, "sh"] + cmd
    try:
        p = subprocess.run(cmd, cwd=cwd, env=base_env(env), input=stdin_text, text=True, errors="replace",
                           stdout=subprocess.PIPE, stderr=subprocess.STDOUT, timeout=timeout)
        rc, out = p.returncode, p.stdout or ""
    except subprocess.TimeoutExpired as e:
        rc, out = 124, (e.stdout or "") if isinstance(e.stdout, str) else "timeout"
    if logfile:
        with open(logfile, "a") as f:
            f.write("$ %s\n%s\n[rc=%d]\n" % (" ".join(cmd), out, rc))
    return rc, out[-3000:]


def utag(tag):
    """scratch / Coq-cases tag unique to this process: several checks (or two runs of the same
    check) may be running at the same time in the same /verif/_work"""
    return "%s_p%d" % (tag, os.getpid())


def sweep():
    """remove every scratch directory this process created under a utag"""
    for d in glob.glob(os.path.join(common.WORK, "*_p%d*" % os.getpid())):
        shutil.rmtree(d, ignore_errors=True)


def pmap(fn, items, workers=None):
    with ThreadPoolExecutor(max_workers=workers or common.NCPU) as ex:
        return list(ex.map(fn, items))


# ----------------------------------------------------------------------------
# generated local studies
# ----------------------------------------------------------------------------
def gen_local_study(rng, shape=None, scenario=None, cancel=None, nmax=6):
    """A study whose steps are all local (no nodes/procs keys).  Step DAG from
    the shared graph generator (chains, diamonds, funnels, fan-out, ...);
    0-2 parameters x 1-3 rows; ordinary and funnel (`_*`) dependencies; per
    step `variants` x per attempt exit codes."""
    shape, nodes = H.gen_graph(rng, shape, nmax=nmax)
    n = len(nodes)
    names = rng.sample(NAMES, n) if n <= len(NAMES) else ["n%d" % i for i in range(n)]
    nkeys = rng.choice([0, 1, 1, 2])
    nrows = rng.randint(1, 3)
    params = []
    for k in KEYS[:nkeys]:
        kind = rng.choice(["int", "int", "str"])
        pool = [1, 2, 3, 10] if kind == "int" else ["lo", "hi", "x", "v-2"]
        sub = rng.sample(pool, rng.randint(1, 3))
        params.append({"key": k, "values": [rng.choice(sub) for _ in range(nrows)]})
    attempts = rng.choice([1, 1, 2, 2, 3])
    scenario = scenario or rng.choice(["allok", "flaky", "fail", "fail", "mixed", "mixed"])
    steps = []
    for i in range(n):
        deps = []
        for p in nodes[i]["parents"]:
            deps.append(names[p] + ("_*" if (params and rng.random() < 0.35) else ""))
        use = [p["key"] for p in params if rng.random() < 0.45]
        nvar = rng.choice([1, 1, 2, 3]) if params else 1
        variants = []
        for _ in range(nvar):
            if scenario == "allok":
                codes = [0] * attempts
            elif scenario == "flaky":
                k = rng.randint(0, attempts - 1)
                codes = [fail_code(rng) for _ in range(k)] + [0] * (attempts - k)
            elif scenario == "fail":
                r = rng.random()
                if r < 0.3:
                    codes = [fail_code(rng) for _ in range(attempts)]
                elif r < 0.5:
                    k = rng.randint(0, attempts - 1)
                    codes = [fail_code(rng) for _ in range(k)] + [0] * (attempts - k)
                else:
                    codes = [0] * attempts
            else:
                codes = [0 if rng.random() < 0.45 else fail_code(rng) for _ in range(attempts)]
            variants.append(codes)
        steps.append({"name": names[i], "deps": deps, "use": use, "codes": variants,
                      "restart": rng.random() < 0.15, "cancel": False,
                      "shape": sorted(rng.sample(range(len(SNIPPETS)), rng.choice([0, 1, 2, 3]))),
                      "end": rng.choice(ENDINGS),
                      "chatty": rng.choice(["out", "err"]) if rng.random() < 0.06 else None})
    if cancel is None:
        cancel = False
    if cancel == "step" and steps:
        steps[rng.randrange(len(steps))]["cancel"] = True
    return {"shape": shape, "scenario": scenario, "steps": steps, "params": params, "attempts": attempts,
            "throttle": rng.choice([0, 0, 0, 1, 2, 3]), "rlimit": rng.choice([0, 1, 2]),
            "hashws": rng.random() < 0.4, "usetmp": rng.random() < 0.25, "ospell": pick_ospell(rng),
            "env": pick_env(rng), "sequence": rng.choice(SEQUENCES) if rng.random() < 0.2 else None,
            "cancel": cancel or "no"}


# command SHAPES: (script lines, what they print).  Harmless, but full of the shell syntax a
# script writer / substitution pass can trip over.
SNIPPETS = [
    (['V=val; echo "brace ${V} $V"'], "brace val val\n"),
    (['for i in {1..3}; do echo -n $i; done; echo'], "123\n"),
    (['echo "a b" | awk \'{print $2}\''], "b\n"),
    (['(cd /; echo sub); { echo grp; }'], "sub\ngrp\n"),
    (['true && echo and || echo or'], "and\n"),
    (['false || echo or'], "or\n"),
    (['echo x 2>&1 | cat'], "x\n"),
    (["echo 'single \"q\"' \"double 'q'\"   # a trailing comment"], "single \"q\" double 'q'\n"),
    (['echo multi \\', '  line'], "multi line\n"),
    (['(echo bg > /dev/null) &', 'wait $!; echo waited'], "waited\n"),
    (['A=(p q r); echo "${#A[@]} ${A[1]}"'], "3 q\n"),
    (['printf "%s;%s\\n" semi colon; :'], "semi;colon\n"),
    (['set -o pipefail; if [[ "ab" == a* && -n "$BASH_VERSION" ]]; then echo bash-only; fi; set +o pipefail'], "bash-only\n"),
]
ENDINGS = ["exit", "exit", "lastcmd", "false", "lastcmd-comment"]
CHATTY_BYTES = 200000
RUN_TIMEOUT = 75          # hard limit per `maestro run` / `conductor` sub-process of a local study


def step_cmd(st, d, aux=None):
    aux = aux or d
    mark, cnt, out = os.path.join(aux, "marks.log"), os.path.join(aux, "cnt"), os.path.join(d, "out")
    table = " ".join('"%s"' % " ".join(str(c) for c in v) for v in st["codes"])
    uses = "".join(" %s=$(%s)" % (k, k) for k in st["use"])
    end = st.get("end", "exit")
    lines = [
        "k=`pwd | tr '/' '_'`",
        "n=$(( `cat %s/$k 2>/dev/null || echo 0` + 1 ))" % cnt,
        "echo $n > %s/$k" % cnt,
        'echo "S %s $n $$ `pwd`" >> %s' % (st["name"], mark),
        'echo "out %s $n%s"' % (st["name"], uses),
        'echo "err %s $n" >&2' % st["name"],
    ]
    if st.get("chatty") == "out":          # more than a pipe buffer holds: the adapter must keep reading
        lines.append("head -c %d /dev/zero | tr '\\0' x" % CHATTY_BYTES)
    elif st.get("chatty") == "err":
        lines.append("head -c %d /dev/zero | tr '\\0' x 1>&2" % CHATTY_BYTES)
    for k in st.get("shape", []):
        lines += SNIPPETS[k][0]
    lines += [
        "T=(%s)" % table,
        "v=$(( `printf %%s \"$k\" | cksum | cut -d' ' -f1` %% %d ))" % len(st["codes"]),
        "row=(${T[$v]})",
        "c=${row[$((n-1))]:-0}",
    ]
    if st.get("cancel"):
        lines += ["touch %s/.cancel.lock" % out, 'echo "CANCEL %s" >> %s' % (st["name"], mark)]
    lines += ['case "$c" in',
              '  T) echo "E %s $n $$ -15" >> %s; kill -TERM $$; sleep 5;;' % (st["name"], mark),
              '  K) echo "E %s $n $$ -9" >> %s; kill -KILL $$; sleep 5;;' % (st["name"], mark),
              'esac']
    if end == "false":
        # fails through the command `false` (status 1), no exit statement
        lines += ['r=$c; if [ "$c" != 0 ]; then r=1; fi',
                  'echo "E %s $n $$ $r" >> %s' % (st["name"], mark),
                  'if [ "$c" != 0 ]; then false; fi']
    elif end.startswith("lastcmd"):
        # fails because its LAST COMMAND fails, no exit statement
        lines += ['echo "E %s $n $$ $c" >> %s' % (st["name"], mark), '(exit $c)']
        if end == "lastcmd-comment":
            lines += ['# the status of the script is the status of the command above']
    else:
        lines += ['echo "E %s $n $$ $c" >> %s' % (st["name"], mark), "exit $c"]
    return "\n".join(lines) + "\n"


def spec_text(case, d, aux=None):
    import yaml
    spec = {"description": {"name": STUDY, "description": "generated end-to-end study"}}
    study = []
    for st in case["steps"]:
        run = {"cmd": step_cmd(st, d, aux)}
        if st["deps"]:
            run["depends"] = list(st["deps"])
        if st.get("restart"):
            run["restart"] = "echo restart-%s\n" % st["name"]
        study.append({"name": st["name"], "description": "step %s" % st["name"], "run": run})
    spec["study"] = study
    if case["params"]:
        spec["global.parameters"] = {p["key"]: {"values": list(p["values"]), "label": "%s.%%%%" % p["key"]}
                                     for p in case["params"]}
    return yaml.safe_dump(spec, default_flow_style=False, sort_keys=False)


# ----------------------------------------------------------------------------
# running one study and observing it from the outside
# ----------------------------------------------------------------------------
OUT_SPELLINGS = ["abs", "rel", "dot", "slash", "parent", "nested"]


def spell_out(case, d, sub="out"):
    """How the study directory d/out and the specification d/spec.yaml are SPELLED on the command
    line, and the cwd the command is started in (case['ospell']; the directory itself never moves):
      abs     -o <d>/out        cwd d          rel     -o out            cwd d
      dot     -o ./out          cwd d          slash   -o out/           cwd d
      parent  -o ../out         cwd d/cw       (spec ../spec.yaml)
      nested  -o <name of d>/out  cwd parent of d  (spec <name of d>/spec.yaml)
    -> (out argument, spec argument, cwd)"""
    how = case.get("ospell", "abs")
    out = os.path.join(d, sub)
    if how == "rel":
        return sub, "spec.yaml", d
    if how == "dot":
        return "./" + sub, "./spec.yaml", d
    if how == "slash":
        return sub + os.sep, "spec.yaml", d
    if how == "parent":
        cw = os.path.join(d, "cw")
        os.makedirs(cw, exist_ok=True)
        return os.path.join("..", sub), os.path.join("..", "spec.yaml"), cw
    if how == "nested":
        b = os.path.basename(d)
        return os.path.join(b, sub), os.path.join(b, "spec.yaml"), os.path.dirname(d)
    return out, "spec.yaml", d


def pick_ospell(rng):
    return "abs" if rng.random() < 0.35 else rng.choice(OUT_SPELLINGS[1:])


def flag_args(case):
    return (["--hashws"] if case.get("hashws") else []) + (["--usetmp"] if case.get("usetmp") else [])


def flags_text(case):
    return " ".join(flag_args(case) + ["-o:" + case.get("ospell", "abs"), "env:" + case.get("env", "base")] +
                    (["after:" + case["sequence"]] if case.get("sequence") else []))


ENV_PROFILES = {
    # name: (environment of the `maestro`/`conductor` process: None = unset, umask)
    "base": ({}, None),
    "shell-unset": ({"SHELL": None}, None),
    "shell-bash": ({"SHELL": "/bin/bash"}, None),
    "shell-sh": ({"SHELL": "/bin/sh"}, None),
    "shell-false": ({"SHELL": "/bin/false"}, None),
    "home-unset": ({"HOME": None}, None),
    "home-missing": ({"HOME": "/nonexistent/home/of/nobody"}, None),
    "lang-C": ({"LANG": "C", "LC_ALL": "C"}, None),
    "lang-utf8": ({"LANG": "C.UTF-8", "LC_ALL": "C.UTF-8"}, None),
    "umask-077": ({}, 0o077),
    "umask-022": ({}, 0o022),
    "stripped": ({"SHELL": "/bin/false", "HOME": None, "LANG": None, "LC_ALL": "C", "USER": None, "LOGNAME": None}, 0o077),
}
SEQUENCES = ["finish-cancel", "killed", "dry-then-real", "other-spec", "killed-cancel"]


def pick_env(rng):
    return "base" if rng.random() < 0.4 else rng.choice(sorted(ENV_PROFILES))


def store_only_y(common_args, cwd, envx, log, umask, d):
    """`maestro run -y` (re-used directory is emptied, the study stored) with a stub `conductor` on
    PATH, so that the real conductor entry point can be started separately afterwards"""
    bind = os.path.join(d, "bin")
    os.makedirs(bind, exist_ok=True)
    with open(os.path.join(bind, "conductor"), "w") as f:
        f.write("#!/bin/sh\nexit 0\n")
    os.chmod(os.path.join(bind, "conductor"), 0o755)
    return launch("maestro", ["run", "-y"] + common_args, cwd,
                  dict(envx, PATH=bind + os.pathsep + os.environ.get("PATH", "")), logfile=log, umask=umask)


def run_prelude(case, d, oarg, cwd, envx, umask, log):
    """Earlier commands on the SAME output directory (case['sequence']); whatever they leave behind
    (snapshots, hand-off files, status.csv, lock files, logs, workspaces, scripts) must not influence
    the run under observation, which re-uses the directory with `-y`."""
    seq = case["sequence"]
    pre = os.path.join(d, "pre")
    os.makedirs(os.path.join(pre, "cnt"))
    c0 = json.loads(json.dumps(case))
    if seq == "other-spec":          # the earlier study had MORE steps
        last = c0["steps"][-1]["name"]
        for k in (1, 2):
            c0["steps"].append({"name": "zz-extra%d" % k, "deps": [last] if k == 1 else [], "use": [], "codes": [[0] * case["attempts"]],
                                "restart": False, "cancel": False, "shape": [], "end": "exit"})
    for st in c0["steps"]:
        st["cancel"] = False
    with open(os.path.join(pre, "spec.yaml"), "w") as f:
        f.write(spec_text(c0, d, aux=pre))
    spec0 = os.path.join(pre, "spec.yaml")
    env = dict(envx, **{"E2E_MARK_LOG": os.path.join(pre, "marks.log"), "E2E_POLL_SLEEP": str(POLL_SLEEP),
                        "E2E_STUDY_DIR": os.path.join(d, "out"), "E2E_SNAP_DIR": os.path.join(pre, "snap"),
                        "E2E_MAX_POLLS": "1" if seq.startswith("killed") else "80"})
    args = ["run"] + (["--dry"] if seq == "dry-then-real" else []) + \
           ["-fg", "-y", "-s", POLL_SLEEP, "--attempts", case["attempts"], "--rlimit", case["rlimit"],
            "--throttle", case["throttle"]] + flag_args(case) + ["-o", oarg, spec0]
    out = [["maestro " + " ".join(str(a) for a in args[:4]), launch("maestro", args, cwd, env, logfile=log, timeout=RUN_TIMEOUT, umask=umask)[0]]]
    if seq in ("finish-cancel", "killed-cancel"):
        out.append(["maestro status", launch("maestro", ["status", "--disable-pager", oarg], cwd, envx, logfile=log)[0]])
        out.append(["maestro cancel", launch("maestro", ["cancel", oarg], cwd, envx, stdin_text="y\n", logfile=log)[0]])
        out.append(["lock left behind", os.path.exists(os.path.join(d, "out", ".cancel.lock"))])
    return out


def run_study_case(job):
    """job = (case, dir, mode); mode 'fg' = `maestro run -fg -y`, 'conductor' =
    `maestro run -n` (store only) then the `conductor` entry point on the
    stored study, 'precancel' = like conductor with `maestro cancel` in between."""
    case, d, mode = job
    shutil.rmtree(d, ignore_errors=True)
    os.makedirs(os.path.join(d, "cnt"))
    with open(os.path.join(d, "spec.yaml"), "w") as f:
        f.write(spec_text(case, d))
    out = os.path.join(d, "out")
    env = {"E2E_MARK_LOG": os.path.join(d, "marks.log"), "E2E_POLL_SLEEP": str(POLL_SLEEP),
           "E2E_STUDY_DIR": out, "E2E_SNAP_DIR": os.path.join(d, "snap"), "E2E_MAX_POLLS": str(case.get("max_polls", 80))}
    log = os.path.join(d, "run.log")
    oarg, sarg, cwd = spell_out(case, d)
    common_args = ["-s", POLL_SLEEP, "--attempts", case["attempts"], "--rlimit", case["rlimit"],
                   "--throttle", case["throttle"]] + flag_args(case) + ["-o", oarg, sarg]
    res = {"mode": mode, "pre": []}
    envx, umask = ENV_PROFILES.get(case.get("env", "base"), ({}, None))
    env = dict(env, **envx)
    if case.get("sequence"):
        try:
            res["prelude"] = run_prelude(case, d, oarg, cwd, envx, umask, log)
        except Exception as e:
            res["prelude"] = [["prelude failed", repr(e)]]
    if mode == "fg":
        rc, tail = launch("maestro", ["run", "-fg", "-y"] + common_args, cwd, env, logfile=log, timeout=RUN_TIMEOUT, umask=umask)
    else:
        # (-n answers the overwrite prompt too: a re-used directory is emptied through -y only)
        rc0, tail0 = launch("maestro", ["run", "-n"] + common_args, cwd, envx, logfile=log, umask=umask) \
            if not case.get("sequence") else store_only_y(common_args, cwd, envx, log, umask, d)
        res["pre"].append(["maestro run -n", rc0])
        if mode == "precancel":
            rc1, tail1 = launch("maestro", ["cancel", oarg], cwd, {}, stdin_text="y\n", logfile=log)
            res["pre"].append(["maestro cancel", rc1])
            res["lock_after_cancel"] = os.path.exists(os.path.join(out, ".cancel.lock"))
        if rc0 != 0:
            rc, tail = rc0, tail0
        else:
            # the detached conductor inherits the cwd of `maestro run` and gets the directory as spelled there
            rc, tail = launch("conductor", ["-t", POLL_SLEEP, oarg], cwd, env, logfile=log, timeout=RUN_TIMEOUT, umask=umask)
    res["rc"] = rc
    res["tail"] = tail[-1500:]
    return res


def parse_marks(path):
    """-> list of polls, each a list of entries (dicts), in file order."""
    polls, cur = [], []
    try:
        lines = open(path).read().split("\n")
    except OSError:
        lines = []
    for ln in lines:
        if not ln:
            continue
        f = ln.split(" ")
        if f[0] == "POLL":
            polls.append(cur)
            cur = []
        elif f[0] == "S" and len(f) >= 5:
            cur.append({"t": "S", "step": f[1], "n": int(f[2]), "pid": int(f[3]), "cwd": " ".join(f[4:])})
        elif f[0] == "E" and len(f) == 5:
            cur.append({"t": "E", "step": f[1], "n": int(f[2]), "pid": int(f[3]), "code": int(f[4])})
        elif f[0] == "CANCEL":
            cur.append({"t": "C", "step": f[1]})
        elif f[0] == "SLEEP":
            cur.append({"t": "Z", "secs": f[1]})
        else:
            cur.append({"t": "?", "line": ln})
    polls.append(cur)
    return polls


def parse_status(path):
    """status.csv -> {step name: (state, job id text, restarts)} in file order (a list of tuples)."""
    rows = []
    with open(path) as f:
        lines = f.read().split("\n")
    head = lines[0].split(",")
    ix = {h: i for i, h in enumerate(head)}
    for ln in lines[1:]:
        if not ln:
            continue
        c = ln.split(",", len(head) - 1)
        rows.append((c[ix["Step Name"]], c[ix["State"]], c[ix["Job ID"]], c[ix["Number Restarts"]],
                     c[ix["Workspace"]], c[ix["Params"]] if len(c) > ix["Params"] else ""))
    return rows


def read_graph(pkl):
    """The staged graph as the conductor's own snapshot describes it: instance
    names in `values` order, parents, workspace, restart attributes, params."""
    from maestrowf.datastructures.core.executiongraph import ExecutionGraph
    dag = ExecutionGraph.unpickle(pkl)
    names = [k for k in dag.values.keys() if k != "_source"]
    pos = {k: i for i, k in enumerate(names)}
    parents = {k: [] for k in names}
    for p, kids in dag.adjacency_table.items():
        for c in kids:
            if p != "_source":
                parents[c].append(pos[p])
    inst = []
    for k in names:
        r = dag.values[k]
        inst.append({"name": k, "step_name": str(r.step.name), "parents": sorted(parents[k]),
                     "ws": os.path.realpath(r.workspace.value),
                     "has_restart": bool(r.step.run.get("restart")), "rlimit": int(r.restart_limit),
                     "params": {str(a): str(b) for a, b in r.params.items()},
                     "state": r.status.name, "jobs": [str(j) for j in r.jobid], "restarts": int(r.restarts)})
    for i, nd in enumerate(inst):
        nd["children"] = [j for j in range(len(inst)) if i in inst[j]["parents"]]
    cfg = {"throttle": int(dag._submission_throttle), "attempts": int(dag._submission_attempts),
           "dry": bool(dag.dry_run)}
    return inst, cfg


def observe(case, d, res):
    """Everything the harness can see of one finished run, canonicalised.
    Returns an observation dict; obs['problem'] is set when the run cannot be
    expressed in the model's vocabulary at all."""
    out = os.path.join(d, "out")
    o = {"rc": res["rc"], "mode": res["mode"], "pre": res.get("pre", [])}
    pk = os.path.join(out, STUDY + ".pkl")
    try:
        inst, cfg = read_graph(pk)
    except Exception as e:
        o["problem"] = "no loadable execution-graph snapshot: %s: %s" % (type(e).__name__, str(e)[:200])
        o["tail"] = res.get("tail", "")
        return o
    o["inst"], o["cfg"] = inst, cfg
    polls = parse_marks(os.path.join(d, "marks.log"))
    o["marks"] = polls
    stat = []
    try:
        for k in range(len(polls) - 1):
            stat.append(parse_status(os.path.join(d, "snap", "status.%d.csv" % k)))
        stat.append(parse_status(os.path.join(out, "status.csv")))
    except Exception as e:
        o["problem"] = "status.csv of some poll unreadable: %s: %s" % (type(e).__name__, str(e)[:200])
        return o
    o["status"] = stat
    o["lock_left"] = os.path.exists(os.path.join(out, ".cancel.lock"))
    try:
        o["top"] = sorted(x for x in os.listdir(out) if os.path.isdir(os.path.join(out, x)))
    except OSError:
        o["top"] = []
    o["prelude"] = res.get("prelude")
    # captured output files per attempt pid
    files = {}
    for nd in inst:
        for p in glob.glob(os.path.join(nd["ws"], "*.out")) + glob.glob(os.path.join(nd["ws"], "*.err")):
            try:
                files[p] = open(p).read()
            except OSError:
                files[p] = None
    o["files"] = files
    return o


# ----------------------------------------------------------------------------
# translation into the Exec model's vocabulary + python-side clauses
# ----------------------------------------------------------------------------
def translate(case, o):
    """-> (ecase dict for H.g_case or None, clause violations [str], problems [str])."""
    viol, prob = [], []
    if "problem" in o:
        if o.get("rc") == 124:
            return None, ["the study did not terminate (HANG: sub-process killed after %d s; flags:%s)%s"
                          % (RUN_TIMEOUT, " " + flags_text(case),
                             "; it has a step writing %d bytes to one of its streams" % CHATTY_BYTES
                             if any(s_.get("chatty") for s_ in case["steps"]) else "")], []
        if o.get("rc") not in STATUS_OF_RC:
            # the command line itself failed on a legal study: no verdict, nothing to translate
            return None, ["`maestro run`/`conductor` exited %r (no study verdict) on a legal study (flags:%s); output tail: %s"
                          % (o.get("rc"), " " + flags_text(case), o.get("tail", "")[-700:])], []
        return None, viol, [o["problem"]]
    inst = o["inst"]
    n = len(inst)
    ws_ix = {nd["ws"]: i for i, nd in enumerate(inst)}
    name_ix = {nd["name"]: i for i, nd in enumerate(inst)}
    by_step = {st["name"]: st for st in case["steps"]}
    attempts = case["attempts"]
    nodes = [{"parents": nd["parents"], "children": nd["children"], "scheduled": False,
              "has_restart": nd["has_restart"], "rlimit": nd["rlimit"]} for nd in inst]
    if o["cfg"]["attempts"] != attempts or o["cfg"]["throttle"] != case["throttle"] or o["cfg"]["dry"]:
        prob.append("configuration in the snapshot %r differs from the command line" % (o["cfg"],))
    pid_job, next_job = {}, 0
    ok_end = {}            # instance -> True once an attempt exited 0
    att = Counter()        # instance -> attempts seen
    polls = []
    cancel_pending = False
    nlast = len(o["marks"]) - 1
    for k, entries in enumerate(o["marks"]):
        ev, subs = [], []
        cancel_now = cancel_pending
        if k == 0 and o["mode"] == "precancel":
            cancel_now = True
        cancel_pending = False
        if cancel_now and not o["lock_left"]:
            ev.append(["cancel", []])
        i = 0
        while i < len(entries):
            e = entries[i]
            if e["t"] in ("Z",):
                i += 1
                continue
            if e["t"] == "C":
                cancel_pending = True
                i += 1
                continue
            if e["t"] != "S":
                viol.append("poll %d: marker %r without a preceding start marker" % (k, e))
                i += 1
                continue
            # the end marker of this attempt must come before any other start
            j = i + 1
            while j < len(entries) and entries[j]["t"] in ("Z", "C"):
                if entries[j]["t"] == "C":
                    cancel_pending = True
                j += 1
            x = ws_ix.get(os.path.realpath(e["cwd"]))
            if x is None:
                viol.append("step %s attempt %d ran with cwd %s which is no instance's workspace" % (e["step"], e["n"], e["cwd"]))
                x = next((name_ix[nm] for nm in name_ix if nm == e["step"] or nm.startswith(e["step"] + "_")), 0)
            else:
                nm = inst[x]["name"]
                if not (nm == e["step"] or nm.startswith(e["step"] + "_")):
                    viol.append("step %s ran in the workspace of instance %s" % (e["step"], nm))
            if j >= len(entries) or entries[j]["t"] != "E" or entries[j]["pid"] != e["pid"] or entries[j]["step"] != e["step"]:
                viol.append("poll %d: start of %s attempt %d (pid %d) is not followed by its own end marker "
                            "before the next start (not run to completion / overlapping execution)" % (k, e["step"], e["n"], e["pid"]))
                code = None
                i += 1
            else:
                code = entries[j]["code"]
                i = j + 1
            att[x] += 1
            if e["n"] != att[x]:
                viol.append("instance %s: attempt counter %d but this is execution number %d in that workspace"
                            % (inst[x]["name"], e["n"], att[x]))
            if att[x] > attempts:
                viol.append("instance %s executed %d times with --attempts %d" % (inst[x]["name"], att[x], attempts))
            if ok_end.get(x):
                viol.append("instance %s executed again after an attempt that exited 0" % inst[x]["name"])
            for p in inst[x]["parents"]:
                if not ok_end.get(p):
                    viol.append("instance %s started before its parent %s had completed successfully"
                                % (inst[x]["name"], inst[p]["name"]))
            ok = code == 0
            subs.append(ok)
            if ok:
                ok_end[x] = True
                pid_job[e["pid"]] = next_job
                ev.append(["submit", x, "Main", False, next_job])
                next_job += 1
            else:
                ev.append(["submit", x, "Main", False, None])
            # captured output
            st = by_step.get(e["step"])
            exp_out = "out %s %d%s\n" % (e["step"], e["n"], "".join(
                " %s=%s" % (kk, inst[x]["params"].get(kk, "<missing>")) for kk in (st["use"] if st else [])))
            exp_err = "err %s %d\n" % (e["step"], e["n"])
            if st and st.get("chatty") == "out":
                exp_out += "x" * CHATTY_BYTES
            elif st and st.get("chatty") == "err":
                exp_err += "x" * CHATTY_BYTES
            exp_out += "".join(SNIPPETS[k][1] for k in (st.get("shape", []) if st else []))
            for ext, exp in ((".out", exp_out), (".err", exp_err)):
                got = [p for p in o["files"] if os.path.dirname(p) == inst[x]["ws"] and p.endswith(".%d%s" % (e["pid"], ext))]
                if len(got) != 1:
                    viol.append("instance %s attempt %d: expected one *.%d%s file in its workspace, found %d"
                                % (inst[x]["name"], e["n"], e["pid"], ext, len(got)))
                elif o["files"][got[0]] != exp:
                    gotx = o["files"][got[0]] or ""
                    viol.append("instance %s attempt %d: captured %s holds %d bytes %r..., the step wrote %d bytes %r..."
                                % (inst[x]["name"], e["n"], ext, len(gotx), gotx[:80], len(exp), exp[:80]))
        # rows of this poll in instance order
        rows = [None] * n
        for (nm, state, job, restarts, _ws, _pa) in o["status"][k]:
            if nm not in name_ix:
                if case.get("sequence"):
                    viol.append("status.csv reports a step %s that is not part of this study (left over from the earlier "
                                "command on the same directory: %s)" % (nm, case["sequence"]))
                else:
                    prob.append("status.csv names an unknown step %s" % nm)
                continue
            if job in ("--", ""):
                jl = []
            elif job.isdigit() and int(job) in pid_job:
                jl = [pid_job[int(job)]]
            else:
                jl = [1000 + len(pid_job)]        # the pid of an attempt that did not exit 0 (or no attempt at all)
            try:
                rows[name_ix[nm]] = [state, jl, int(restarts)]
            except ValueError:
                prob.append("status.csv restart count %r" % restarts)
        if any(r is None for r in rows):
            prob.append("status.csv of poll %d lacks rows for %s" % (k, [inst[i]["name"] for i, r in enumerate(rows) if r is None]))
            rows = [r or ["INITIALIZED", [], 0] for r in rows]
        if k < nlast:
            status = "RUNNING"
        else:
            status = STATUS_OF_RC.get(o["rc"])
        polls.append({"cancel": cancel_now, "q": "NOJOBS", "reports": [], "subs": subs, "events": ev,
                      "rows": rows, "status": status})
    # ---- verdict clauses on the implementation's own observables ---------------
    final = polls[-1]["rows"]
    for x, nd in enumerate(inst):
        st = final[x][0]
        if ok_end.get(x) and st != "FINISHED":
            viol.append("instance %s exited 0 but its final state is %s" % (nd["name"], st))
        if st == "FINISHED" and not ok_end.get(x):
            viol.append("instance %s is FINISHED although no attempt of it exited 0" % nd["name"])
        if att[x] and not ok_end.get(x):
            if att[x] < attempts and not any(p["cancel"] for p in polls):
                viol.append("instance %s gave up after %d of %d attempts" % (nd["name"], att[x], attempts))
            if st != "FAILED":
                viol.append("instance %s failed every attempt but its final state is %s" % (nd["name"], st))
            for y in descendants(inst, x):
                if final[y][0] != "FAILED":
                    viol.append("instance %s depends on the failed %s but is %s" % (inst[y]["name"], nd["name"], final[y][0]))
    if o["rc"] in (99, 124):
        started = [e["step"] for p in o["marks"] for e in p if e["t"] == "S"]
        viol.append("the study did not terminate (%s; %d instances; flags:%s); last step started: %s%s"
                    % ("HANG: sub-process killed after %d s" % RUN_TIMEOUT if o["rc"] == 124 else "poll budget of %d exhausted" % len(o["marks"]),
                       len(inst), " " + flags_text(case), started[-1] if started else "none",
                       " (a step writing %d bytes to one of its streams)" % CHATTY_BYTES
                       if any(s_.get("chatty") for s_ in case["steps"]) else ""))
        return None, viol, prob
    if o["rc"] not in STATUS_OF_RC:
        viol.append("process exit code %r is not a study verdict (0 FINISHED / 2 FAILURE / 3 CANCELLED); output tail: %s"
                    % (o["rc"], o.get("tail", "")[-600:]))
        return None, viol, prob
    states = [r[0] for r in final]
    cancelled = any(p["cancel"] for p in polls)
    if not cancelled and (o["rc"] == 3 or "CANCELLED" in states):
        viol.append("the study cancelled itself (exit %d, states %s) although no cancel request was made during this run%s"
                    % (o["rc"], dict(Counter(states)),
                       "; earlier commands on the same directory: %r" % (o.get("prelude"),) if case.get("sequence") else ""))
    if case.get("sequence"):
        known = {st["name"] for st in case["steps"]} | {"logs", "meta"}
        stale = [x for x in o.get("top", []) if x not in known]
        if stale:
            viol.append("directories %r of the earlier command (%s) are still in the study directory after `maestro run -y`"
                        % (stale, case["sequence"]))
    if not cancelled:
        want = 0 if all(s == "FINISHED" for s in states) else 2 if all(s in ("FINISHED", "FAILED") for s in states) else None
        if want is not None and o["rc"] != want:
            viol.append("process exit code %d but the final states %s mean %d" % (o["rc"], dict(Counter(states)), want))
    elif not o["lock_left"] and o["rc"] != 3:
        viol.append("a cancel request was consumed but the process exit code is %d, not 3" % o["rc"])
    for p in o.get("pre", []):
        if p[1] != 0:
            prob.append("%s exited %d" % (p[0], p[1]))
    ecase = {"nodes": nodes, "cfg": {"throttle": case["throttle"], "attempts": attempts, "dry": False},
             "polls": polls, "end": "final"}
    if not all(r[0] in H.STATES for p in polls for r in p["rows"]):
        prob.append("a status row carries an unknown state")
        return None, viol, prob
    return ecase, viol, prob


def descendants(inst, x):
    seen, todo = [], list(inst[x]["children"])
    while todo:
        y = todo.pop()
        if y not in seen:
            seen.append(y)
            todo.extend(inst[y]["children"])
    return seen


HEADER = H.HEADER + """
Definition e2e_vis_ev (e : event) : bool := match e with ESubmit _ _ _ _ | ECancel _ => true | _ => false end.
Definition e2e_vis (o : obs) : obs := let '(es, rows, s) := o in (filter e2e_vis_ev es, rows, s).
(* model observations (adapter calls the outside cannot see projected away) = implementation observations *)
Definition e2e_corr (e : ecase) : bool := list_eqb obs_eqb (map e2e_vis (model_obs e)) (e_obs e).
(* codes that need the ECheck events (not observable with the real local adapter) *)
Definition e2e_blind : list nat := [31; 40; 205; 207].
Definition e2e_mon (e : ecase) : bool := forallb (fun k => mem k e2e_blind) (impl_viol e).
Definition e2e_ok (e : ecase) : bool :=
  wf_graph (e_g e) && e2e_corr e && impl_ok 19 e && impl_ok 1 e && impl_ok 5 e && e2e_mon e.
"""


def evaluate(ck, tag, items, keep_dirs=False):
    """items: list of dicts {case, dir, mode}.  Runs them (in parallel
    sub-processes), observes, translates, evaluates inside Coq and reports to
    `ck`.  Returns per-item summaries (for coverage)."""
    results = pmap(run_study_case, [(it["case"], it["dir"], it["mode"]) for it in items])
    lits, lit_ix, summaries = [], [], []
    coq_tag, tag = tag, tag.split("_p")[0]
    for it, res in zip(items, results):
        case = it["case"]
        rec = {"case": case, "mode": it["mode"]}
        try:
            o = observe(case, it["dir"], res)
            ecase, viol, prob = translate(case, o)
        except Exception as e:          # a mutated tree may leave anything behind
            o, ecase, viol, prob = {"rc": res.get("rc")}, None, [], ["harness could not interpret the run: %r" % (e,)]
        rec.update({"rc": res["rc"], "violations": viol, "problems": prob,
                    "polls": len(ecase["polls"]) if ecase else 0,
                    "instances": len(o.get("inst", [])),
                    "attempts_run": sum(1 for p in (ecase["polls"] if ecase else []) for e in p["events"] if e[0] == "submit"),
                    "final": ecase["polls"][-1]["status"] if ecase else None})
        rec["impl"] = None if ecase is None else {
            "graph": [{"name": nd["name"], "parents": nd["parents"]} for nd in o["inst"]],
            "polls": [{"cancel": p["cancel"], "subs": p["subs"], "events": p["events"], "rows": p["rows"],
                       "status": p["status"]} for p in ecase["polls"]]}
        for v in viol[:1]:
            ck.violation("%s [%s]: %s" % (tag, it["mode"], v), slim(rec))
        if not viol:
            for p in prob[:1]:
                ck.mismatch("%s [%s]: %s" % (tag, it["mode"], p), slim(rec), res.get("tail", ""))
        if ecase is not None and not prob:
            lit_ix.append(len(summaries))
            lits.append(H.g_case(ecase))
        summaries.append(rec)
        if not keep_dirs:
            shutil.rmtree(it["dir"], ignore_errors=True)
    bad, errs = common.coq_failing(coq_tag, HEADER, "ecase", "e2e_ok", lits)
    for e in errs:
        ck.mismatch("coqc failed on the %s cases file" % tag, None, e[1])
    if bad:
        sub = [lits[i] for i in bad]
        b_mon, _ = common.coq_failing(coq_tag + "_m", HEADER, "ecase",
                                      "(fun e => impl_ok 19 e && impl_ok 1 e && impl_ok 5 e && e2e_mon e)", sub)
        for k, i in enumerate(bad):
            rec = summaries[lit_ix[i]]
            if rec["violations"]:
                continue                     # already reported as a violation
            if k in b_mon:
                codes = common.coq_eval(coq_tag + "_e", HEADER, "impl_viol (%s)" % lits[i])
                ck.violation("%s [%s]: trace monitor codes on the implementation's observations: %s"
                             % (tag, rec["mode"], " ".join(codes.split())[-200:]), slim(rec))
            else:
                mo = common.coq_eval(coq_tag + "_e", HEADER, "map e2e_vis (model_obs (%s))" % lits[i])
                ck.mismatch("%s [%s]: model and implementation observations differ" % (tag, rec["mode"]),
                            slim(rec), mo[-3000:])
    return summaries


def slim(rec):
    return {k: rec[k] for k in ("case", "mode", "rc", "violations", "problems", "impl") if k in rec}


def distribution(summaries):
    dist = Counter()
    for r in summaries:
        c = r["case"]
        dist["mode:" + r["mode"]] += 1
        dist["kind:" + c.get("kind", "local")] += 1
        dist["shape:" + c["shape"]] += 1
        dist["scenario:" + c["scenario"]] += 1
        dist["attempts:%d" % c["attempts"]] += 1
        dist["throttle:%d" % c["throttle"]] += 1
        dist["flags:%s" % (" ".join(flag_args(c)) or "none")] += 1
        dist["out_spelled:" + c.get("ospell", "abs")] += 1
        dist["env:" + c.get("env", "base")] += 1
        dist["sequence:" + (c.get("sequence") or "none")] += 1
        for st_ in c["steps"]:
            if "end" in st_:
                dist["end:" + st_["end"]] += 1
                dist["shape_snippets"] += len(st_.get("shape", []))
        dist["params:%d" % len(c["params"])] += 1
        dist["rows:%d" % (len(c["params"][0]["values"]) if c["params"] else 0)] += 1
        dist["instances:%02d" % min(r["instances"], 20)] += 1
        dist["polls:%02d" % min(r["polls"], 12)] += 1
        dist["exit:%s" % r["rc"]] += 1
        dist["funnel_deps"] += sum(1 for s in c["steps"] for dd in s["deps"] if dd.endswith("_*"))
        dist["attempts_run_total"] += r["attempts_run"]
        dist["cancel:" + c.get("cancel", "no")] += 1
    return dict(sorted(dist.items()))


def case_key(case, mode=""):
    return json.dumps([case["steps"], case["params"], case["attempts"], case["throttle"], flag_args(case), case.get("ospell", "abs"), case.get("env"), case.get("sequence"), mode], sort_keys=True)


# ----------------------------------------------------------------------------
# C05: the exit-code clause
# ----------------------------------------------------------------------------
def gen_abort_study(rng, how):
    """A study that goes down on an error in the middle: a job is in flight when the status query
    returns ERROR (how='qerror') or an adapter call raises (how='submit'/'check_jobs'/'write_script')."""
    case = gen_scripted_study(rng, shape=rng.choice(["chain", "diamond", "fanout", "layered"]))
    case["params"], case["hashws"] = [], False
    for st in case["steps"]:
        st.pop("use", None)
        st["scheduled"] = True
        st.pop("code", None)
        st["submit"] = [True] * 6
        st["reports"] = ["RUNNING"] * rng.randint(1, 2) + ["FINISHED"]
    k = rng.randint(1, 2)
    if how == "qerror":
        case["qcodes"] = ["OK"] * k + ["ERROR"]
    else:
        case["qcodes"] = ["OK"]
        case["faults"] = [{"call": how, "n": k if how != "write_script" else rng.randint(1, max(1, len(case["steps"]) - 1)),
                           "exc": rng.choice(["OSError", "ValueError", "RuntimeError"])}]
    case["expect_abort"] = how
    case["scenario"] = "abort-" + how
    case["throttle"] = 0
    return case


def exit_code_cases(rng, n):
    """n study slots; each all-local study is run through `maestro run -fg` AND
    through the `conductor` entry point on the stored study (all succeed /
    some fail / flaky / a step creates the cancel lock / `maestro cancel`
    before the conductor starts); every third slot is a study with SCHEDULED
    steps run with the launcher's scripted scheduler (FINISHED / FAILED /
    TIMEDOUT+restart / CANCELLED reports, cancel lock while jobs run, query
    faults).  -> list of {"case", "mode"} items for `check_exit_codes`."""
    items = []
    for k, how in enumerate(["qerror", "submit", "check_jobs", "write_script"][:max(2, n // 4)]):
        # the study goes down on an error mid-way: the exit code must not claim a verdict
        items.append({"case": gen_abort_study(rng, how), "mode": "fg"})
    items.append({"case": gen_abort_study(rng, "qerror"), "mode": "conductor"})
    items.append({"case": gen_abort_study(rng, "submit"), "mode": "conductor"})
    for k in range(4):
        # --usetmp and the temporary script directory disappears while jobs are in flight: the exit code
        # must remain the truthful 0 / 2 / 3
        case = gen_scripted_study(rng, shape=rng.choice(["chain", "diamond", "fanout"]), cancel=(k == 3))
        case["usetmp"], case["reap_tmp"], case["scenario"] = True, True, "tmp-reaped"
        if k == 2:
            sch = [s_ for s_ in case["steps"] if s_["scheduled"]]
            if sch:
                sch[-1]["reports"] = ["RUNNING", "FAILED"]
        items.append({"case": case, "mode": "fg" if k % 2 == 0 else "conductor"})
    for i in range(n):
        if i % 3 == 2:
            case = gen_scripted_study(rng, cancel=(i % 4 == 1), qfault=(i % 5 == 0))
            items.append({"case": case, "mode": "fg" if (i // 3) % 2 == 0 else "conductor"})
            continue
        r = i % 8
        if r == 6:
            case = gen_local_study(rng, cancel="step", scenario=rng.choice(["allok", "flaky"]),
                                   shape=rng.choice(["chain", "diamond", "layered", "funnel"]))
            case["throttle"] = rng.choice([0, 1, 1, 2])
            items.append({"case": case, "mode": rng.choice(["fg", "conductor"])})
        elif r == 7:
            case = gen_local_study(rng, scenario="allok")
            case["cancel"] = "before"
            items.append({"case": case, "mode": "precancel"})
        else:
            case = gen_local_study(rng, scenario=["allok", "fail", "mixed", "allok", "fail", "flaky"][r])
            items.append({"case": case, "mode": "fg"})
            items.append({"case": case, "mode": "conductor"})
    return items


def check_exit_codes(ck, items, tag=None):
    """Runs the items; reports to ck.  VIOLATION: the process exit code is not
    the StudyStatus value (0 FINISHED / 2 FAILURE / 3 CANCELLED) of the verdict
    that the run's own status rows / the trace monitor (family 5 and the rest)
    give; mismatch: the Exec model's trace or verdict differs.  Returns the
    per-item summaries; puts a histogram under ck.cov['e2e_exit_codes']."""
    tag = tag or utag("C05_e2e")
    work = os.path.join(common.WORK, tag + "_runs")
    shutil.rmtree(work, ignore_errors=True)
    for i, it in enumerate(items):
        it["dir"] = os.path.join(work, "c%d" % i)
    loc = [it for it in items if it["case"].get("kind") != "scripted"]
    scr = [it for it in items if it["case"].get("kind") == "scripted"]
    summ = evaluate(ck, tag, loc) if loc else []
    summ += evaluate_scripted(ck, tag + "_sched", scr, pidnum=5) if scr else []
    shutil.rmtree(work, ignore_errors=True)
    sweep()
    ck.cov["e2e_exit_codes"] = distribution(summ)
    for r in summ:
        ck.count("e2e:" + case_key(r["case"], r["mode"]), nontrivial=r["attempts_run"] > 0 or r["mode"] == "precancel")
    return summ


# ----------------------------------------------------------------------------
# end-to-end studies with SCHEDULED steps: the launcher registers the scripted
# scheduler adapter (E2E_SCRIPTED) -- every adapter call is then observable, so
# the complete Exec-model trace is compared (ExecCases.both_ok), through the
# real command line, with the process exit code as the final status.
# ----------------------------------------------------------------------------
NONTERM = ["PENDING", "RUNNING", "RUNNING", None, "QUEUED", "WAITING"]


def gen_scripted_study(rng, shape=None, cancel=False, qfault=False):
    shape, nodes = H.gen_graph(rng, shape, nmax=5)
    n = len(nodes)
    names = rng.sample(NAMES, n)
    rlimit = rng.choice([1, 1, 2, 0])
    steps = []
    for i, nd in enumerate(nodes):
        st = {"name": names[i], "deps": [names[p] for p in nd["parents"]], "scheduled": nd["scheduled"],
              "restart": nd["has_restart"], "cancel": False}
        if nd["scheduled"]:
            seq = []
            for _ in range(rng.randint(1, 3)):
                seq += [rng.choice(NONTERM) for _ in range(rng.randint(0, 2))]
                t = rng.choices(["FINISHED", "FAILED", "TIMEDOUT", "CANCELLED", "UNKNOWN", "HWFAILURE"],
                                weights=[60, 10, 14, 5, 4, 7])[0]
                seq.append(t)
                if t not in ("TIMEDOUT", "HWFAILURE"):
                    break
            if seq[-1] in ("TIMEDOUT", "HWFAILURE") or seq[-1] in NONTERM:
                seq.append(rng.choice(["FINISHED", "FINISHED", "FAILED"]))
            st["reports"] = seq
            st["submit"] = [rng.random() < 0.85 for _ in range(6)]
        else:
            st["code"] = rng.choice([0, 0, 0, 3])
        steps.append(st)
    if cancel:
        loc = [s for s in steps if not s["scheduled"]]
        if loc:
            rng.choice(loc)["cancel"] = True
            for s in steps:
                if s["scheduled"]:
                    s["reports"] = ["RUNNING", "RUNNING"] + s["reports"][:-1] + ["CANCELLED"]
    qcodes = ["OK"]
    if qfault:
        qcodes = [rng.choice(["OK", "OK", "NOJOBS"]) for _ in range(rng.randint(1, 4))] + \
                 [rng.choice(["ERROR", "NOJOBS", "OK"]), "OK"]
    params = []
    if rng.random() < 0.5:                           # parameterised: two instances per (using) step
        params = [{"key": "P", "values": rng.sample([1, 2, 3, "lo", "hi"], 2)}]
        for st in steps:
            st["use"] = ["P"] if rng.random() < 0.7 else []
    return {"kind": "scripted", "shape": shape, "scenario": "scripted", "steps": steps, "params": params,
            "attempts": rng.choice([1, 2, 3]), "throttle": rng.choice([0, 0, 1, 2]), "rlimit": rlimit,
            "hashws": bool(params) and rng.random() < 0.6, "usetmp": rng.random() < 0.3, "ospell": pick_ospell(rng),
            "qcodes": qcodes, "cancel": "step" if cancel else "no"}
    # (callers may set case["reap_tmp"]: with --usetmp the temp script directory is removed from outside
    #  at every status query, as a /tmp reaper would)


def scripted_spec(case, d):
    import yaml
    alog, out = os.path.join(d, "adapter.log"), os.path.join(d, "out")
    study = []
    for st in case["steps"]:
        uses = "".join(" %s=$(%s)" % (k, k) for k in st.get("use", []))
        if st["scheduled"]:
            run = {"cmd": "echo scheduled-%s%s\n" % (st["name"], uses), "procs": 1}
        else:
            lines = ["echo local-%s%s" % (st["name"], uses)]
            if st.get("cancel"):
                lines.append("touch %s/.cancel.lock" % out)
            lines.append("echo '{\"call\": \"local\", \"inst\": \"%s\", \"cwd\": \"'`pwd`'\", \"pid\": '$$', \"code\": %d, \"lock\": %s}' >> %s"
                         % (st["name"], st["code"], "true" if st.get("cancel") else "false", alog))
            lines.append("exit %d" % st["code"])
            run = {"cmd": "\n".join(lines) + "\n"}
        if st["deps"]:
            run["depends"] = list(st["deps"])
        if st["restart"]:
            run["restart"] = "echo restart-%s\n" % st["name"]
        study.append({"name": st["name"], "description": "step %s" % st["name"], "run": run})
    spec = {"description": {"name": STUDY, "description": "generated study for the scripted scheduler"},
            "batch": {"type": "scripted", "host": "h", "bank": "b", "queue": "q"}, "study": study}
    if case.get("params"):
        spec["global.parameters"] = {p["key"]: {"values": list(p["values"]), "label": "%s.%%%%" % p["key"]}
                                     for p in case["params"]}
    script = {"log": alog, "submit_by_prefix": {s["name"]: s["submit"] for s in case["steps"] if s["scheduled"]},
              "reports_by_prefix": {s["name"]: s["reports"] for s in case["steps"] if s["scheduled"]},
              "qcodes": case["qcodes"], "faults": case.get("faults", []), "reap_tmp": bool(case.get("reap_tmp"))}
    return yaml.safe_dump(spec, default_flow_style=False, sort_keys=False), script


def run_scripted_case(job):
    case, d, mode = job
    shutil.rmtree(d, ignore_errors=True)
    os.makedirs(d)
    text, script = scripted_spec(case, d)
    with open(os.path.join(d, "spec.yaml"), "w") as f:
        f.write(text)
    with open(os.path.join(d, "script.json"), "w") as f:
        json.dump(script, f)
    out = os.path.join(d, "out")
    env = {"E2E_MARK_LOG": os.path.join(d, "marks.log"), "E2E_POLL_SLEEP": str(POLL_SLEEP), "E2E_STUDY_DIR": out,
           "E2E_SNAP_DIR": os.path.join(d, "snap"), "E2E_MAX_POLLS": "120", "E2E_SCRIPTED": os.path.join(d, "script.json")}
    log = os.path.join(d, "run.log")
    oarg, sarg, cwd = spell_out(case, d)
    args = ["-s", POLL_SLEEP, "--attempts", case["attempts"], "--rlimit", case["rlimit"], "--throttle", case["throttle"]] + \
        flag_args(case) + ["-o", oarg, sarg]
    res = {"mode": mode, "pre": []}
    if mode == "fg":
        rc, tail = launch("maestro", ["run", "-fg", "-y"] + args, cwd, env, logfile=log)
    else:
        rc0, tail0 = launch("maestro", ["run", "-n"] + args, cwd, {"E2E_SCRIPTED": env["E2E_SCRIPTED"]}, logfile=log)
        res["pre"].append(["maestro run -n", rc0])
        rc, tail = (rc0, tail0) if rc0 != 0 else launch("conductor", ["-t", POLL_SLEEP, oarg], cwd, env, logfile=log)
    res["rc"], res["tail"] = rc, tail[-1500:]
    return res


def resolver(inst):
    """adapter-log entry -> index of the instance it concerns, by directory: the workspace
    (`cwd` of submit / local entries, `dir` of write_script) or <tmp>/md5(instance name) with
    --usetmp.  Under --hashws the step's own name is shared by several instances."""
    from hashlib import md5
    by_ws = {nd["ws"]: i for i, nd in enumerate(inst)}
    by_md5 = {md5(nd["name"].encode("utf-8")).hexdigest(): i for i, nd in enumerate(inst)}
    by_name = {nd["name"]: i for i, nd in enumerate(inst)}

    def res(e):
        d = e.get("cwd") or e.get("dir")
        if d:
            d = os.path.realpath(d)
            if d in by_ws:
                return by_ws[d]
            if os.path.basename(d) in by_md5:
                return by_md5[os.path.basename(d)]
        return by_name.get(e.get("inst"))
    return res


def translate_scripted(case, d, res):
    """-> (ecase or None, problems)"""
    out = os.path.join(d, "out")
    prob = []
    try:
        entries = [json.loads(ln) for ln in open(os.path.join(d, "adapter.log")).read().split("\n") if ln]
    except Exception as e:
        return None, ["adapter call log unreadable: %r; output tail: %s" % (e, res.get("tail", "")[-500:])]
    # graph snapshots per poll (full job-id lists), last one from the study directory
    npoll_marks = len(parse_marks(os.path.join(d, "marks.log")))
    graphs = []
    aborted = res["rc"] == 1 and any(e.get("call") == "check_jobs" and e.get("q") == "ERROR" for e in entries)
    try:
        for k in range(npoll_marks - 1):
            graphs.append(read_graph(os.path.join(d, "snap", "graph.%d.pkl" % k))[0])
        if not aborted:
            graphs.append(read_graph(os.path.join(out, STUDY + ".pkl"))[0])
    except Exception as e:
        return None, ["execution-graph snapshot unreadable: %s: %s; output tail: %s"
                      % (type(e).__name__, str(e)[:200], res.get("tail", "")[-400:])]
    if not graphs:
        return None, ["no snapshot at all (rc=%s): %s" % (res["rc"], res.get("tail", "")[-400:])]
    inst = graphs[0]
    ix = {nd["name"]: i for i, nd in enumerate(inst)}
    res_ = resolver(inst)
    def template(name):
        c = [s for s in case["steps"] if name == s["name"] or name.startswith(s["name"] + "_")]
        return max(c, key=lambda s: len(s["name"])) if c else None
    if any(template(nd["name"]) is None for nd in inst):
        return None, ["an instance belongs to no step of the specification: %r" % [nd["name"] for nd in inst]]
    # the configuration is what the COMMAND LINE said (-t / -a / -r), not what the engine ended up with:
    # rlimit = R for a step with a restart command, else 0
    nodes = [{"parents": nd["parents"], "children": nd["children"], "scheduled": template(nd["name"])["scheduled"],
              "has_restart": bool(template(nd["name"])["restart"]),
              "rlimit": case["rlimit"] if template(nd["name"])["restart"] else 0} for nd in inst]
    jobno, nxt = {}, 0
    polls, cur = [], None
    pending_cancel = None
    for e in entries:
        c = e["call"]
        if c in ("poll", "reap", "fault"):
            continue
        if c == "cancel_jobs":
            pending_cancel = [jobno.get(str(j), 900 + len(jobno)) for j in e["jobs"]]
            continue
        if c == "check_jobs":
            cur = {"cancel": pending_cancel is not None, "q": e["q"], "reports": [], "subs": [], "events": []}
            if pending_cancel is not None:
                cur["events"].append(["cancel", sorted(pending_cancel)])
            pending_cancel = None
            cur["events"].append(["check", sorted(jobno.get(str(j), 900) for j in e["jobs"])])
            for j, v in e["answer"].items():
                cur["reports"].append([cur_job_node[str(j)], v]) if str(j) in cur_job_node else prob.append("report for unknown job %s" % j)
            polls.append(cur)
            continue
        if cur is None:
            prob.append("adapter call %s before the first status query" % c)
            continue
        x = res_(e)
        if x is None:
            prob.append("adapter call for unknown instance %s (%s)" % (e["inst"], e.get("cwd") or e.get("dir")))
            continue
        if c == "write_script":
            cur["events"].append(["gen", x])
        elif c == "submit":
            ok = e["job"] is not None
            cur["subs"].append(ok)
            if ok:
                jobno[str(e["job"])] = nxt
                cur_job_node[str(e["job"])] = x
                cur["events"].append(["submit", x, "Restart" if e["restart"] else "Main", True, nxt])
                nxt += 1
            else:
                cur["events"].append(["submit", x, "Restart" if e["restart"] else "Main", True, None])
        elif c == "local":
            ok = e["code"] == 0
            cur["subs"].append(ok)
            if ok:
                jobno[str(e["pid"])] = nxt
                cur["events"].append(["submit", x, "Main", False, nxt])
                nxt += 1
            else:
                cur["events"].append(["submit", x, "Main", False, None])
    if pending_cancel is not None:
        prob.append("cancel_jobs without a following poll")
    if len(polls) != len(graphs) + (1 if aborted else 0):
        prob.append("%d status queries but %d snapshots" % (len(polls), len(graphs)))
        return None, prob
    for k, p in enumerate(polls):
        if aborted and k == len(polls) - 1:
            g = graphs[-1] if graphs else inst         # ABORT: nothing was written; rows = previous poll's
            p["status"] = "ABORT"
        else:
            g = graphs[k]
            p["status"] = "RUNNING" if k < len(polls) - 1 else STATUS_OF_RC.get(res["rc"])
        p["rows"] = [[nd["state"], [jobno.get(j, 900) for j in nd["jobs"]], nd["restarts"]] for nd in g]
    if polls[-1]["status"] is None:
        prob.append("process exit code %r is not a verdict; tail: %s" % (res["rc"], res.get("tail", "")[-500:]))
        return None, prob
    ecase = {"nodes": nodes, "cfg": {"throttle": case["throttle"], "attempts": case["attempts"], "dry": False},
             "polls": polls, "end": "final"}
    return ecase, prob


cur_job_node = {}


def evaluate_scripted(ck, tag, items, pidnum=5, clause=None):
    """Scheduled-step studies through the command line with the scripted
    adapter; inside Coq: ExecCases.both_ok pidnum (full trace correspondence +
    monitor family on implementation and model)."""
    results = pmap(run_scripted_case, [(it["case"], it["dir"], it["mode"]) for it in items])
    lits, recs, summ = [], [], []
    for it, res in zip(items, results):
        cur_job_node.clear()
        try:
            ecase, prob = translate_scripted(it["case"], it["dir"], res)
        except Exception as e:
            ecase, prob = None, ["harness could not interpret the run: %r" % (e,)]
        rec = {"case": it["case"], "mode": it["mode"], "rc": res["rc"], "problems": prob, "violations": [],
               "polls": len(ecase["polls"]) if ecase else 0, "instances": len(it["case"]["steps"]),
               "attempts_run": sum(1 for p in (ecase["polls"] if ecase else []) for e in p["events"] if e[0] == "submit"),
               "impl": None if ecase is None else ecase["polls"]}
        summ.append(rec)
        flags = flags_text(it["case"])
        exp = it["case"].get("expect_abort")
        if exp:
            log_ = []
            try:
                log_ = [json.loads(ln) for ln in open(os.path.join(it["dir"], "adapter.log")).read().split("\n") if ln]
            except Exception:
                pass
            hit = any(e.get("call") == "fault" for e in log_) or \
                any(e.get("call") == "check_jobs" and e.get("q") == "ERROR" for e in log_)
            rec["fault_hit"] = hit
            if hit and res["rc"] in STATUS_OF_RC:
                rec["violations"] = ["the study went down on an error in the middle (%s) but `%s` exited %d = %s, as if "
                                     "the study had reached that verdict" % (
                                         exp, "maestro run -fg" if it["mode"] == "fg" else "conductor", res["rc"],
                                         STATUS_OF_RC[res["rc"]])]
            elif hit and exp != "qerror":
                # an exception out of an adapter call is outside the model's vocabulary: the clause above is the check
                shutil.rmtree(it["dir"], ignore_errors=True)
                continue
        if rec["violations"]:
            pass
        elif res["rc"] in (99, 124):
            rec["violations"] = ["the study did not terminate: stopped by the harness after its poll budget (flags: %s, -t %s -a %s -r %s)"
                                 % (flags, it["case"]["throttle"], it["case"]["attempts"], it["case"]["rlimit"])]
        elif res["rc"] not in STATUS_OF_RC and "ERROR" not in it["case"].get("qcodes", []):
            rec["violations"] = ["`maestro run`/`conductor` exited %r (no study verdict) on a legal study (flags: %s); output tail: %s"
                                 % (res["rc"], flags, res.get("tail", "")[-600:])]
        if rec["violations"]:
            ck.violation("%s [%s]: %s" % (tag.split("_p")[0], it["mode"], rec["violations"][0]), slim(rec))
            prob = []
            ecase = None
        if clause is not None and ecase is not None and not prob:
            rec["violations"] = clause(it["case"], ecase)
            for v in rec["violations"][:1]:
                ck.violation("%s [%s]: %s" % (tag, it["mode"], v), slim(rec))
        if prob:
            ck.mismatch("%s [%s]: %s" % (tag, it["mode"], prob[0]), slim(rec), res.get("tail", ""))
        elif ecase is not None and H.representable(ecase):
            lits.append(H.g_case(ecase))
            recs.append(rec)
        shutil.rmtree(it["dir"], ignore_errors=True)
    bad, errs = common.coq_failing(tag, H.HEADER, "ecase", "both_ok %d" % pidnum, lits)
    for e in errs:
        ck.mismatch("coqc failed on the %s cases file" % tag, None, e[1])
    if bad:
        sub = [lits[i] for i in bad]
        b_impl, _ = common.coq_failing(tag + "_i", H.HEADER, "ecase", "impl_ok %d" % pidnum, sub)
        for k, i in enumerate(bad):
            if recs[i]["violations"]:
                continue
            if k in b_impl:
                codes = common.coq_eval(tag + "_e", H.HEADER, "impl_viol (%s)" % lits[i])
                ck.violation("%s [%s]: monitor codes on the implementation's trace (exit code as final status): %s"
                             % (tag, recs[i]["mode"], " ".join(codes.split())[-200:]), slim(recs[i]))
            else:
                mo = common.coq_eval(tag + "_e", H.HEADER, "model_obs (%s)" % lits[i])
                ck.mismatch("%s [%s]: model and implementation observations differ" % (tag, recs[i]["mode"]),
                            slim(recs[i]), mo[-3000:])
    return summ


# ----------------------------------------------------------------------------
# C03 / C06: do the settings given on the command line reach the engine?
# ----------------------------------------------------------------------------
def gen_config_study(rng, focus):
    """Few step templates, one parameter with N distinct values (N instances of a
    template ready at once), every step SCHEDULED; flags -t T / -a A / -r R."""
    ntempl = rng.choice([1, 2, 2, 3])
    nvals = rng.randint(3, 8) if focus == "throttle" else rng.randint(1, 4)
    names = rng.sample(["gen", "sim", "post-1", "s2"], ntempl)
    values = rng.sample([1, 2, 3, 5, 8, 13, 21, 34, "lo", "hi"], nvals)
    steps = []
    for i, nm in enumerate(names):
        deps = []
        if i > 0 and rng.random() < 0.6:
            deps = [names[i - 1] + ("_*" if rng.random() < 0.25 else "")]
        st = {"name": nm, "deps": deps, "use": ["P"], "scheduled": True, "cancel": False,
              "restart": False, "submit": [rng.random() < 0.9 for _ in range(4)]}
        steps.append(st)
    if focus == "throttle":
        ninst = nvals                                   # instances of one template, ready together
        # T in 0..N+1, mostly in the band  #templates <= T < #instances
        band = [t for t in range(ntempl, ninst)] or [1]
        T = rng.choice(band) if rng.random() < 0.65 else rng.randint(0, ninst + 1)
        R = rng.choice([0, 1, 2, 3])
        for st in steps:
            st["reports"] = [rng.choice(["RUNNING", "RUNNING", "PENDING"]) for _ in range(rng.randint(1, 3))] + ["FINISHED"]
            st["restart"] = rng.random() < 0.2
    else:
        R = rng.choice([0, 0, 1, 2, 3])
        T = rng.choice([0, 0, 2, nvals + 1])
        nto = R + 2 if R > 0 else rng.choice([3, 4, 5])    # consecutive TIMEDOUT reports per instance
        for st in steps:
            st["restart"] = rng.random() < 0.8
            k = nto if rng.random() < 0.7 else rng.randint(1, nto)
            seq = []
            for _ in range(k):
                seq += [rng.choice(["RUNNING", None])] * rng.randint(0, 1) + ["TIMEDOUT"]
            st["reports"] = seq + ["FINISHED"]
        if not any(s["restart"] for s in steps):
            steps[0]["restart"] = True
    return {"kind": "scripted", "focus": focus, "shape": "templates:%d" % ntempl, "scenario": "config-" + focus,
            "steps": steps, "params": [{"key": "P", "values": values}], "attempts": rng.choice([1, 2, 3]),
            "throttle": T, "rlimit": R, "hashws": rng.random() < 0.5, "usetmp": rng.random() < 0.3,
            "ospell": pick_ospell(rng), "qcodes": ["OK"], "cancel": "no"}


def config_cases(rng, n, focus):
    """focus 'throttle' (C03) or 'restart' (C06) -> items for check_config"""
    return [{"case": gen_config_study(rng, focus), "mode": "fg"} for _ in range(n)]


def config_clause(case, ecase):
    """On the implementation's own adapter-call log, against the COMMAND-LINE flags:
    never more than -t live jobs; a TIMEDOUT report to a step with a restart command is
    answered by a restart submission iff -r is 0 (unlimited) or fewer than -r restarts
    were made so far."""
    viol = []
    T, R = case["throttle"], case["rlimit"]
    g = ecase["nodes"]
    live, nrestart = {}, Counter()
    for k, p in enumerate(ecase["polls"]):
        if p["q"] == "OK":
            for x, v in p["reports"]:
                if v in ("FINISHED", "FAILED", "TIMEDOUT", "HWFAILURE", "CANCELLED", "UNKNOWN"):
                    live.pop(x, None)
        rsub = set()
        for e in p["events"]:
            if e[0] == "submit":
                if e[2] == "Restart":
                    rsub.add(e[1])
                if e[3] and e[4] is not None:
                    live[e[1]] = e[4]
                    if T > 0 and len(live) > T:
                        viol.append("poll %d: %d jobs in flight with -t %d" % (k, len(live), T))
        if p["q"] == "OK" and not any(q["cancel"] for q in ecase["polls"][:k + 1]):
            for x, v in p["reports"]:
                if v == "TIMEDOUT" and g[x]["has_restart"]:
                    want = R == 0 or nrestart[x] < R
                    if want and x not in rsub:
                        viol.append("poll %d: instance %d timed out after %d restart(s) with -r %d%s but was not restarted"
                                    % (k, x, nrestart[x], R, " (unlimited)" if R == 0 else ""))
                    if not want and x in rsub:
                        viol.append("poll %d: instance %d restarted although %d restart(s) were already made with -r %d"
                                    % (k, x, nrestart[x], R))
        for x in rsub:
            nrestart[x] += 1
    return viol


def check_config(ck, items, pidnum):
    """Runs the items through `maestro run -fg -y -t T -a A -r R` with the scripted
    scheduler; inside Coq `both_ok pidnum` with cfg from the command-line values;
    reports to ck; fills ck.cov['e2e_config']."""
    tag = utag("C%02d_cfg" % pidnum)
    work = os.path.join(common.WORK, tag + "_runs")
    shutil.rmtree(work, ignore_errors=True)
    for i, it in enumerate(items):
        it["dir"] = os.path.join(work, "c%d" % i)
    summ = evaluate_scripted(ck, tag, items, pidnum=pidnum, clause=config_clause)
    shutil.rmtree(work, ignore_errors=True)
    sweep()
    dist = Counter()
    for r in summ:
        c = r["case"]
        ninst = len(c["params"][0]["values"])
        dist["flags:-t %d" % c["throttle"]] += 1
        dist["flags:-r %d" % c["rlimit"]] += 1
        dist["flags:-a %d" % c["attempts"]] += 1
        dist["templates:%d" % len(c["steps"])] += 1
        dist["values:%d" % ninst] += 1
        if len(c["steps"]) <= c["throttle"] < ninst:
            dist["throttle>=templates,<instances"] += 1
        dist["polls:%02d" % min(r["polls"], 40)] += 1
        dist["restart_submits"] += sum(1 for p in (r["impl"] or []) for e in p["events"] if e[0] == "submit" and e[2] == "Restart")
        dist["exit:%s" % r["rc"]] += 1
        ck.count("cfg:" + json.dumps([c["steps"], c["params"], c["throttle"], c["attempts"], c["rlimit"]], sort_keys=True, default=str),
                 nontrivial=r["attempts_run"] >= 2)
    ck.cov["e2e_config"] = dict(sorted(dist.items()))
    return summ


# ----------------------------------------------------------------------------
# C05 / C07: the `maestro cancel` command line on SEVERAL running studies
# ----------------------------------------------------------------------------
def gen_cancel_study(rng, gate_at):
    nroot = rng.randint(1, 3)
    names = rng.sample(NAMES, nroot + rng.randint(1, 2))
    steps = []
    for i, nm in enumerate(names):
        root = i < nroot
        steps.append({"name": nm, "deps": [] if root else [rng.choice(names[:nroot])], "scheduled": True,
                      "restart": rng.random() < 0.3, "cancel": False, "submit": [True] * 6,
                      "reports": ["RUNNING"] * (gate_at + 3) + ["FINISHED"] if root else ["RUNNING", "FINISHED"]})
    return {"kind": "scripted", "shape": "roots:%d" % nroot, "scenario": "cancel-cli", "steps": steps, "params": [],
            "attempts": 1, "throttle": 0, "rlimit": 1, "qcodes": ["OK"], "cancel": "cli", "after_cancel": "CANCELLED"}


def cancel_cli_cases(rng, n):
    """n scenarios: K studies whose conductors are running (scripted scheduler, jobs
    RUNNING), ONE `maestro cancel` invocation.  kinds: several directories named (all /
    all but one, any order), a single directory, a non-existent directory among real ones
    or alone, the confirmation declined."""
    out = []
    kinds = ["multi", "startup", "multi-last-unnamed", "single", "missing-mixed", "startup", "multi", "declined",
             "missing-only", "multi-first-unnamed"]
    for i in range(n):
        kind = kinds[i % len(kinds)]
        k = rng.choice([2, 3]) if kind != "multi" else rng.choice([2, 3, 3])
        gate_at = rng.choice([1, 2])
        studies = [gen_cancel_study(rng, gate_at) for _ in range(k)]
        idx = list(range(k))
        if kind == "multi":
            named = idx[:]
            rng.shuffle(named)
        elif kind == "multi-last-unnamed":
            named = idx[:-1] if k > 2 else idx[:1]
        elif kind == "multi-first-unnamed":
            named = idx[1:]
        elif kind == "startup":
            # the request is placed in the START-UP WINDOW: after `maestro run` stored the study, before
            # the conductor process initialises -- it must be honoured at the first poll
            named = idx[:-1] if rng.random() < 0.5 else idx[:]
        elif kind == "single":
            named = [rng.choice(idx)]
        elif kind == "missing-mixed":
            named = idx[:-1]
        elif kind == "declined":
            named = idx[:]
        else:
            named = []
        missing = {"missing-mixed": rng.choice(["first", "last", "middle"]), "missing-only": "only"}.get(kind)
        out.append({"kind": kind, "studies": studies, "named": named, "missing": missing, "gate_at": gate_at,
                    "answer": "n" if kind == "declined" else rng.choice(["y", "yes"])})
    return out


def run_cancel_scenario(job):
    sc, d = job
    shutil.rmtree(d, ignore_errors=True)
    os.makedirs(d)
    gate = os.path.join(d, "gate.open")
    procs, sdirs, starters = [], [], []
    res = {"studies": [], "cancel": None}
    for i, case in enumerate(sc["studies"]):
        sd = os.path.join(d, "s%d" % i)
        os.makedirs(sd)
        sdirs.append(sd)
        text, script = scripted_spec(case, sd)
        script["after_cancel"] = case.get("after_cancel")
        with open(os.path.join(sd, "spec.yaml"), "w") as f:
            f.write(text)
        with open(os.path.join(sd, "script.json"), "w") as f:
            json.dump(script, f)
        out = os.path.join(sd, "out")
        rc0, tail0 = launch("maestro", ["run", "-n", "-s", POLL_SLEEP, "--attempts", case["attempts"], "--rlimit", case["rlimit"],
                                        "--throttle", case["throttle"], "-o", out, "spec.yaml"], sd,
                            {"E2E_SCRIPTED": os.path.join(sd, "script.json")}, logfile=os.path.join(sd, "run.log"))
        env = base_env({"E2E_MARK_LOG": os.path.join(sd, "marks.log"), "E2E_POLL_SLEEP": str(POLL_SLEEP), "E2E_STUDY_DIR": out,
                        "E2E_SNAP_DIR": os.path.join(sd, "snap"), "E2E_MAX_POLLS": "60",
                        "E2E_SCRIPTED": os.path.join(sd, "script.json"), "E2E_GATE": gate,
                        "E2E_GATE_AT": str(sc["gate_at"]), "E2E_GATE_REACHED": os.path.join(sd, "reached")})
        p = None
        starter = None
        if rc0 == 0:
            def starter(sd=sd, out=out, env=env):
                return subprocess.Popen([PY, LAUNCHER, "conductor", "-t", str(POLL_SLEEP), out], cwd=sd, env=env,
                                        stdout=open(os.path.join(sd, "conductor.log"), "w"), stderr=subprocess.STDOUT)
            if sc["kind"] != "startup":
                p = starter()
        procs.append(p)
        starters.append(starter)
        res["studies"].append({"store_rc": rc0, "store_tail": tail0[-300:]})
    import time
    t0 = time.time()
    while sc["kind"] != "startup" and time.time() - t0 < 90:
        if all(p is None or p.poll() is not None or os.path.exists(os.path.join(sd, "reached")) for p, sd in zip(procs, sdirs)):
            break
        time.sleep(0.05)
    res["all_reached_gate"] = sc["kind"] == "startup" or all(os.path.exists(os.path.join(sd, "reached")) for sd in sdirs)
    # ONE invocation of the real command line
    ghost = os.path.join(d, "no-such-study")
    args = [os.path.join(sdirs[i], "out") for i in sc["named"]]
    if sc["missing"] == "first" or sc["missing"] == "only":
        args = [ghost] + args
    elif sc["missing"] == "last":
        args = args + [ghost]
    elif sc["missing"] == "middle":
        args = args[:1] + [ghost] + args[1:]
    rc, out_text = launch("maestro", ["cancel"] + args, d, {}, stdin_text=sc["answer"] + "\n", logfile=os.path.join(d, "cancel.log"))
    res["cancel"] = {"rc": rc, "out": out_text[-1500:], "argv": [os.path.relpath(a, d) for a in args],
                     "locks": [os.path.exists(os.path.join(sd, "out", ".cancel.lock")) for sd in sdirs],
                     "ghost_created": os.path.exists(ghost)}
    with open(gate, "w") as f:
        f.write("open\n")
    if sc["kind"] == "startup":
        procs = [st_() if st_ else None for st_ in starters]      # only now do the conductors start
    for p, st, sd in zip(procs, res["studies"], sdirs):
        if p is None:
            st["rc"] = st["store_rc"]
            continue
        try:
            st["rc"] = p.wait(timeout=120)
        except subprocess.TimeoutExpired:
            p.kill()
            st["rc"] = 124
        try:
            st["tail"] = open(os.path.join(sd, "conductor.log")).read()[-800:]
        except OSError:
            st["tail"] = ""
    return res


def check_cancel_cli(ck, items=None, pidnum=7, n=None):
    """`maestro cancel dirA dirB ...` against running conductors.  VIOLATION when, on the
    implementation's own observables: a study named in an acknowledged cancel command gets no
    cancel request (no .cancel.lock right after the command; no cancel_jobs call with its live
    jobs; something submitted afterwards; exit code not 3), a study NOT named (or a declined
    confirmation) is disturbed, the command's exit code is not 0 (1 with a missing directory),
    it prints a traceback or creates the missing directory.  Inside Coq: ExecCases.both_ok
    pidnum on every study's full adapter-call trace."""
    if items is None:
        items = cancel_cli_cases(random.Random(ck.seed * 613 + pidnum), n or (10 if ck.tier != "thorough" else 80))
    tag = utag("C%02d_cancelcli" % pidnum)
    work = os.path.join(common.WORK, tag + "_runs")
    shutil.rmtree(work, ignore_errors=True)
    jobs = [(sc, os.path.join(work, "k%d" % i)) for i, sc in enumerate(items)]
    results = pmap(run_cancel_scenario, jobs, workers=4)
    lits, recs = [], []
    dist = Counter()
    for (sc, d), res in zip(jobs, results):
        viol, prob = [], []
        replay = {"scenario": {k: sc[k] for k in ("kind", "studies", "named", "missing", "gate_at", "answer")},
                  "cancel_command": res["cancel"], "exit_codes": [s.get("rc") for s in res["studies"]]}
        dist["kind:" + sc["kind"]] += 1
        dist["studies:%d" % len(sc["studies"])] += 1
        dist["named:%d" % len(sc["named"])] += 1
        if not res["all_reached_gate"]:
            prob.append("a conductor did not reach the rendez-vous: %r" % [(s.get("store_rc"), s.get("rc")) for s in res["studies"]])
        c = res["cancel"]
        yes = sc["answer"] != "n"
        want_rc = 1 if sc["missing"] else 0
        if c["rc"] != want_rc:
            viol.append("`maestro cancel %s` exited %r, expected %d; output: %s" % (" ".join(c["argv"]), c["rc"], want_rc, c["out"][-300:]))
        if "Traceback" in c["out"]:
            viol.append("`maestro cancel` printed a traceback: %s" % c["out"][-300:])
        if c["ghost_created"]:
            viol.append("`maestro cancel` created the non-existent directory")
        if sc["missing"] and "not found" not in c["out"]:
            viol.append("`maestro cancel` gave no diagnostic for the missing directory: %s" % c["out"][-200:])
        for i, (case, st) in enumerate(zip(sc["studies"], res["studies"])):
            named = i in sc["named"] and yes
            sd = os.path.join(d, "s%d" % i)
            if c["locks"][i] != named:
                viol.append("study s%d %s in `maestro cancel %s` (answer %r) but %s" % (
                    i, "IS named" if i in sc["named"] else "is NOT named", " ".join(c["argv"]), sc["answer"],
                    "no cancel request was written into it" if named else "a cancel request was written into it"))
            cur_job_node.clear()
            try:
                ecase, pr = translate_scripted(case, sd, {"rc": st.get("rc"), "tail": st.get("tail", ""), "mode": "conductor"})
            except Exception as e:
                ecase, pr = None, ["harness could not interpret study s%d: %r" % (i, e)]
            prob += ["s%d: %s" % (i, x) for x in pr]
            if ecase is None:
                continue
            calls = [(k, e) for k, p in enumerate(ecase["polls"]) for e in p["events"]]
            cancels = [k for k, e in calls if e[0] == "cancel"]
            if named:
                if not cancels:
                    viol.append("study s%d was named in an acknowledged `maestro cancel` but its conductor never called cancel_jobs "
                                "(final status %s, exit %r)" % (i, ecase["polls"][-1]["status"], st.get("rc")))
                else:
                    k0 = cancels[0]
                    later = [e for k, e in calls if e[0] == "submit" and k >= k0]
                    if later:
                        viol.append("study s%d submitted %r after its cancel request" % (i, later[:2]))
                    if st.get("rc") != 3:
                        viol.append("study s%d was cancelled but its conductor exited %r, not 3" % (i, st.get("rc")))
                    if sc["kind"] == "startup" and k0 != 0:
                        viol.append("study s%d: the cancel request placed before the conductor started was not honoured at the first poll" % i)
            else:
                if cancels:
                    viol.append("study s%d was not named (or the confirmation was declined) but its conductor cancelled its jobs" % i)
                if st.get("rc") == 3:
                    viol.append("study s%d was not named but ended CANCELLED" % i)
            if H.representable(ecase) and not pr:
                lits.append(H.g_case(ecase))
                recs.append((replay, i, viol))
            dist["exit:%s" % st.get("rc")] += 1
        ck.count("cancelcli:" + json.dumps(replay["scenario"], sort_keys=True), nontrivial=len(sc["named"]) >= 1)
        if viol:
            ck.violation("maestro cancel (%s): %s" % (sc["kind"], viol[0]), dict(replay, all=viol[:6]))
        elif prob:
            ck.mismatch("maestro cancel (%s): %s" % (sc["kind"], prob[0]), replay, "")
        shutil.rmtree(d, ignore_errors=True)
    shutil.rmtree(work, ignore_errors=True)
    bad, errs = common.coq_failing(tag, H.HEADER, "ecase", "both_ok %d" % pidnum, lits)
    for e in errs:
        ck.mismatch("coqc failed on the cancel-cli cases file", None, e[1])
    if bad:
        sub = [lits[i] for i in bad]
        b_impl, _ = common.coq_failing(tag + "_i", H.HEADER, "ecase", "impl_ok %d" % pidnum, sub)
        for k, i in enumerate(bad):
            replay, si, viol = recs[i]
            if viol:
                continue
            if k in b_impl:
                codes = common.coq_eval(tag + "_e", H.HEADER, "impl_viol (%s)" % lits[i])
                ck.violation("maestro cancel: study s%d: monitor codes on the conductor's trace: %s" % (si, " ".join(codes.split())[-200:]), replay)
            else:
                mo = common.coq_eval(tag + "_e", H.HEADER, "model_obs (%s)" % lits[i])
                ck.mismatch("maestro cancel: study s%d: model and implementation observations differ" % si, replay, mo[-2500:])
    dist["model_compared"] = len(lits)
    ck.cov["e2e_cancel_cli"] = dict(sorted(dist.items()))
    sweep()

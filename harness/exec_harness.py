"""Scripted-scheduler harness for the execution properties (C01-C07, C12, C17, C20).

Runs the REAL maestrowf ExecutionGraph (execute_ready_steps / cancel_study)
against a scripted scheduler adapter registered through the adapter plug-in
registry, generating the poll inputs adaptively (reports are drawn for the job
ids the implementation actually queries), and records per poll: the poll input
(pin), the adapter calls in order, the status rows and the returned status.
"""
import os
import random
import shutil

from harness import common

_READY = False
CTX = None


class Ctx:
    """What the scripted adapters share during one history."""

    def __init__(self, nodes, rng, profile, scripted_pins=None):
        self.nodes = nodes
        self.rng = rng
        self.profile = profile
        self.scripted = scripted_pins     # replay mode: list of pins, else None
        self.events = []
        self.next_job = 0
        self.job_node = {}                # job number -> node index
        self.pin = None                   # pin of the current poll (being filled)
        self.subs = []
        self.fair = False                 # fair-tail mode
        self.chooser = None               # exhaustive mode: a Chooser
        self.enum = None                  # exhaustive mode options


class Chooser:
    """Replays a prescribed sequence of choices and records the arity of every
    choice point (stateless DFS over choice sequences)."""

    def __init__(self, prefix):
        self.prefix = list(prefix)
        self.trace = []       # (choice, arity)

    def pick(self, k):
        i = len(self.trace)
        c = self.prefix[i] if i < len(self.prefix) else 0
        self.trace.append((c, k))
        return c


def next_prefix(trace):
    """Successor of a completed choice trace in DFS order, or None."""
    tr = list(trace)
    while tr:
        c, k = tr.pop()
        if c + 1 < k:
            return [x for x, _ in tr] + [c + 1]
    return None


def _node_of(step):
    idx = getattr(CTX, "name_index", None)      # pre-staged graph (run_history staged=...): instance name -> index
    return idx[step.real_name] if idx else int(step.real_name[1:])


def _key_of(i):
    """key of node i in dag.values: "n<i>" for graphs built by build_dag, the instance name for a pre-staged graph"""
    names = getattr(CTX, "names", None)
    return names[i] if names else "n%d" % i


def staged_dag(c, staged, root):
    """run_history(staged=f): f(root) -> (ExecutionGraph staged by the real Study.stage(), instance names in
    node order).  The scripted adapters find a step's node index through c.name_index."""
    dag, names = staged(root)
    c.names = list(names)
    c.name_index = {nm: i for i, nm in enumerate(names)}
    return dag


STATES = ["INITIALIZED", "PENDING", "WAITING", "RUNNING", "FINISHING", "FINISHED", "QUEUED", "FAILED",
          "INCOMPLETE", "HWFAILURE", "TIMEDOUT", "UNKNOWN", "CANCELLED", "NOTFOUND", "DRYRUN"]

PROFILES = {
    # weights over: absent, None, PENDING, RUNNING, FINISHING, FINISHED, FAILED, TIMEDOUT, HWFAILURE,
    #               UNKNOWN, CANCELLED, WAITING, QUEUED, exotic(INITIALIZED/INCOMPLETE/NOTFOUND/DRYRUN)
    "mixed":   [8, 4, 10, 22, 3, 26, 6, 9, 4, 2, 3, 1, 1, 1],
    "happy":   [3, 1, 10, 30, 3, 50, 1, 1, 0, 0, 0, 1, 0, 0],
    "timeout": [4, 2, 5, 15, 1, 18, 3, 42, 3, 1, 2, 2, 1, 1],
    "hw":      [4, 2, 5, 15, 1, 22, 3, 6, 36, 1, 2, 1, 1, 1],
    "faulty":  [25, 12, 8, 12, 2, 18, 5, 5, 3, 5, 3, 1, 0, 1],
    "failing": [3, 1, 6, 15, 1, 24, 20, 8, 2, 8, 10, 1, 0, 1],
    # joins whose parents end differently (one FAILED, one CANCELLED) while other branches still run
    "failcancel": [3, 1, 4, 30, 1, 10, 24, 2, 1, 2, 22, 0, 0, 0],
}
KINDS = ["absent", None, "PENDING", "RUNNING", "FINISHING", "FINISHED", "FAILED", "TIMEDOUT", "HWFAILURE",
         "UNKNOWN", "CANCELLED", "WAITING", "QUEUED", "exotic"]


def _setup():
    """Import maestrowf from /repo, stub sleep, register the scripted adapters."""
    global _READY
    if _READY:
        return
    import maestrowf.datastructures.core.executiongraph as eg
    from maestrowf.abstracts.enums import JobStatusCode, State, SubmissionCode, CancelCode
    from maestrowf.interfaces import ScriptAdapterFactory
    from maestrowf.interfaces.script import SubmissionRecord, CancellationRecord
    import logging
    logging.disable(logging.CRITICAL)
    eg.sleep = lambda *_a, **_k: None

    def do_submit(step, path, sched):
        c = CTX
        x = _node_of(step)
        kind = "Restart" if path.endswith(".restart.sh") else "Main"
        if c.chooser is not None and c.enum.get("subs"):
            ok = c.chooser.pick(2) == 0
            c.pin["subs"].append(ok)
        else:
            ok = c.subs.pop(0) if c.subs else True
        if ok:
            j = c.next_job
            c.next_job += 1
            c.job_node[j] = x
            c.events.append(["submit", x, kind, sched, j])
            return SubmissionRecord(SubmissionCode.OK, 0, str(j))
        c.events.append(["submit", x, kind, sched, None])
        return SubmissionRecord(SubmissionCode.ERROR, 1)

    class Scripted(object):
        key = "scripted"

        def __init__(self, **kwargs):
            pass

        def write_script(self, ws_path, step):
            c = CTX
            x = _node_of(step)
            c.events.append(["gen", x])
            nd = c.nodes[x]
            script = os.path.join(ws_path, "n%d.sh" % x)
            rscript = os.path.join(ws_path, "n%d.restart.sh" % x) if nd["has_restart"] else None
            return nd["scheduled"], script, rscript

        def submit(self, step, path, cwd, job_map=None, env=None):
            return do_submit(step, path, True)

        def check_jobs(self, joblist):
            c = CTX
            js = sorted(int(j) for j in joblist)
            c.events.append(["check", js])
            pin = c.pin
            if c.scripted is not None:
                # replay: reports are given per node; key them by the node's queried job
                node_job = {c.job_node[j]: j for j in js}
                status, kept = {}, []
                for x, v in pin["reports"]:
                    if x in node_job and str(node_job[x]) not in status:
                        status[str(node_job[x])] = None if v is None else State[v]
                        kept.append([x, v])
                    else:
                        # a stored report for a job this tree does not query cannot be delivered
                        pin.setdefault("dropped", []).append([x, v])
                pin["reports"] = kept
                return JobStatusCode[pin["q"]], status
            reps = _gen_reports(c, js)
            pin["reports"] = [[c.job_node[j], v] for j, v in reps]
            status = {str(j): (None if v is None else State[v]) for j, v in reps}
            return JobStatusCode[pin["q"]], status

        def cancel_jobs(self, joblist):
            CTX.events.append(["cancel", sorted(int(j) for j in joblist)])
            # the scheduler may refuse the cancellation: the request stands all the same
            if CTX.pin is not None and not CTX.pin.get("cancel_ok", True):
                return CancellationRecord(CancelCode.ERROR, 1)
            return CancellationRecord(CancelCode.OK, 0)

    class ScriptedLocal(object):
        key = "local"

        def __init__(self, **kwargs):
            pass

        def submit(self, step, path, cwd, job_map=None, env=None):
            return do_submit(step, path, False)

    ScriptAdapterFactory.factories["scripted"] = Scripted
    ScriptAdapterFactory.factories["local"] = ScriptedLocal
    _READY = True


def _gen_reports(c, js):
    rng = c.rng
    out = []
    if c.chooser is not None:
        kinds = c.enum["kinds"]
        for j in js:
            v = kinds[c.chooser.pick(len(kinds))]
            if v != "absent":
                out.append((j, v))
        return out
    if c.fair:
        for j in js:
            r = rng.random()
            if r < 0.55:
                v = "FINISHED"
            elif r < 0.65:
                v = "FAILED"
            elif r < 0.75:
                v = "TIMEDOUT"
            elif r < 0.80:
                v = "CANCELLED"
            elif r < 0.84:
                v = "UNKNOWN"
            else:
                v = rng.choice(["RUNNING", "PENDING", "absent", None])
            if v == "absent":
                continue
            out.append((j, v))
    else:
        w = PROFILES[c.profile]
        for j in js:
            k = rng.choices(KINDS, weights=w)[0]
            if k == "absent":
                continue
            if k == "exotic":
                k = rng.choice(["INITIALIZED", "INCOMPLETE", "NOTFOUND", "DRYRUN"])
            out.append((j, k))
    rng.shuffle(out)
    return out


# ----------------------------------------------------------------------------
# case generation
# ----------------------------------------------------------------------------
def gen_graph(rng, shape=None, nmax=8):
    shape = shape or rng.choice(["random", "random", "random", "chain", "diamond", "funnel", "fanout",
                                 "twofail", "indep", "single", "layered"])
    if shape == "chain":
        n = rng.randint(2, min(6, nmax))
        par = [[] if i == 0 else [i - 1] for i in range(n)]
    elif shape == "diamond":
        par = [[], [0], [0], [1, 2]] + ([[3]] if rng.random() < 0.5 else [])
    elif shape == "funnel":
        k = rng.randint(2, 4)
        par = [[] for _ in range(k)] + [list(range(k))] + ([[k]] if rng.random() < 0.5 else [])
    elif shape == "fanout":
        k = rng.randint(2, 4)
        par = [[]] + [[0] for _ in range(k)]
    elif shape == "twofail":
        par = [[], [], [0, 1], [2]] + ([[0]] if rng.random() < 0.5 else [])
    elif shape == "indep":
        par = [[], [0], [], [2], []][:rng.randint(3, 5)]
    elif shape == "single":
        par = [[]]
    elif shape == "layered":
        n = rng.randint(3, nmax)
        par = []
        for i in range(n):
            lo = max(0, i - 4)
            cand = list(range(lo, i))
            par.append(sorted(rng.sample(cand, min(len(cand), rng.choice([0, 1, 1, 2, 2, 3])))))
    else:
        n = rng.randint(1, nmax)
        par = []
        for i in range(n):
            par.append(sorted(x for x in range(i) if rng.random() < min(0.6, 1.6 / max(1, i))))
    n = len(par)
    nodes = []
    for i in range(n):
        has_restart = rng.random() < 0.45
        nodes.append({"parents": par[i],
                      "children": [j for j in range(n) if i in par[j]],
                      "scheduled": rng.random() < 0.78,
                      "has_restart": has_restart,
                      "rlimit": rng.choice([0, 1, 1, 2, 3]) if has_restart or rng.random() < 0.1 else 0})
    return shape, nodes


def gen_cfg(rng, n, dry=None):
    return {"throttle": rng.choice([0, 0, 1, 1, 2, 2, 3, n + 1]),
            "attempts": rng.choice([1, 1, 2, 3]),
            "dry": (rng.random() < 0.06) if dry is None else dry}


def build_dag(nodes, cfg, root):
    from maestrowf.datastructures.core.executiongraph import ExecutionGraph
    from maestrowf.datastructures.core.study import StudyStep
    # the dry-run switch is requested as any truthy value (the API does not demand the bool True)
    dry = cfg["dry"] if (not cfg["dry"] or len(nodes) % 2 == 0) else 1
    dag = ExecutionGraph(submission_attempts=cfg["attempts"], submission_throttle=cfg["throttle"],
                         use_tmp=False, dry_run=dry)
    dag.add_description("study", "scripted")
    dag.add_node("_source", None)
    for i, nd in enumerate(nodes):
        st = StudyStep()
        st.name = "n%d" % i
        st.run["cmd"] = "echo %d" % i
        st.run["restart"] = "echo r%d" % i if nd["has_restart"] else ""
        dag.add_step("n%d" % i, st, os.path.join(root, "n%d" % i), nd["rlimit"])
        if nd["parents"]:
            for p in nd["parents"]:
                dag.add_connection("n%d" % p, "n%d" % i)
        else:
            dag.add_connection("_source", "n%d" % i)
    dag.set_adapter({"type": "scripted"})
    return dag


def rows_of(dag, n):
    rows = []
    for i in range(n):
        r = dag.values[_key_of(i)]
        # a job id the scheduler never issued (None, garbage) is kept as the sentinel 4999: monitor code 12
        # (job-id column = ids returned by successful submissions) then flags it on the implementation's trace
        rows.append([r.status.name, [int(j) if str(j).isdigit() else 4999 for j in r.jobid], r.restarts])
    return rows


# what the user is SHOWN: status.csv as the real write_status renders it (C02 "is reported failed or
# cancelled", C06 "the restart count shown in the status").  run_history(shown=True) (or SHOWN = True)
# calls the real ExecutionGraph.write_status after every poll -- the conductor does so itself, the direct
# driver does not -- reads the file back and keeps, per step, the shown State / Job ID / Number Restarts
SHOWN = False


def shown_rows(dag, root, n):
    """[[State, Job ID, Number Restarts] as shown in status.csv, or None when the step has no row] per step;
    {"exc": ...} when the status file could not be written or read."""
    import csv
    try:
        dag.write_status(root)
        with open(os.path.join(root, "status.csv"), newline="") as f:
            by_name = {}
            for r in csv.DictReader(f):
                by_name.setdefault(r.get("Step Name"), r)
        out = []
        for i in range(n):
            r = by_name.get("n%d" % i)
            out.append(None if r is None else [r.get("State"), r.get("Job ID"), r.get("Number Restarts")])
        return out
    except Exception as e:
        return {"exc": "%s: %s" % (type(e).__name__, str(e)[:200])}


def shown_diff(rows, shown):
    """Differences between the engine records (rows_of: [state, job ids, restarts] per step) and what
    status.csv shows for the same poll: list of (step, column, shown, recorded)."""
    if isinstance(shown, dict):
        return [(-1, "status.csv", shown.get("exc"), "a readable status file")]
    out = []
    for i, rec in enumerate(rows):
        sh = shown[i] if i < len(shown) else None
        if sh is None:
            out.append((i, "row", "absent", rec[0]))
            continue
        if sh[0] != rec[0]:
            out.append((i, "State", sh[0], rec[0]))
        want_job = "--" if not rec[1] else rec[1][-1]
        got_job = int(sh[1]) if str(sh[1]).isdigit() else ("--" if sh[1] == "--" else 4999)
        if got_job != want_job:
            out.append((i, "Job ID", sh[1], want_job))
        if str(sh[2]) != str(rec[2]):
            out.append((i, "Number Restarts", sh[2], rec[2]))
    return out


# ----------------------------------------------------------------------------
# controlled clock: the verdict must not depend on the wall-clock instant of a poll.  The engine stamps every
# mark_submitted / mark_running / mark_end with round_datetime_seconds(datetime.now()), `datetime` being the name
# maestrowf.datastructures.core.executiongraph imported.  run_history(clock=spec) replaces that name (and the
# conductor module's) for the duration of the history by a datetime subclass whose now() returns scripted instants:
#   spec = {"start": ISO instant of poll 0, "poll_s": seconds between the starts of consecutive polls,
#           "tick_us": microseconds the clock advances per now() call inside a poll}
# Nothing else about the history changes, so correspondence and monitors must hold exactly as with the real clock.
# CLOCK_POLICY: optional callable() -> spec or None, consulted for generated (not scripted) histories when no
# clock is passed; a history's clock is stored in case["clock"] and travels with its poll inputs (pins_of puts it
# on the first pin), so corpus files and replays re-create it.
# ----------------------------------------------------------------------------
import datetime as _dt

CLOCK_POLICY = None
_CLOCK = {"cur": None, "tick": _dt.timedelta(0), "calls": 0, "edge": 0}


class ScriptedDatetime(_dt.datetime):
    """`datetime` as the engine sees it under a controlled clock: now() = the scripted instant (a plain datetime)."""

    @classmethod
    def now(cls, tz=None):
        t = _CLOCK["cur"]
        _CLOCK["cur"] = t + _CLOCK["tick"]
        _CLOCK["calls"] += 1
        _CLOCK["edge"] += t.second == 59 and t.microsecond >= 500000     # rounding carries into the next minute
        return t

    @classmethod
    def utcnow(cls):
        return cls.now()


def clock_stats():
    """(number of now() calls answered by the controlled clock, how many of them fell into hh:mm:59.5 .. 59.999999)"""
    return _CLOCK["calls"], _CLOCK["edge"]


def clock_instant(spec, k):
    """the instant at which poll k of a history under clock `spec` starts"""
    return _dt.datetime.fromisoformat(spec["start"]) + _dt.timedelta(seconds=spec.get("poll_s", 0) * k)


def _clock_install(spec):
    import maestrowf.conductor as cm
    import maestrowf.datastructures.core.executiongraph as eg
    saved = (eg.datetime, cm.datetime)
    _CLOCK["cur"] = clock_instant(spec, 0)
    _CLOCK["tick"] = _dt.timedelta(microseconds=spec.get("tick_us", 0))
    eg.datetime = ScriptedDatetime
    cm.datetime = ScriptedDatetime
    return saved


def _clock_restore(saved):
    import maestrowf.conductor as cm
    import maestrowf.datastructures.core.executiongraph as eg
    eg.datetime, cm.datetime = saved
    _CLOCK["cur"] = None


class _StopHistory(Exception):
    pass


def _drive_conductor(dag, case, root, make_pin, record):
    """Run the REAL Conductor.monitor_study loop over the scripted scheduler.  The
    poll boundary is the loop's sleep() call: the hook closes the poll that just
    ran and prepares the next one (a cancel request = the .cancel.lock file the
    loop looks for, created through the real Conductor.mark_cancelled)."""
    import maestrowf.conductor as cm
    from maestrowf.conductor import Conductor

    class _Study(object):
        name = "study"
        output_path = root

    cond = Conductor.__new__(Conductor)
    cond._study = _Study()
    cond._exec_dag = dag
    cond._pkl_path = root
    cond._setup = True
    cond.sleep_time = 1
    cur = {"pin": None}

    def begin():
        cur["pin"] = make_pin()
        if cur["pin"]["cancel"]:
            Conductor.mark_cancelled(root)

    def hook(_t):
        if not record(cur["pin"], "RUNNING"):
            raise _StopHistory()
        begin()

    saved = cm.sleep
    cm.sleep = hook
    try:
        begin()
        try:
            st = cond.monitor_study()
            record(cur["pin"], st.name)
        except _StopHistory:
            pass
        except RuntimeError as e:
            record(cur["pin"], "ABORT" if "Job status check failed" in str(e) else "EXC:RuntimeError")
        except Exception as e:
            case["exc"] = repr(e)[:300]
            record(cur["pin"], "EXC:" + type(e).__name__)
    finally:
        cm.sleep = saved
    case["via_conductor"] = True


def run_history(nodes, cfg, rng, profile="mixed", max_polls=14, cancel_p=0.04, qerr_p=0.015, qnojobs_p=0.06,
                sub_ok_p=0.85, fair_after=None, scripted_pins=None, root=None, fair_bound=None,
                after_poll=None, chooser=None, enum=None, via_conductor=False, shown=None, staged=None,
                clock=None):
    """Run one history against the real ExecutionGraph.  Returns a case dict:
    nodes, cfg, polls=[{pin..., events, rows, status}], end = 'final'|'running'|'exc'."""
    global CTX
    _setup()
    root = root or os.path.join(common.WORK, "exec_ws", "h%d" % os.getpid())
    shutil.rmtree(root, ignore_errors=True)
    os.makedirs(root, exist_ok=True)
    n = len(nodes)
    c = Ctx(nodes, rng, profile, scripted_pins)
    c.chooser, c.enum = chooser, enum
    CTX = c
    case = {"nodes": nodes, "cfg": cfg, "profile": profile, "polls": [], "end": "running"}
    if clock is None:
        if scripted_pins is not None:
            clock = scripted_pins[0].get("clock") if scripted_pins else None
        elif CLOCK_POLICY is not None:
            clock = CLOCK_POLICY()
    if clock:
        case["clock"] = clock
    try:
        dag = build_dag(nodes, cfg, root) if staged is None else staged_dag(c, staged, root)
    except Exception as e:
        case["end"] = "exc"
        case["exc"] = "build:" + type(e).__name__ + ":" + str(e)[:200]
        return case
    state = {"k": 0, "cancelled_once": False,
             "limit": max_polls if scripted_pins is None else len(scripted_pins)}

    def make_pin():
        k = state["k"]
        if scripted_pins is not None:
            sp = scripted_pins[k]
            pin = {"cancel": sp["cancel"], "q": sp["q"], "reports": [list(r) for r in sp["reports"]],
                   "subs": list(sp["subs"]), "cancel_ok": sp.get("cancel_ok", True)}
        elif chooser is not None:
            cancel = bool(enum.get("cancel")) and not state["cancelled_once"] and chooser.pick(2) == 1
            q = ["OK", "NOJOBS", "ERROR"][chooser.pick(3)] if enum.get("q") else "OK"
            pin = {"cancel": cancel, "q": q, "reports": [], "subs": []}
        else:
            c.fair = fair_after is not None and k >= fair_after
            cancel = (not c.fair) and (not state["cancelled_once"] or rng.random() < 0.2) and rng.random() < cancel_p
            r = rng.random()
            q = "OK"
            if not c.fair:
                if r < qerr_p:
                    q = "ERROR"
                elif r < qerr_p + qnojobs_p:
                    q = "NOJOBS"
            pin = {"cancel": cancel, "q": q, "reports": [],
                   "subs": [rng.random() < (0.97 if c.fair else sub_ok_p) for _ in range(rng.choice([0, 4, 8, 12]))]}
            if cancel:
                pin["cancel_ok"] = rng.random() < 0.7
        state["cancelled_once"] = state["cancelled_once"] or pin["cancel"]
        if clock:
            _CLOCK["cur"] = clock_instant(clock, k)
        c.pin = pin
        c.subs = list(pin["subs"])
        c.events = []
        return pin

    def record(pin, status):
        """close the current poll; returns True when the history goes on"""
        try:
            rows = rows_of(dag, n)
        except Exception as e:
            rows = []
            status = "EXC:rows:" + type(e).__name__
        poll = dict(pin)
        poll.update({"events": c.events, "rows": rows, "status": status})
        if SHOWN if shown is None else shown:
            poll["shown"] = shown_rows(dag, root, n)
        case["polls"].append(poll)
        if after_poll is not None:
            after_poll(dag, case, state["k"])
        state["k"] += 1
        if status != "RUNNING":
            case["end"] = "exc" if status.startswith("EXC") else "final"
            return False
        if scripted_pins is None and fair_after is not None and state["k"] >= state["limit"] and fair_bound \
                and state["k"] < fair_bound:
            state["limit"] = fair_bound
        return state["k"] < state["limit"]

    saved_clock = _clock_install(clock) if clock else None
    try:
        if via_conductor:
            _drive_conductor(dag, case, root, make_pin, record)
        else:
            while state["k"] < state["limit"]:
                pin = make_pin()
                status = None
                try:
                    if pin["cancel"]:
                        dag.cancel_study()
                    status = dag.execute_ready_steps().name
                except RuntimeError as e:
                    status = "ABORT" if "Job status check failed" in str(e) else "EXC:RuntimeError"
                except Exception as e:
                    status = "EXC:" + type(e).__name__
                    case["exc"] = repr(e)[:300]
                if not record(pin, status):
                    break
    finally:
        if saved_clock:
            _clock_restore(saved_clock)
    try:
        dag.cleanup()
    except Exception:
        pass
    shutil.rmtree(root, ignore_errors=True)
    return case


# ----------------------------------------------------------------------------
# Gallina rendering
# ----------------------------------------------------------------------------
G = common


def g_nodes(nodes):
    return G.g_list([
        "{| parents := %s; children := %s; scheduled := %s; has_restart := %s; rlimit := %d |}" % (
            G.g_list(map(str, nd["parents"])), G.g_list(map(str, nd["children"])),
            G.g_bool(nd["scheduled"]), G.g_bool(nd["has_restart"]), nd["rlimit"]) for nd in nodes])


def g_cfg(cfg):
    return "{| throttle := %d; attempts := %d; dry := %s |}" % (cfg["throttle"], cfg["attempts"], G.g_bool(cfg["dry"]))


def g_pin(p):
    reps = G.g_list("(%d, %s)" % (x, "None" if v is None else "Some " + v) for x, v in p["reports"])
    return "{| cancel_req := %s; qcode := Q%s; reports := %s; psubs := %s |}" % (
        G.g_bool(p["cancel"]), p["q"], reps, G.g_list(G.g_bool(b) for b in p["subs"]))


def g_event(e):
    if e[0] == "gen":
        return "EGen %d" % e[1]
    if e[0] == "check":
        return "ECheck %s" % G.g_list(map(str, e[1]))
    if e[0] == "cancel":
        return "ECancel %s" % G.g_list(map(str, e[1]))
    _, x, kind, sched, j = e
    return "ESubmit %d %s %s %s" % (x, kind, G.g_bool(sched), "None" if j is None else "(Some %d)" % j)


SSTAT = {"FINISHED": "SFINISHED", "RUNNING": "SRUNNING", "FAILURE": "SFAILURE", "CANCELLED": "SCANCELLED",
         "ABORT": "SABORT"}


def g_obs(p):
    rows = G.g_list("(%s, %s, %d)" % (r[0], G.g_list(map(str, r[1])), r[2]) for r in p["rows"])
    return "(%s, %s, %s)" % (G.g_list(g_event(e) for e in p["events"]), rows, SSTAT[p["status"]])


def representable(case):
    """EXC statuses (implementation crashed) cannot be written as a model
    observation; such a case is a mismatch by itself."""
    return case["end"] != "exc" and all(p["status"] in SSTAT for p in case["polls"]) and \
        all(r[0] in STATES for p in case["polls"] for r in p["rows"])


def g_case(case):
    return "{| e_cfg := %s; e_g := %s; e_pins := %s; e_obs := %s |}" % (
        g_cfg(case["cfg"]), g_nodes(case["nodes"]),
        G.g_list(g_pin(p) for p in case["polls"]), G.g_list(g_obs(p) for p in case["polls"]))


HEADER = "From MWF Require Import Exec.ExecBase Exec.ExecGen Exec.ExecRun Exec.ExecTrace Exec.ExecCases."


def pins_of(case):
    pins = [dict({"cancel": p["cancel"], "q": p["q"], "reports": p["reports"], "subs": p["subs"]},
                 **({"cancel_ok": False} if not p.get("cancel_ok", True) else {})) for p in case["polls"]]
    if case.get("clock") and pins:
        pins[0]["clock"] = case["clock"]       # the controlled clock of the history travels with its poll inputs
    return pins

"""Shared machinery of the maestrowf verification checks.

Everything a per-property module needs: locations, the Coq build driver, the
audit, the in-Coq case evaluator (cases.v + vm_compute), Gallina literal
printers, the known-findings file, the verdict protocol and the evidence
writer.  See /verif/DESIGN.md section 2.
"""
import fcntl
import json
import os
import re
import shutil
import subprocess
import sys
import time

VERIF = os.path.dirname(os.path.dirname(os.path.abspath(__file__)))
REPO = os.environ.get("VERIF_REPO", "/repo")
COQ = os.path.join(VERIF, "coq")
THEORIES = os.path.join(COQ, "theories")
WORK = os.path.join(VERIF, "_work")
EVIDENCE = os.path.join(VERIF, "evidence")
REPLAYS = os.path.join(VERIF, "replays")
CORPUS = os.path.join(VERIF, "corpus")
KNOWN = os.path.join(VERIF, "KNOWN_FINDINGS.txt")
NCPU = os.cpu_count() or 8

TRUSTED_BASE = [
    "Coq 8.16.1 kernel and vm_compute (no native_compute, no extraction); coqchk -o in the thorough tier: the only library axiom in the loaded context is Coq.Logic.Eqdep.Eq_rect_eq.eq_rect_eq (via CoqHammer's Tactics imported by Exec/ExecLedger4.v); no theorem depends on it",
    "no axioms declared by the development; Print Assumptions of every property theorem is parsed on every run (all 'Closed under the global context'); whole-tree audit for Admitted/admit/Axiom/Parameter/Conjecture/unset checks/Variable outside sections",
    "translators translate/tdata_*.py and translate/tcode_exec.py (Python ast/json on the source text, fail-closed; a translator failing closed is reported as a broken obligation) -- validated by the correspondence run, not verified",
    "harness: scripted scheduler / process stubs / fake flux module / sub-process launcher stubbing time.sleep, generators, canonicalisers, Gallina literal printer, coqc output parser",
    "CPython 3.12, re, jsonschema, yaml, dill, filelock, rich, subprocess, OS file system/process layer: exercised, not modelled",
    "the Gallina models are hand-written or regenerated models of the anchored maestrowf code; the theorems are about the models; the tie is T-data/T-code regeneration plus the differential correspondence check evaluated inside Coq on every invocation (DESIGN.md 10.1, 10.6)",
]


# ----------------------------------------------------------------------------
# Gallina literal printers
# ----------------------------------------------------------------------------
def g_bool(b):
    return "true" if b else "false"


def g_nat(n):
    assert isinstance(n, int) and n >= 0
    assert n < 5000, "nat literal too large: %r" % (n,)
    return str(n)


def g_N(n):
    assert isinstance(n, int) and n >= 0
    return "%d%%N" % n


def g_Z(n):
    return "(%d)%%Z" % n


def g_list(items):
    return "[" + "; ".join(items) + "]"


def g_opt(x, f=lambda v: v):
    return "None" if x is None else "(Some %s)" % f(x)


def g_pair(a, b):
    return "(%s, %s)" % (a, b)


def g_str(s):
    """A python str as `list N` via the total decoder `Str.s` on a Coq string
    literal when it is plain printable ASCII, else an explicit code-point list."""
    if all(32 <= ord(c) < 127 and c != '"' for c in s):
        return '(s "%s")' % s
    return "[" + "; ".join("%d%%N" % ord(c) for c in s) + "]"


# ----------------------------------------------------------------------------
# Coq build
# ----------------------------------------------------------------------------
class CoqLock:
    def __enter__(self):
        os.makedirs(WORK, exist_ok=True)
        self.f = open(os.path.join(WORK, ".coqlock"), "w")
        fcntl.flock(self.f, fcntl.LOCK_EX)
        return self

    def __exit__(self, *a):
        fcntl.flock(self.f, fcntl.LOCK_UN)
        self.f.close()


def sh(cmd, timeout=1800, cwd=None, env=None):
    p = subprocess.run(cmd, shell=isinstance(cmd, str), cwd=cwd, env=env,
                       stdout=subprocess.PIPE, stderr=subprocess.STDOUT,
                       timeout=timeout, text=True, errors="replace")
    return p.returncode, p.stdout


def write_if_changed(path, text):
    try:
        with open(path) as f:
            if f.read() == text:
                return False
    except OSError:
        pass
    os.makedirs(os.path.dirname(path), exist_ok=True)
    tmp = "%s.tmp%d" % (path, os.getpid())      # atomic: other checks may be compiling this file right now
    with open(tmp, "w") as f:
        f.write(text)
    os.replace(tmp, path)
    return True


def coq_project_text():
    files = []
    for root, _, fns in os.walk(THEORIES):
        for fn in fns:
            if fn.endswith(".v"):
                files.append(os.path.relpath(os.path.join(root, fn), COQ))
    head = ["-Q theories MWF",
            "-arg -w -arg -notation-overridden,-deprecated-hint-without-locality,-deprecated-instance-without-locality,-deprecated-syntactic-definition"]
    return "\n".join(head + sorted(files)) + "\n"


def coq_makefile():
    """_CoqProject lists every .v under theories/ (regenerated from disk);
    (re)generate coq/Makefile when it changed or the Makefile is missing."""
    mk = os.path.join(COQ, "Makefile")
    cp = os.path.join(COQ, "_CoqProject")
    changed = write_if_changed(cp, coq_project_text())
    if changed or not os.path.exists(mk) or not os.path.exists(mk + ".conf"):
        rc, out = sh("coq_makefile -f _CoqProject -o Makefile", cwd=COQ)
        if rc != 0:
            raise RuntimeError("coq_makefile failed:\n" + out)


def coq_make(targets, timeout=3000):
    """Full .vo build of the given targets (paths relative to coq/)."""
    with CoqLock():
        coq_makefile()
        try:
            rc, out = sh(["timeout", str(timeout), "make", "-j%d" % NCPU] + list(targets),
                         cwd=COQ, timeout=timeout + 60)
        except subprocess.TimeoutExpired:
            return False, "make timed out"
    return rc == 0, out


def coqc_file(path, timeout=900, extra_Q=()):
    """Compile one .v file outside the make tree (cases, Props re-print)."""
    cmd = ["timeout", str(timeout), "coqc", "-Q", THEORIES, "MWF"]
    for d, n in extra_Q:
        cmd += ["-Q", d, n]
    cmd.append(path)
    try:
        rc, out = sh(cmd, cwd=os.path.dirname(path), timeout=timeout + 30)
    except subprocess.TimeoutExpired:
        return 124, "coqc timed out"
    return rc, out


_AUDIT_WORDS = [r"Admitted", r"admit", r"Admit\s+Obligations", r"Axiom", r"Axioms",
                r"Parameter", r"Parameters", r"Conjecture", r"Conjectures",
                r"Unset\s+Guard\s+Checking", r"bypass_check", r"type-in-type",
                r"impredicative-set", r"Unset\s+Positivity\s+Checking",
                r"Unset\s+Universe\s+Checking", r"native_compute"]


def strip_coq_comments(text):
    out, depth, i, n = [], 0, 0, len(text)
    in_str = False
    while i < n:
        if not in_str and text.startswith("(*", i):
            depth += 1
            i += 2
            continue
        if not in_str and depth and text.startswith("*)", i):
            depth -= 1
            i += 2
            continue
        c = text[i]
        if depth == 0:
            if c == '"':
                in_str = not in_str
            out.append(c)
        i += 1
    return "".join(out)


def audit_coq():
    """No Admitted/admit/Axiom/Parameter/... anywhere; Variable/Hypothesis only
    inside sections.  Returns a list of offending (file, line, word)."""
    bad = []
    for root, _, files in os.walk(COQ):
        for fn in files:
            if not fn.endswith(".v") and fn != "_CoqProject":
                continue
            p = os.path.join(root, fn)
            text = strip_coq_comments(open(p, errors="replace").read())
            # string literals may legitimately contain words: blank them
            text_ns = re.sub(r'"[^"]*"', '""', text)
            for w in _AUDIT_WORDS:
                for m in re.finditer(r"(?<![\w'.-])" + w + r"(?![\w'])", text_ns):
                    ln = text_ns.count("\n", 0, m.start()) + 1
                    bad.append((os.path.relpath(p, VERIF), ln, m.group(0)))
            depth = 0
            for ln, line in enumerate(text_ns.split("\n"), 1):
                if re.match(r"\s*Section\s+\w+", line):
                    depth += 1
                elif re.match(r"\s*End\s+\w+", line) and depth > 0:
                    depth -= 1
                elif depth == 0 and re.match(r"\s*(Variable|Variables|Hypothesis|Hypotheses|Context)\b", line):
                    bad.append((os.path.relpath(p, VERIF), ln, line.strip().split()[0] + " outside section"))
    return bad


AXIOM_WHITELIST = {
    # stdlib axioms we would accept if they ever appear (none expected)
    "Coq.Logic.FunctionalExtensionality.functional_extensionality_dep",
    "functional_extensionality_dep",
    "Eqdep.Eq_rect_eq.eq_rect_eq", "Coq.Logic.Eqdep.Eq_rect_eq.eq_rect_eq",
    "JMeq.JMeq_eq", "Coq.Logic.JMeq.JMeq_eq",
}


def parse_assumptions(out):
    """Parse the output of a Props file: a sequence of Print Assumptions
    answers.  Returns (n_closed, [(axiom names) per non-closed answer])."""
    closed = len(re.findall(r"Closed under the global context", out))
    open_blocks = []
    for m in re.finditer(r"Axioms:\n((?:.+\n?)+?)(?:\n|\Z)", out):
        names = re.findall(r"^(\S+)\s*:", m.group(1), re.M)
        open_blocks.append(names)
    return closed, open_blocks


def count_theorems(vfile):
    text = strip_coq_comments(open(vfile).read())
    names = re.findall(r"^\s*(?:Theorem|Lemma|Corollary)\s+([\w']+)", text, re.M)
    printed = re.findall(r"^\s*Print\s+Assumptions\s+([\w'.]+)\s*\.", text, re.M)
    # an Example whose assumptions are printed is an obligation too (obligations = discharged answers)
    examples = re.findall(r"^\s*(?:Example|Fact|Remark|Proposition)\s+([\w']+)", text, re.M)
    names = names + [e for e in examples if e in printed and e not in names]
    return names, printed


# ----------------------------------------------------------------------------
# In-Coq evaluation of cases
# ----------------------------------------------------------------------------
def _parse_nat_list(out):
    m = re.search(r"=\s*(\[[^\]]*\]|nil)\s*:\s*list nat", out, re.S)
    if not m:
        return None
    body = m.group(1)
    if body == "nil":
        return []
    body = body.strip()[1:-1].strip()
    if not body:
        return []
    return [int(x) for x in re.split(r"\s*;\s*", body)]


_BUILT = {}


def ensure_built(header):
    """The cases files import compiled model libraries: (re)build exactly those
    (and what they depend on) from the current sources first, so that a model
    regenerated from /repo's current source is what gets evaluated.  Returns an
    error text or None."""
    mods = []
    for m in re.finditer(r"From\s+MWF\s+Require\s+(?:Import|Export)\s+(.*?)\.(?=\s|$)", header, re.S):
        mods += m.group(1).split()
    targets = tuple(sorted(set("theories/" + m.replace(".", "/") + ".vo" for m in mods)))
    if not targets:
        return None
    if targets in _BUILT:
        return _BUILT[targets]
    ok, out = coq_make(list(targets))
    _BUILT[targets] = None if ok else "building the model libraries %s failed:\n%s" % (" ".join(targets), out[-3000:])
    return _BUILT[targets]


def _case_dir(tag):
    """A fresh directory for generated cases files, private to this process: two runs of the same check at the
    same time (a seed run beside a full pass) must not delete each other's files.  Directories left by processes
    that no longer exist are removed."""
    os.makedirs(WORK, exist_ok=True)
    for n in os.listdir(WORK):
        m = re.fullmatch(re.escape(tag) + r"\.(\d+)", n)
        if m and not os.path.exists("/proc/" + m.group(1)):
            shutil.rmtree(os.path.join(WORK, n), ignore_errors=True)
    d = os.path.join(WORK, "%s.%d" % (tag, os.getpid()))
    shutil.rmtree(d, ignore_errors=True)
    os.makedirs(d)
    return d


def coq_failing(tag, header, ty, fn, cases, shard=400, timeout=900):
    """Evaluate the boolean Gallina function `fn : ty -> bool` on every case
    (Gallina literal text) inside Coq and return (bad_indices, errors).
    `header` holds the Require lines and any local definitions."""
    d = _case_dir(tag)
    err = ensure_built(header)
    if err:
        return [], [("model libraries", err)]
    files = []
    for k in range(0, len(cases), shard):
        chunk = cases[k:k + shard]
        name = "cases_%d" % (k // shard)
        path = os.path.join(d, name + ".v")
        with open(path, "w") as f:
            f.write(header + "\n")
            f.write("From MWF Require Import Base.Util.\n")
            f.write("Definition the_cases : list (%s) := [\n" % ty)
            f.write(";\n".join("  " + c for c in chunk))
            f.write("\n].\n")
            f.write("Definition the_result := failing (%s) the_cases.\n" % fn)
            f.write("Eval vm_compute in the_result.\n")
        files.append((k, path))
    bad, errors = [], []
    from concurrent.futures import ThreadPoolExecutor
    with ThreadPoolExecutor(max_workers=NCPU) as ex:
        outs = list(ex.map(lambda kp: coqc_file(kp[1], timeout=timeout), files))
    for (k, path), (rc, out) in zip(files, outs):
        idx = _parse_nat_list(out) if rc == 0 else None
        if idx is None:
            errors.append((path, out[-3000:]))
        else:
            bad.extend(k + i for i in idx)
    if not errors:
        shutil.rmtree(d, ignore_errors=True)
    return sorted(bad), errors


def coq_eval(tag, header, expr, timeout=300):
    """Evaluate one Gallina expression with vm_compute and return Coq's text."""
    d = os.path.join(WORK, "%s.%d" % (tag, os.getpid()))
    os.makedirs(d, exist_ok=True)
    err = ensure_built(header)
    if err:
        return err
    path = os.path.join(d, "eval_%d.v" % (abs(hash(expr)) % 10**9))
    with open(path, "w") as f:
        f.write(header + "\nEval vm_compute in (%s).\n" % expr)
    rc, out = coqc_file(path, timeout=timeout)
    return out.strip()


# ----------------------------------------------------------------------------
# Known findings
# ----------------------------------------------------------------------------
def load_known(pid):
    """known: property=C10 id=K1a signature=<name> witness=<path> what=<text>"""
    res = []
    if not os.path.exists(KNOWN):
        return res
    for line in open(KNOWN):
        line = line.strip()
        if not line.startswith("known:"):
            continue
        d = {}
        m = re.search(r"\bwhat=(.*)$", line)
        if m:
            d["what"] = m.group(1)
            line = line[:m.start()]
        for k, v in re.findall(r"(\w+)=(\S+)", line):
            d[k] = v
        if d.get("property") == pid:
            res.append(d)
    return res


# ----------------------------------------------------------------------------
# Verdict protocol + evidence
# ----------------------------------------------------------------------------
class Check:
    def __init__(self, pid, tier, seed):
        self.pid, self.tier, self.seed = pid, tier, seed
        self.t0 = time.time()
        self.cov = {"obligations": 0, "discharged": 0, "checker_cmd": "",
                    "trusted_base": list(TRUSTED_BASE), "evaluations": 0,
                    "distinct_nontrivial": 0, "rule": "", "samples": [],
                    "traces_validated_against_impl": 0}
        self.assumptions = []
        self.proof_failures = []     # (what, text)
        self.corr_failures = []      # (what, case json, detail)
        self.concrete = []           # (what, case json)  real violations
        self.known_hits = {}         # id -> what
        self.known = load_known(pid)
        self.notes = {}
        self._distinct = set()

    # ---- proof side --------------------------------------------------------
    def build_proofs(self, props=None, extra_targets=()):
        props = props or self.pid
        vfile = os.path.join(THEORIES, "Props", props + ".v")
        names, printed = count_theorems(vfile)
        self.cov["obligations"] += len(names)
        self.cov["checker_cmd"] = (
            "cd /verif/coq && make -j16 theories/Props/%s.vo && coqc -Q theories MWF theories/Props/%s.v "
            "(full .vo build; Print Assumptions parsed; audit for Admitted/Axiom/...)" % (props, props))
        self.notes.setdefault("theorems", []).extend(names)
        missing = [n for n in names if n not in printed]
        if missing:
            self.proof_failures.append(("Print Assumptions missing for " + ",".join(missing), ""))
        ok, out = coq_make(["theories/Props/%s.vo" % props] + list(extra_targets))
        if not ok:
            self.proof_failures.append(("coq build of Props/%s.vo failed" % props, out[-4000:]))
            return False
        with CoqLock():
            rc, out = coqc_file(vfile)
        if rc != 0:
            self.proof_failures.append(("coqc Props/%s.v failed" % props, out[-4000:]))
            return False
        closed, opened = parse_assumptions(out)
        okopen = 0
        for names_ in opened:
            badax = [a for a in names_ if a not in AXIOM_WHITELIST]
            if badax:
                self.proof_failures.append(("theorem depends on non-whitelisted axioms", ",".join(badax)))
            else:
                okopen += 1
                self.assumptions.append("stdlib axioms used: " + ",".join(names_))
        self.cov["discharged"] += closed + okopen
        self.notes["print_assumptions_closed"] = self.notes.get("print_assumptions_closed", 0) + closed
        if closed + okopen < len(names):
            self.proof_failures.append(("only %d of %d theorems reported their assumptions" % (closed + okopen, len(names)), out[-2000:]))
        bad = audit_coq()
        if bad:
            self.proof_failures.append(("audit: forbidden vernacular", json.dumps(bad[:20])))
        self.notes["audit_clean"] = not bad
        if self.tier == "thorough" and os.environ.get("VERIF_COQCHK", "1") == "1":
            self.coqchk(props)
        return not self.proof_failures

    def coqchk(self, props):
        with CoqLock():
            try:
                rc, out = sh(["timeout", "1500", "coqchk", "-silent", "-o", "-Q", "theories", "MWF",
                              "MWF.Props." + props], cwd=COQ, timeout=1600)
            except subprocess.TimeoutExpired:
                rc, out = 124, "coqchk timed out"
        self.notes["coqchk_rc"] = rc
        self.notes["coqchk_tail"] = out[-1500:]
        if rc != 0:
            self.proof_failures.append(("coqchk failed on Props." + props, out[-3000:]))

    # ---- correspondence side ----------------------------------------------
    def count(self, key, nontrivial=True, n=1):
        self.cov["evaluations"] += n
        if nontrivial:
            self._distinct.add(key)

    def sample(self, obj, limit=4):
        if len(self.cov["samples"]) < limit:
            self.cov["samples"].append(obj)

    def mismatch(self, what, case, detail=""):
        self.corr_failures.append((what, case, detail))

    def violation(self, what, case):
        """A concrete input on which the implementation violates the property."""
        self.concrete.append((what, case))

    def known_hit(self, kid, what):
        self.known_hits[kid] = what

    # ---- end ---------------------------------------------------------------
    def _write_replay(self, name, obj):
        os.makedirs(REPLAYS, exist_ok=True)
        path = os.path.join(REPLAYS, "%s_%s.json" % (self.pid, name))
        with open(path, "w") as f:
            json.dump(obj, f, indent=1, default=str)
        return path

    def finish(self, search=None):
        """Decide, print, write evidence, return the exit code."""
        lines = []
        rc = 0
        for kid, what in sorted(self.known_hits.items()):
            lines.append("KNOWN-FINDING: property=%s %s %s" % (self.pid, kid, what))
        if self.concrete:
            rc = 1
            what, case = self.concrete[0]
            path = self._write_replay("violation", {"property": self.pid, "kind": "concrete-failing-input",
                                                    "what": what, "case": case, "seed": self.seed,
                                                    "others": [w for w, _ in self.concrete[1:10]]})
            lines.append("VIOLATION property=%s replay=%s" % (self.pid, path))
        elif self.proof_failures or self.corr_failures:
            rc = 1
            found = None
            if search is not None:
                try:
                    found = search()
                except Exception as e:  # search is best effort
                    self.notes["search_error"] = repr(e)
            if found is not None:
                what, case = found
                path = self._write_replay("violation", {"property": self.pid, "kind": "concrete-failing-input",
                                                        "what": what, "case": case, "seed": self.seed,
                                                        "broken": [w for w, _ in self.proof_failures] +
                                                                  [w for w, _, _ in self.corr_failures][:10]})
                lines.append("VIOLATION property=%s replay=%s" % (self.pid, path))
            else:
                path = self._write_replay("broken", {
                    "property": self.pid, "kind": "broken-proof-or-correspondence",
                    "proof_obligations_failed": [{"what": w, "coq": t} for w, t in self.proof_failures],
                    "correspondence_failed": [{"what": w, "case": c, "detail": d} for w, c, d in self.corr_failures[:10]],
                    "seed": self.seed})
                lines.append("VIOLATION property=%s replay=%s no-failing-input-found" % (self.pid, path))
        self.cov["distinct_nontrivial"] = len(self._distinct)
        ev = {"property_id": self.pid, "tier": self.tier, "seed": self.seed, "level": "proof",
              "coverage": dict(self.cov, **{"notes": self.notes}),
              "assumptions": self.assumptions, "wall_s": round(time.time() - self.t0, 2),
              "violations": len(self.concrete) + (1 if rc and not self.concrete else 0)}
        os.makedirs(EVIDENCE, exist_ok=True)
        with open(os.path.join(EVIDENCE, self.pid + ".json"), "w") as f:
            json.dump(ev, f, indent=1, default=str)
        for l in lines:
            print(l)
        print("%s %s tier=%s seed=%d obligations=%d discharged=%d evaluations=%d distinct=%d wall=%.1fs" % (
            self.pid, "FAIL" if rc else "ok", self.tier, self.seed, self.cov["obligations"],
            self.cov["discharged"], self.cov["evaluations"], self.cov["distinct_nontrivial"],
            time.time() - self.t0))
        sys.stdout.flush()
        return rc

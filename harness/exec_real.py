"""Execution histories through the REAL scheduler adapters (C01-C07 seam coverage).

harness/exec_harness.py drives the real ExecutionGraph / Conductor loop with a
SCRIPTED adapter, so the seam between the engine and the real adapters
(submit-output parsing, check_jobs -> per-step states, cancel, the
(scheduled, script, restart_script) contract of write_script) is only covered
adapter by adapter (C15 / C16 / C07 adapters).  Here the SAME histories run with

    the real SlurmScriptAdapter / LSFScriptAdapter set through dag.set_adapter
        (a thin recording subclass: every method is the inherited real one),
    real StudySteps with / without a restart command and with / without
        nodes / procs (scheduled or local is the REAL write_script decision),
    the real LocalScriptAdapter for local steps,

and only the PROCESS LAYER is scripted: the names `start_process` / `Popen` of the
adapter modules are replaced by a fake cluster (class Cluster) that

  (i)   answers sbatch / bsub with the documented acceptance text
        ("Submitted batch job <id>", on a multi-cluster Slurm "Submitted batch job
        <id> on cluster <name>"; "Job <<id>> is submitted to queue <q>." /
        "... to default queue <normal>.") or a non-zero exit,
  (ii)  answers squeue / sacct / bjobs by PRINTING the table for the scripted
        report of every queried job in the schedulers' documented format (printers of
        harness/props/c16.py), choosing a scheduler state code the documentation maps
        to the wanted Maestro state, and the exit codes that produce NOJOBS / ERROR,
        the NAME column of squeue / sacct is the job name the scheduler was GIVEN: the
        `#SBATCH --job-name=` (`#BSUB -J`) line of the script file handed to sbatch / bsub,
        unquoted the way sbatch does, cut to the column width of the format the adapter
        asks for (squeue %.8j: 8, no mark; sacct jobname: 10, a longer name ends in '+') and
        printed verbatim -- blanks included.  Step names carry blanks, runs of blanks,
        quotes, parentheses and long tails (gen_opts "names"), so a header that stops
        neutralising the name shifts the white-space separated columns the adapter reads,
        in a quarter of the histories an ACCEPTED submission also prints informational lines on
        stderr, or on stdout before / after the acceptance line (gen_opts "chatter"),
  (iii) answers scancel / bkill,
  (iv)  "executes" a local script (exit code = the scripted submission outcome).

The recorded case has the SAME format as exec_harness.run_history (pins, events,
rows, status), so it is compared with the Exec model and judged by the trace monitor
unchanged.  The events are what the fake cluster SAW: the script path on the
sbatch / bsub command line gives the node and Main / Restart, the scancel / bkill
command line gives the cancelled ids; a submission the cluster ACCEPTED although
Maestro recorded a failure (or another id) is kept in case["orphans"] and reported
as case["real_violation"].

    PYTHONPATH=/repo:/verif /venv/bin/python -m harness.exec_real --selftest 300 --seed 0
    PYTHONPATH=/repo:/verif /venv/bin/python -m harness.exec_real --replay replays/C03_violation.json
"""
import glob
import json
import os
import random
import re
import shlex
import shutil
import sys

from harness import common
from harness import exec_harness as H
from harness.props import c16 as P      # printers print_sq / print_sa / print_bj and FakeProc (read-only)

BACKENDS = ("slurm", "lsf")
CORPUS_DIR = os.path.join(common.CORPUS, "exec_real")

# ----------------------------------------------------------------------------
# documented scheduler state codes per wanted Maestro state (squeue(1) / sacct(1) JOB STATE
# CODES, bjobs(1) STAT + EXIT_REASON) -- written down here, NOT read from the adapters: an adapter
# table that changes shows up as a model / implementation disagreement
# ----------------------------------------------------------------------------
SLURM_SQ = {
    "RUNNING": ["R", "R", "R", "R", "S", "ST", "RS", "SI"],
    "PENDING": ["PD", "PD", "PD", "PD", "CF", "RQ", "RH", "RF", "RD", "SE"],
    "FINISHING": ["CG", "CG", "SO"],
    "FINISHED": ["CD"],
    "HWFAILURE": ["NF"],
    "TIMEDOUT": ["TO"],
    "FAILED": ["F"],
    "CANCELLED": ["CA"],
    "UNKNOWN": ["BF", "DL", "OOM", "PR", "RV"],
}
# sacct's State column is 10 wide: longer names are cut and end in '+'
SLURM_SA = {
    "RUNNING": ["RUNNING", "RUNNING", "SUSPENDED", "RESIZING"],
    "PENDING": ["PENDING", "PENDING", "REQUEUED"],
    "FINISHED": ["COMPLETED"],
    "HWFAILURE": ["NODE_FAIL"],
    "TIMEDOUT": ["TIMEOUT"],
    "FAILED": ["FAILED"],
    "CANCELLED": ["CANCELLED", "CANCELLED+", "CANCELLED by"],
    "UNKNOWN": ["BOOT_FAIL", "DEADLINE", "OUT_OF_ME+", "PREEMPTED", "REVOKED"],
}
LSF_ST = {
    "RUNNING": [("RUN", "-", "-")] * 4 + [("USUSP", "-", "-"), ("SSUSP", "-", "-")],
    "PENDING": [("PEND", "-", "-")] * 3 + [("PSUSP", "-", "-")],
    "FINISHED": [("DONE", "-", "-")],
    "FAILED": [("EXIT", "1", "-"), ("EXIT", "2", "TERM_UNKNOWN: LSF cannot determine a termination reason"),
               ("EXIT", "137", "TERM_MEMLIMIT: job killed after reaching LSF memory usage limit"),
               ("EXIT", "130", "TERM_ADMIN: job killed by root or LSF administrator")],
    "TIMEDOUT": [("EXIT", "140", "TERM_RUNLIMIT: job killed after reaching LSF run time limit")],
    "CANCELLED": [("EXIT", "130", "TERM_OWNER: job killed by owner")],
    "WAITING": [("WAIT", "-", "-"), ("PROV", "-", "-")],
    "UNKNOWN": [("UNKWN", "-", "-"), ("ZOMBI", "-", "-")],
}
# report kinds of the generator that a back-end cannot express
REMAP = {
    "slurm": {"WAITING": "PENDING", "QUEUED": "PENDING", "INITIALIZED": "UNKNOWN", "INCOMPLETE": "UNKNOWN",
              "NOTFOUND": "UNKNOWN", "DRYRUN": "UNKNOWN"},
    "lsf": {"FINISHING": "RUNNING", "HWFAILURE": "TIMEDOUT", "QUEUED": "PENDING", "INITIALIZED": "UNKNOWN",
            "INCOMPLETE": "UNKNOWN", "NOTFOUND": "UNKNOWN", "DRYRUN": "UNKNOWN"},
}
TERMINAL = ("FINISHED", "FAILED", "TIMEDOUT", "HWFAILURE", "CANCELLED", "UNKNOWN")
EXT = {"slurm": "slurm.sh", "lsf": "lsf.sh"}

_READY = False
CL = None            # the fake cluster of the history being run
W = {}               # recording subclasses of the real adapters (built once)


def gen_opts(rng, backend):
    """What is scripted about the cluster and the study besides the poll inputs."""
    o = {"backend": backend, "seed": rng.randrange(1 << 30),
         "base_id": rng.choice([7, 96, 998, 4212, 99990, 1234567, 87654321]),
         "queue": rng.choice(["pbatch", "pdebug", "batch", "normal", "q2"]),
         "reservation": rng.choice(["", "", "", "", "dat1"]),
         "shell": rng.choice(["/bin/bash", "/bin/bash", "/bin/sh"]),
         # step names: what the YAML `name:` key may hold (any non-empty string); see step_name
         "names": rng.choice(["plain", "blank", "blank", "tab", "punct", "mixed", "mixed"])}
    # a quarter of the clusters talk: a SUCCESSFUL sbatch / bsub also prints harmless informational lines (job_submit
    # plugin / esub notices, default-queue warnings) on stderr, or on stdout before / after the acceptance line
    o["chatter"] = "none" if rng.random() < 0.75 else rng.choice(["stderr", "stderr", "stdout_before", "stdout_after", "all", "digits_before"])
    # the acceptance LINE may be missing although the job is accepted and its id printed: a site wrapper / alias running
    # `sbatch --parsable` prints "<id>" or "<id>;<cluster>"; the LSF analogue is a wrapper that echoes only the id
    o["acceptance"] = "parsable" if rng.random() < 0.12 else "standard"
    if backend == "slurm":
        # multi-cluster / federated Slurm (SLURM_CLUSTERS, -M): sbatch names the cluster in its answer
        o["federated"] = rng.random() < 0.3
        o["cluster"] = rng.choice(["alpha", "quartz", "c2", "ruby7"])
    else:
        o["default_queue"] = rng.random() < 0.3      # "Job <id> is submitted to default queue <normal>."
    return o


# ----------------------------------------------------------------------------
# the fake cluster
# ----------------------------------------------------------------------------
class Proc(P.FakeProc):
    def __init__(self, out, rc, text, pid=4242, err=""):
        P.FakeProc.__init__(self, out, rc, not text)
        self.pid = pid
        self.err = err
        self.stdout = self.stderr = None

    def communicate(self, *a, **k):
        if self.as_bytes:
            return self.out.encode("utf-8"), self.err.encode("utf-8")
        return self.out, self.err

    def kill(self):
        pass

    terminate = kill


# Step names are "n<i>" + a tail.  Blanks are what SlurmScriptAdapter.get_header / LSFScriptAdapter.get_header
# replace by '_' before the name reaches the scheduler; the other tails must pass through unharmed.
NAME_TAILS = {
    "plain": [""],
    "blank": ["", " sim", " a b", "  x", " run 1 of 2", " ", "_ok", " long step name", " s"],
    "punct": ["", "-a_long_step_name", ".v2", "(1)", "'q'", " (a;b)&", "=x", "%j", " $HOME", ",k"],
    # white space other than U+0020: before fix bee21ab the Slurm header kept it and the name column of squeue /
    # sacct then split in two (witness corpus/exec_real/slurm_tab_in_step_name.json)
    "tab": ["\tx", " a\tb", "\x0bv", "\xa0n", "\u2003w", "\x0cf"],
}
NAME_TAILS["mixed"] = NAME_TAILS["blank"] + NAME_TAILS["punct"] + NAME_TAILS["tab"]


def step_names(opts, n):
    """the step names of a history (a function of the cluster options, so a stored case replays)"""
    mode = opts.get("names", "plain")
    if isinstance(mode, list):          # explicit tails (witnesses)
        return ["n%d%s" % (i, mode[i % len(mode)]) for i in range(n)]
    rr = random.Random(opts["seed"] + 2)
    return ["n%d%s" % (i, rr.choice(NAME_TAILS[mode])) for i in range(n)]


def _node_in(text):
    m = re.match(r"n(\d+)(?!\d)", text)
    return int(m.group(1)) if m else None


def job_name_of(path, prog):
    """the job name the scheduler takes from the submitted script: the last `#SBATCH --job-name=` / `-J`
    (`#BSUB -J`) directive before the first command, unquoted like a shell word; default = the script's name"""
    name = os.path.basename(path)
    pat = (r"#SBATCH\s+(?:--job-name(?:=|\s+)|-J\s*)(.*)$" if prog == "sbatch" else r"#BSUB\s+-J\s*(.*)$")
    try:
        with open(path, encoding="utf-8", newline="\n") as f:
            for line in f:
                line = line.rstrip("\n")
                if line.strip() and not line.startswith("#"):
                    break
                m = re.match(pat, line)
                if m:
                    try:
                        words = shlex.split(m.group(1))
                    except ValueError:
                        words = [m.group(1)]
                    if words:
                        name = words[0]
    except OSError:
        pass
    return name


# What a scheduler may say besides the acceptance line when it ACCEPTS a job (exit 0, the job exists).
CHATTER = {
    "sbatch": {"stderr": ["sbatch: Warning: can't honor --ntasks-per-node, ignoring it",
                          "sbatch: lua: job routed to partition pbatch", "sbatch: Setting account: baasic"],
               "before": ["Checking allocation: ok"], "after": ["Use squeue --me to follow the job."],
               # a line with digits before the acceptance line (before fix a5e09c9 its first number became the job id)
               "digits_before": ["Estimated start in 15 min"]},
    "bsub": {"stderr": ["Job will be scheduled in the default queue.",
                        "Warning: run limit not specified; the queue default applies.", "esub: project <guests> charged"],
             "before": ["Using default project <guests>."], "after": ["Job will be dispatched when resources are available."],
             # the esub of several sites answers like this on stdout, before bsub's own line
             "digits_before": ["Memory reservation is (MB): 2048\nMemory Limit is (MB): 2048"]},
}


def _positional(args, valued):
    """the arguments of a command line that are neither options nor option values"""
    out, skip = [], False
    for t in args:
        if skip:
            skip = False
        elif t in valued:
            skip = True
        elif not t.startswith("-"):
            out.append(t)
    return out


STEP_STATE = {"FINISHED": "COMPLETED", "FAILED": "FAILED", "TIMEDOUT": "CANCELLED", "HWFAILURE": "CANCELLED",
              "CANCELLED": "CANCELLED", "UNKNOWN": "FAILED"}


class Cluster:
    def __init__(self, opts, ctx):
        self.opts = opts
        self.backend = opts["backend"]
        self.ctx = ctx                    # H.Ctx: nodes, rng (poll inputs), profile, scripted pins, fair, chooser
        self.rr = random.Random(opts["seed"])     # realisation choices (which code, which table, paddings)
        self.next_id = opts["base_id"]
        self.jobs = {}                    # cluster id -> {"x", "kind", "state" (last printed Maestro state or None)}
        self.order = []                   # cluster ids in order of acceptance
        self.num = {}                     # id text as MAESTRO holds it -> job number 0,1,2..
        self.job_node = {}                # job number -> node
        self.orphans = []
        self.violation = None
        self.events = []
        self.pin = None
        self.subs = []
        self.last = None                  # what the cluster saw of the submit call in progress
        self.cancel_seen = None           # id tokens of the cancel commands of the cancel call in progress
        self.plan = None                  # tables of the query in progress
        self.other = []                   # command lines nobody expected
        self.stats = {}                   # what kinds of answers were printed (evidence)

    def stat(self, k, n=1):
        self.stats[k] = self.stats.get(k, 0) + n

    # -- ids ---------------------------------------------------------------
    def fresh_id(self):
        self.next_id += self.rr.choice([1, 1, 1, 2, 3, 7, 40])
        return str(self.next_id)

    def number(self, key, x):
        if key not in self.num:
            self.num[key] = len(self.num)
            self.job_node[self.num[key]] = x
        return self.num[key]

    def nums(self, ids):
        return sorted(self.num.get(str(i), 900 + k) for k, i in enumerate(ids))

    def orphan(self, jid, what):
        self.orphans.append({"scheduler_id": jid, "node": self.jobs[jid]["x"], "poll": self.ctx.poll_no,
                             "answer": self.jobs[jid]["answer"].strip()})
        if self.violation is None:
            self.violation = what

    # -- submission outcome --------------------------------------------------
    def next_sub(self):
        c = self.ctx
        if c.chooser is not None and c.enum.get("subs"):
            ok = c.chooser.pick(2) == 0
            self.pin["subs"].append(ok)
            return ok
        return self.subs.pop(0) if self.subs else True

    # -- the process layer ----------------------------------------------------
    def handle(self, cmd, text, shell=True):
        try:
            # a string run without a shell is the program's path, blanks and all
            toks = [str(t) for t in cmd] if isinstance(cmd, (list, tuple)) else \
                (shlex.split(str(cmd)) if shell else [str(cmd)])
        except ValueError:
            toks = str(cmd).split()
        prog = os.path.basename(toks[0]) if toks else ""
        if prog == "sbatch":
            return self.do_submit(toks, _positional(toks[1:], ("-D", "--reservation", "--chdir", "-M", "--clusters"))[:1],
                                  text, "sbatch")
        if prog == "bsub":
            return self.do_submit(toks, toks[toks.index("<") + 1:][:1] if "<" in toks else [], text, "bsub")
        if prog == "squeue":
            return self.do_squeue(text)
        if prog == "sacct":
            return self.do_sacct(toks, text)
        if prog == "bjobs":
            return self.do_bjobs(text)
        if prog in ("scancel", "bkill"):
            args = [t for t in toks[1:] if not t.startswith("-")]
            if self.cancel_seen is None:
                self.cancel_seen = []
            self.cancel_seen.extend(args)
            ok = self.pin is None or self.pin.get("cancel_ok", True)
            return Proc("", 0 if ok else 1, text, err="" if ok else "%s: error: Invalid job id specified" % prog)
        if _node_in(prog) is not None and prog.endswith(".sh"):
            return self.do_local(toks[0], text)
        self.other.append(" ".join(toks))
        return Proc("", 127, text, err="%s: command not found" % prog)

    def script_info(self, toks, script, flag):
        """node and Main/Restart from the script path on the command line (the working directory
        option is the fallback when no script is named)"""
        path = script[0] if script else ""
        x = _node_in(os.path.basename(path))
        if x is None and flag in toks and toks.index(flag) + 1 < len(toks):
            x = _node_in(os.path.basename(toks[toks.index(flag) + 1].rstrip("/")))
        kind = "Restart" if ".restart." in os.path.basename(path) else "Main"
        return path, x, kind

    def do_submit(self, toks, script, text, prog):
        path, x, kind = self.script_info(toks, script, "-D" if prog == "sbatch" else "-cwd")
        self.last = {"prog": prog, "x": x, "kind": kind, "accepted": None, "path": path}
        if not path or not os.path.isfile(path):
            # sbatch without a script reads it from stdin ("Batch script is empty!"); `bsub < ` is a shell error
            self.last["noscript"] = True
            return Proc("", 1 if prog == "sbatch" else 2, text,
                        err="sbatch: error: Batch script is empty!" if prog == "sbatch" else "sh: syntax error")
        if not self.next_sub():
            msg = ("sbatch: error: Batch job submission failed: Socket timed out on send/recv operation"
                   if prog == "sbatch" else "Request aborted by esub. Job not submitted.")
            return Proc("", self.rr.choice([1, 1, 255]), text, err=msg)
        jid = self.fresh_id()
        if prog == "sbatch":
            out = "Submitted batch job %s" % jid
            if self.opts.get("federated"):
                out += " on cluster %s" % self.opts["cluster"]
        elif self.opts.get("default_queue"):
            out = "Job <%s> is submitted to default queue <%s>." % (jid, self.opts["queue"])
        else:
            out = "Job <%s> is submitted to queue <%s>." % (jid, self.opts["queue"])
        if self.opts.get("acceptance") == "parsable":
            out = jid + (";%s" % self.opts["cluster"] if prog == "sbatch" and self.opts.get("federated") else "")
        out += "\n"
        self.stat("accept:" + re.sub(r"[0-9]+", "N", re.sub(r"<[^0-9>]+>|cluster \S+", "_", out.strip())))
        name = job_name_of(path, prog)
        if re.search(r"\s", name):
            self.stat("job names with white space")
        self.jobs[jid] = {"x": x, "kind": kind, "state": "PENDING", "answer": out, "name": name}
        self.order.append(jid)
        self.last["accepted"] = jid
        err = ""
        mode = self.opts.get("chatter", "none")
        if mode == "digits_before" and self.opts.get("acceptance") == "parsable":
            mode = "stdout_before"      # a bare id after a line with a number is ambiguous for anybody: not generated
        if mode != "none" and self.rr.random() < 0.8:
            ch = CHATTER[prog]
            if mode in ("stderr", "all"):
                err = self.rr.choice(ch["stderr"]) + "\n"
            if mode in ("stdout_before", "digits_before"):
                out = self.rr.choice(ch["before" if mode == "stdout_before" else "digits_before"]) + "\n" + out
            if mode in ("stdout_after", "all"):
                out = out + self.rr.choice(ch["after"]) + "\n"
            self.stat("accepted with chatter:" + mode)
            self.jobs[jid]["answer"] = out + ("[stderr] " + err if err else "")
        return Proc(out, 0, text, err=err)

    def do_local(self, path, text):
        self.last = {"prog": "local", "x": _node_in(os.path.basename(path)), "accepted": None, "path": path,
                     "kind": "Restart" if ".restart." in os.path.basename(path) else "Main"}
        pid = int(self.fresh_id())
        if not self.next_sub():
            return Proc("", self.rr.choice([1, 2, 127]), text, pid=pid, err="n: command failed")
        self.last["accepted"] = str(pid)
        return Proc("ok\n", 0, text, pid=pid)

    # -- queries ---------------------------------------------------------------
    def begin_query(self, joblist):
        ids = [str(j) for j in joblist]
        nums = [self.num.get(i) for i in ids]
        self.events.append(["check", self.nums(ids)])
        c, pin = self.ctx, self.pin
        known = [n for n in nums if n is not None]
        want = {}                              # job number -> Maestro state the tables shall say (None: no row)
        if c.scripted is not None:
            node_job = {self.job_node[n]: n for n in known}
            for x, v in pin["reports"]:
                if x in node_job and node_job[x] not in want:
                    want[node_job[x]] = v
                else:
                    pin.setdefault("dropped", []).append([x, v])
        else:
            for n, v in H._gen_reports(c, sorted(known)):
                want[n] = v
        remap = REMAP[self.backend]
        eff = [(i, n, remap.get(want.get(n), want.get(n)) if n is not None else None) for i, n in zip(ids, nums)]
        q = pin["q"]
        # the poll input the model gets: what the printed tables say, in the order of the queried ids
        pin["reports"] = [[self.job_node[n], v] for _, n, v in eff if n is not None] if q == "OK" else []
        for i, n, v in eff:
            if i in self.jobs and q == "OK" and v is not None:
                self.jobs[i]["state"] = v
        self.plan = (self.plan_slurm if self.backend == "slurm" else self.plan_lsf)(q, eff)

    def old_rows(self, queried):
        """jobs of this user the engine does not ask about: finished ones the scheduler still lists, and the
        ones Maestro lost (they are alive)"""
        out = []
        lost = set(o["scheduler_id"] for o in self.orphans)
        for j in self.order:
            if j in queried:
                continue
            if j in lost:
                out.append((j, "RUNNING"))
            elif self.jobs[j]["state"] in TERMINAL and self.rr.random() < 0.3:
                out.append((j, self.jobs[j]["state"]))
        return out

    def name_of(self, jid):
        """the job name as submitted (the script's --job-name directive), verbatim"""
        return self.jobs.get(jid, {}).get("name") or "sbatch"

    def plan_slurm(self, q, eff):
        rr = self.rr
        ids = [i for i, _, _ in eff]
        stated = [(i, v) for i, _, v in eff if v is not None]
        sq_rc, sa_rc = 0, 0
        in_sq, in_sa = [], []
        if q == "OK":
            variant = "mixed"
            r = rr.random()
            if ids and r < 0.07 and all(v != "FINISHING" for _, v in stated):
                variant = "squeue_fails"          # squeue exits 1 / 127, sacct answers for everything: any OK wins
                sq_rc = rr.choice([1, 1, 127, 2])
            elif r < 0.17:
                variant = "sacct_fails"           # whatever squeue does not list stays unknown
                sa_rc = rr.choice([1, 127, 2])
            for i, v in stated:
                if variant == "squeue_fails":
                    in_sa.append((i, v))
                elif variant == "sacct_fails" or v == "FINISHING":
                    in_sq.append((i, v))
                else:
                    # finished jobs leave squeue after MinJobAge: terminal states come from sacct more often
                    p_sq = 0.35 if v in TERMINAL else 0.85
                    (in_sq if rr.random() < p_sq else in_sa).append((i, v))
            if variant != "squeue_fails":
                in_sq += self.old_rows(set(ids))
        elif q == "NOJOBS":
            sq_rc, sa_rc = 1, 1
        else:
            if ids:
                sq_rc, sa_rc = rr.choice([(127, 127), (2, 1), (1, 2), (255, 127), (1, 127), (2, 2)])
            else:
                sq_rc = rr.choice([127, 2, 255])
        if q == "OK":
            self.stat("slurm query:" + variant)
        self.stat("squeue rows", len(in_sq))
        self.stat("sacct rows (jobs)", len(in_sa))
        self.stat("slurm rc squeue=%d sacct=%d" % (sq_rc, sa_rc))
        # squeue --format='%.18i %.8j %.8u %.2t' : right justified, truncated columns
        lines = []
        rows = list(in_sq)
        rr.shuffle(rows)
        for j, v in rows:
            st = rr.choice(SLURM_SQ[v])
            nm, us = self.name_of(j)[:8], "builder"          # %.8j cuts at the width, no mark
            lines.append({"lead": " " * max(0, 18 - len(j)),
                          "toks": [[j, " " + " " * max(0, 8 - len(nm))], [nm, " " + " " * max(0, 8 - len(us))],
                                   [us, " " + " " * max(0, 2 - len(st))], [st, ""]]})
        lines.append({"blank": ""})
        hdr = "             JOBID     NAME     USER ST"
        if self.opts.get("federated") and self.opts["seed"] % 2:
            hdr = "CLUSTER: %s\n%s" % (self.opts["cluster"], hdr)
        sq = {"hdr": hdr, "lines": lines if sq_rc == 0 else []}
        # sacct --format=jobid,jobname,state,exitcode : JobID left justified (12), the others right justified
        salines = []
        for j, v in in_sa:
            st = rr.choice(SLURM_SA[v])
            more = []
            if st == "CANCELLED by":
                st, more = "CANCELLED", [["by", " "], [str(rr.randint(1000, 60000)), " "]]
            code = {"FINISHED": "0:0", "FAILED": "1:0", "TIMEDOUT": "0:15", "CANCELLED": "0:15"}.get(v, "0:0")
            steps = [(j, self.name_of(j), st)]
            if rr.random() < 0.6 and v not in ("PENDING",):
                # the job's steps have rows of their own (a timed-out job's batch step is CANCELLED)
                sst = STEP_STATE.get(v, "RUNNING")
                steps.append((j + ".batch", "batch", sst))
                if rr.random() < 0.5:
                    steps.append((j + ".extern", "extern", "COMPLETED" if v in TERMINAL else "RUNNING"))
                if rr.random() < 0.3:
                    steps.append((j + ".0", "echo", sst))
            for k, (rid, nm, s) in enumerate(steps):
                nm = nm if len(nm) <= 10 else nm[:9] + "+"      # sacct marks a cut field with '+'
                tail = more if k == 0 else []
                salines.append({"toks": [[rid, " " * max(1, 13 - len(rid)) + " " * max(0, 10 - len(nm))],
                                         [nm, " " + " " * max(0, 10 - len(s))], [s, " "]] + tail +
                                [[code, " "]]})
        salines.append({"blank": ""})
        sa = {"hdr1": "       JobID    JobName      State ExitCode ",
              "hdr2": "------------ ---------- ---------- -------- ", "lines": salines}
        return {"sq": sq, "sq_rc": sq_rc, "sa": sa, "sa_rc": sa_rc, "sa_ids": [j for j, _ in in_sa], "calls": []}

    def do_squeue(self, text):
        p = self.plan
        if p is None:
            return Proc("             JOBID     NAME     USER ST\n", 0, text)
        p["calls"].append("squeue")
        return Proc(P.print_sq(p["sq"]) if p["sq_rc"] == 0 else "", p["sq_rc"], text,
                    err="" if p["sq_rc"] == 0 else "squeue: error")

    def do_sacct(self, toks, text):
        p = self.plan
        asked = []
        for t in toks:
            m = re.match(r"--jobs=(.*)$", t)
            if m:
                asked = [a for a in m.group(1).split(",") if a]
        if p is None:
            return Proc("", 0, text)
        p["calls"].append("sacct")
        if p["sa_rc"] != 0:
            return Proc("", p["sa_rc"], text, err="sacct: error")
        # sacct lists the jobs it was asked about, nothing else
        sa = dict(p["sa"])
        sa["lines"] = [l for l in sa["lines"] if "blank" in l or l["toks"][0][0].split(".")[0] in asked]
        return Proc(P.print_sa(sa), 0, text)

    def plan_lsf(self, q, eff):
        rr = self.rr
        ids = [i for i, _, _ in eff]
        rc, raw = 0, None
        rows = []
        if q == "OK":
            rows = [(i, v) for i, _, v in eff if v is not None] + self.old_rows(set(ids))
            rr.shuffle(rows)
        elif q == "NOJOBS":
            rc, raw = rr.choice([(255, ""), (0, "No unfinished job found\n"), (0, "No job found\n")])
        else:
            rc, raw = rr.choice([1, 2, 127, -9, 3]), ""
        self.stat("bjobs rows", len(rows))
        self.stat("bjobs rc=%d%s" % (rc, " 'No ... job found'" if raw else ""))
        # bjobs -o "jobid:7 stat:5 exit_code:10 exit_reason:50 delimiter='|'" : left justified, padded
        lines = []
        for j, v in rows:
            st, ec, why = rr.choice(LSF_ST[v])
            lines.append({"fields": [["", j, " " * max(0, 7 - len(j))], ["", st, " " * max(0, 5 - len(st))],
                                     ["", ec, " " * max(0, 10 - len(ec))], ["", why, " " * max(0, 50 - len(why))]]})
        lines.append({"fields": [["", "", ""]]})
        bj = {"hdr": "JOBID  |STAT |EXIT_CODE |EXIT_REASON" + " " * 39, "lines": lines}
        return {"bj": bj if raw is None else {"raw": raw}, "rc": rc, "calls": []}

    def do_bjobs(self, text):
        p = self.plan
        if p is None:
            return Proc("No job found\n", 0, text)
        p["calls"].append("bjobs")
        return Proc(P.print_bj(p["bj"]), p["rc"], text)


# ----------------------------------------------------------------------------
# the real adapters, recording
# ----------------------------------------------------------------------------
def _node_of(step):
    x = _node_in(str(getattr(step, "real_name", "") or getattr(step, "name", "")))
    return 0 if x is None else x


def _submitted(step, path, rec, sched):
    """one ESubmit from what the cluster saw of this call and what Maestro recorded"""
    from maestrowf.abstracts.enums import SubmissionCode
    cl = CL
    seen = cl.last or {}
    x = seen.get("x")
    if x is None:
        x = _node_of(step)
    kind = seen.get("kind") or ("Restart" if ".restart." in os.path.basename(str(path)) else "Main")
    acc = seen.get("accepted")
    ok = rec is not None and getattr(rec, "submission_code", None) == SubmissionCode.OK
    if ok:
        key = str(rec.job_identifier)
        cl.events.append(["submit", x, kind, sched, cl.number(key, x)])
        if sched and acc is not None and acc != key:
            cl.orphan(acc, "scheduler accepted job %s but maestro recorded job id %s" % (acc, key))
    else:
        cl.events.append(["submit", x, kind, sched, None])
        if sched and acc is not None:
            cl.orphan(acc, "scheduler accepted job %s but maestro recorded a failed submission" % acc)


def _recording(base, sched):
    class Recording(base):
        def write_script(self, ws_path, step):
            CL.events.append(["gen", _node_of(step)])
            return base.write_script(self, ws_path, step)

        def submit(self, step, path, cwd, job_map=None, env=None):
            CL.last = None
            rec = None
            try:
                rec = base.submit(self, step, path, cwd, job_map=job_map, env=env)
                return rec
            finally:
                _submitted(step, path, rec, sched)
                CL.last = None

        def check_jobs(self, joblist):
            CL.begin_query(list(joblist))
            try:
                return base.check_jobs(self, joblist)
            finally:
                CL.plan = None

        def cancel_jobs(self, joblist):
            cl = CL
            cl.cancel_seen = None
            try:
                return base.cancel_jobs(self, joblist)
            finally:
                # the ids the cluster was asked to cancel (no command at all for an empty list)
                cl.events.append(["cancel", cl.nums(cl.cancel_seen or [])])
                cl.cancel_seen = None

    Recording.__name__ = "Recording" + base.__name__
    return Recording


def _setup():
    global _READY
    if _READY:
        return
    H._setup()
    from maestrowf.interfaces.script.slurmscriptadapter import SlurmScriptAdapter
    from maestrowf.interfaces.script.lsfscriptadapter import LSFScriptAdapter
    from maestrowf.interfaces.script.localscriptadapter import LocalScriptAdapter
    W["slurm"] = _recording(SlurmScriptAdapter, True)
    W["lsf"] = _recording(LSFScriptAdapter, True)
    W["local"] = _recording(LocalScriptAdapter, False)
    _READY = True


class Installed:
    """While a history runs: the recording subclasses are what the factory hands out, and every door of
    the adapter modules to a real process leads to the fake cluster."""

    MODS = ("maestrowf.utils", "maestrowf.interfaces.script.slurmscriptadapter",
            "maestrowf.interfaces.script.lsfscriptadapter", "maestrowf.interfaces.script.localscriptadapter")

    def __enter__(self):
        import importlib
        from maestrowf.interfaces import ScriptAdapterFactory

        def sp(cmd, cwd=None, env=None, shell=True, **k):
            return CL.handle(cmd, True, shell and not isinstance(cmd, list))

        def popen(cmd, *a, **k):
            return CL.handle(cmd, bool(k.get("universal_newlines") or k.get("text") or k.get("encoding")),
                             bool(k.get("shell")))

        self.f = ScriptAdapterFactory.factories
        self.old = {k: self.f.get(k) for k in W}
        self.f.update(W)
        self.saved = []
        for modname in self.MODS:
            m = importlib.import_module(modname)
            for attr, fn in (("start_process", sp), ("Popen", popen)):
                if attr in m.__dict__:
                    self.saved.append((m, attr, m.__dict__[attr]))
                    setattr(m, attr, fn)
        return self

    def __exit__(self, *a):
        for m, attr, old in reversed(self.saved):
            setattr(m, attr, old)
        for k, v in self.old.items():
            if v is None:
                self.f.pop(k, None)
            else:
                self.f[k] = v
        return False


# ----------------------------------------------------------------------------
# the study
# ----------------------------------------------------------------------------
def batch_block(opts):
    b = {"type": opts["backend"], "host": "quartz" if opts["backend"] == "slurm" else "lassen", "bank": "baasic",
         "queue": opts["queue"], "shell": opts["shell"]}
    if opts["reservation"]:
        b["reservation"] = opts["reservation"]
    if opts["backend"] == "lsf":
        b["nodes"] = 1
    return b


def build_dag(nodes, cfg, root, opts):
    from maestrowf.datastructures.core.executiongraph import ExecutionGraph
    from maestrowf.datastructures.core.study import StudyStep
    rr = random.Random(opts["seed"] + 1)
    dag = ExecutionGraph(submission_attempts=cfg["attempts"], submission_throttle=cfg["throttle"],
                         use_tmp=False, dry_run=cfg["dry"])
    dag.add_description("study", "real adapters")
    dag.add_node("_source", None)
    names = step_names(opts, len(nodes))
    dag.real_keys = names
    for i, nd in enumerate(nodes):
        st = StudyStep()
        st.name = names[i]
        st.description = "step %d" % i
        launcher = ""
        if nd["scheduled"]:
            # a step is scheduled iff it declares nodes or procs: the REAL write_script decides
            shape = rr.choice(["nodes", "procs", "both", "both"])
            if shape in ("nodes", "both"):
                st.run["nodes"] = rr.choice([1, 1, 2])
            if shape in ("procs", "both"):
                st.run["procs"] = rr.choice([1, 2, 4]) * (st.run["nodes"] or 1)
                if rr.random() < 0.4:
                    launcher = "$(LAUNCHER) "
            if rr.random() < 0.6:
                st.run["walltime"] = rr.choice(["00:10:00", "01:00:00", "00:30"])
        st.run["cmd"] = "%secho %d" % (launcher, i)
        st.run["restart"] = "%secho r%d" % (launcher, i) if nd["has_restart"] else ""
        # the graph is keyed by the step's name as Study.stage does; the workspace is the sanitised name
        dag.add_step(names[i], st, os.path.join(root, "n%d" % i), nd["rlimit"])
        if nd["parents"]:
            for p in nd["parents"]:
                dag.add_connection(names[p], names[i])
        else:
            dag.add_connection("_source", names[i])
    dag.set_adapter(batch_block(opts))
    return dag


def snapshot_check(dag, root):
    """What Conductor.monitor_study does after every poll -- dag.pickle(<study>.pkl) (dill) -- followed by
    ExecutionGraph.unpickle of that file: the snapshot must be writable, loadable, and show the same step states.
    Returns None or what is wrong."""
    path = os.path.join(root, "snapshot_check.pkl")

    def view(g):
        recs = []
        for k in dag.real_keys:
            r = g.values[k]
            recs.append([k, r.status.name, [str(j) for j in r.jobid], r.restarts, str(r.script), str(r.restart_script),
                         bool(r.to_be_scheduled)])
        return {"steps": recs, "in_progress": sorted(g.in_progress), "completed": sorted(g.completed_steps),
                "failed": sorted(g.failed_steps), "cancelled": sorted(g.cancelled_steps), "ready": list(g.ready_steps),
                "canceled": bool(g.is_canceled)}
    try:
        dag.pickle(path)
    except Exception as e:
        size = os.path.getsize(path) if os.path.exists(path) else -1
        return "the execution-graph snapshot cannot be written: %s: %s (file left with %d bytes)" % (
            type(e).__name__, str(e)[:120], size)
    try:
        back = type(dag).unpickle(path)
    except Exception as e:
        return "the execution-graph snapshot just written cannot be loaded: %s: %s" % (type(e).__name__, str(e)[:120])
    try:
        a, b = view(dag), view(back)
    except Exception as e:
        return "the loaded execution-graph snapshot cannot be read: %s: %s" % (type(e).__name__, str(e)[:120])
    if a != b:
        k = [x for x in a if a[x] != b[x]][0]
        return "the loaded execution-graph snapshot differs from the live graph in %s: %r vs %r" % (k, b[k], a[k])
    return None


def rows_of(dag, n, cl):
    rows = []
    for i in range(n):
        r = dag.values[dag.real_keys[i]]
        rows.append([r.status.name, [cl.num.get(str(j), 900 + k) for k, j in enumerate(r.jobid)], r.restarts])
    return rows


# ----------------------------------------------------------------------------
# one history
# ----------------------------------------------------------------------------
def run_history_real(nodes, cfg, rng, backend, profile="mixed", max_polls=14, cancel_p=0.04, qerr_p=0.015,
                     qnojobs_p=0.06, sub_ok_p=0.85, fair_after=None, scripted_pins=None, root=None, fair_bound=None,
                     after_poll=None, chooser=None, enum=None, via_conductor=False, opts=None):
    """exec_harness.run_history with the real `backend` adapter over the fake cluster.  Returns the same
    case dict (+ "real": what was scripted about the cluster, "orphans", "real_violation")."""
    global CL
    _setup()
    opts = dict(opts) if opts else gen_opts(rng, backend)
    root = root or os.path.join(common.WORK, "exec_ws", "r%d" % os.getpid())
    shutil.rmtree(root, ignore_errors=True)
    os.makedirs(root, exist_ok=True)
    n = len(nodes)
    c = H.Ctx(nodes, rng, profile, scripted_pins)
    c.chooser, c.enum = chooser, enum
    c.poll_no = 0
    cl = Cluster(opts, c)
    CL = cl
    case = {"nodes": nodes, "cfg": cfg, "profile": profile, "polls": [], "end": "running", "real": opts,
            "origin": "real:" + json.dumps(opts, sort_keys=True), "orphans": cl.orphans}
    with Installed():
        try:
            dag = build_dag(nodes, cfg, root, opts)
        except Exception as e:
            case["end"] = "exc"
            case["exc"] = "build:" + type(e).__name__ + ":" + str(e)[:200]
            return case
        state = {"k": 0, "cancelled_once": False,
                 "limit": max_polls if scripted_pins is None else len(scripted_pins)}

        def make_pin():
            k = state["k"]
            if scripted_pins is not None:
                sp = scripted_pins[k]
                pin = {"cancel": sp["cancel"], "q": sp["q"], "reports": [list(r) for r in sp["reports"]],
                       "subs": list(sp["subs"]), "cancel_ok": sp.get("cancel_ok", True)}
            elif chooser is not None:
                cancel = bool(enum.get("cancel")) and not state["cancelled_once"] and chooser.pick(2) == 1
                q = ["OK", "NOJOBS", "ERROR"][chooser.pick(3)] if enum.get("q") else "OK"
                pin = {"cancel": cancel, "q": q, "reports": [], "subs": []}
            else:
                c.fair = fair_after is not None and k >= fair_after
                cancel = (not c.fair) and (not state["cancelled_once"] or rng.random() < 0.2) and rng.random() < cancel_p
                r = rng.random()
                q = "OK"
                if not c.fair:
                    if r < qerr_p:
                        q = "ERROR"
                    elif r < qerr_p + qnojobs_p:
                        q = "NOJOBS"
                pin = {"cancel": cancel, "q": q, "reports": [],
                       "subs": [rng.random() < (0.97 if c.fair else sub_ok_p) for _ in range(rng.choice([0, 4, 8, 12]))]}
                if cancel:
                    pin["cancel_ok"] = rng.random() < 0.7
            state["cancelled_once"] = state["cancelled_once"] or pin["cancel"]
            c.pin = pin
            c.poll_no = k
            cl.pin = pin
            cl.subs = list(pin["subs"])
            cl.events = []
            return pin

        def record(pin, status):
            if "snapshot_violation" not in case:
                bad = snapshot_check(dag, root)
                if bad:
                    case["snapshot_violation"] = "poll %d: %s" % (state["k"], bad)
                    case["snapshot_poll"] = state["k"]
                else:
                    cl.stat("snapshots written and loaded back")
            try:
                rows = rows_of(dag, n, cl)
            except Exception as e:
                rows = []
                status = "EXC:rows:" + type(e).__name__
            poll = dict(pin)
            poll.update({"events": cl.events, "rows": rows, "status": status})
            case["polls"].append(poll)
            if after_poll is not None:
                after_poll(dag, case, state["k"])
            state["k"] += 1
            if status != "RUNNING":
                case["end"] = "exc" if status.startswith("EXC") else "final"
                return False
            if scripted_pins is None and fair_after is not None and state["k"] >= state["limit"] and fair_bound \
                    and state["k"] < fair_bound:
                state["limit"] = fair_bound
            return state["k"] < state["limit"]

        if via_conductor:
            H._drive_conductor(dag, case, root, make_pin, record)
        else:
            while state["k"] < state["limit"]:
                pin = make_pin()
                status = None
                try:
                    if pin["cancel"]:
                        dag.cancel_study()
                    status = dag.execute_ready_steps().name
                except RuntimeError as e:
                    status = "ABORT" if "Job status check failed" in str(e) else "EXC:RuntimeError"
                    if status != "ABORT":
                        case["exc"] = repr(e)[:300]
                except Exception as e:
                    status = "EXC:" + type(e).__name__
                    case["exc"] = repr(e)[:300]
                if not record(pin, status):
                    break
        try:
            dag.cleanup()
        except Exception:
            pass
    shutil.rmtree(root, ignore_errors=True)
    if cl.violation:
        case["real_violation"] = cl.violation
    if cl.other:
        case["unexpected_commands"] = cl.other[:5]
    case["real_stats"] = cl.stats
    case["_cluster_order"] = list(cl.order)
    CL = None
    return case


# ----------------------------------------------------------------------------
# hooks used by harness/exec_props.py
# ----------------------------------------------------------------------------
def random_history(rng, nodes, cfg, prof, fa, bias, shape):
    """one random history of exec_props.random_cases through a real adapter"""
    backend = rng.choice(BACKENDS)
    c = run_history_real(nodes, cfg, rng, backend, profile=prof, max_polls=bias.get("max_polls", 14), fair_after=fa,
                         fair_bound=bias.get("fair_bound", 80), cancel_p=bias.get("cancel_p", 0.04),
                         qerr_p=bias.get("qerr_p", 0.015), qnojobs_p=bias.get("qnojobs_p", 0.06),
                         sub_ok_p=bias.get("sub_ok_p", 0.85),
                         via_conductor=rng.random() < bias.get("conductor_p", 0.4))
    c["shape"] = shape
    c["fair_after"] = fa
    return c


def corpus_cases():
    """corpus/exec_real/*.json ({nodes, cfg, pins, origin}) -- always run first"""
    out = []
    for f in sorted(glob.glob(os.path.join(CORPUS_DIR, "*.json"))):
        d = json.load(open(f))
        d = d.get("case", d)
        c = rerun(d)            # its origin keeps the cluster options: replayable as it is
        c["corpus_file"] = os.path.basename(f)
        out.append(c)
    return out


def opts_of(d):
    o = d.get("real")
    if o is None:
        o = json.loads(str(d.get("origin", ""))[len("real:"):])
    return o


def is_real(d):
    d = d.get("case", d)
    return isinstance(d, dict) and ("real" in d or str(d.get("origin", "")).startswith("real:"))


def rerun(d, via_conductor=False):
    o = opts_of(d)
    return run_history_real(d["nodes"], d["cfg"], random.Random(0), o["backend"], scripted_pins=d["pins"], opts=o,
                            via_conductor=via_conductor)


def violations(cases, pidnum):
    """(what, case) for real-adapter histories that violate a property whatever the engine-level trace says:
    * the scheduler holds a live job Maestro does not count (C03: uncounted against the throttle; C04: orphaned);
    * the execution-graph snapshot the conductor writes after every poll cannot be written / loaded back or shows other
      step states (C18); a conductor that dies on it mid-study leaves its jobs behind and never reaches a verdict (C04, C05).
    The case is cut after the offending poll; exec_props.strip keeps its origin (= the cluster options), so it replays
    through the same adapter."""
    out = []
    for c in cases:
        if c.get("real_violation") and pidnum in (3, 4):
            k = min(o["poll"] for o in c["orphans"])
            first = [o for o in c["orphans"] if o["poll"] == k]
            what = ("real %s adapter: %s (poll %d, step n%d, the scheduler answered %r); %d such job(s) alive and untracked "
                    "over the whole history (the replay is cut after that poll), throttle %d" %
                    (c["real"]["backend"], c["real_violation"], k, first[0]["node"] if first[0]["node"] is not None else -1,
                     first[0]["answer"], len(c["orphans"]), c["cfg"]["throttle"]))
            out.append((what, dict(c, polls=c["polls"][:k + 1])))
        if c.get("snapshot_violation") and pidnum in (18, 4, 5):
            k = c.get("snapshot_poll", len(c["polls"]) - 1)
            live = [j for j in c["_cluster_order"]] if "_cluster_order" in c else []
            what = ("real %s adapter: %s; Conductor.monitor_study writes this snapshot after every poll: it dies here, "
                    "mid-study%s" % (c["real"]["backend"], c["snapshot_violation"],
                                     ", with %d job(s) accepted by the scheduler so far" % len(live) if live else ""))
            out.append((what, dict(c, polls=c["polls"][:k + 1])))
    return out


def snapshot_histories(ck, n, tag="real"):
    """Entry for harness/props/c18.py: the corpus plus n random histories through the real Slurm / LSF adapters (direct
    and through the real Conductor.monitor_study loop); after EVERY poll the graph is dill-pickled the way the conductor
    does and loaded back (snapshot_check).  A snapshot that cannot be written / loaded or shows other step states is a
    concrete C18 violation; returns (number of histories, histogram)."""
    from collections import Counter
    from harness import exec_props as X
    rng = random.Random(ck.seed * 7919 + 1818)
    cases = corpus_cases()
    for _ in range(n):
        shape, nodes = H.gen_graph(rng, nmax=7)
        cfg = H.gen_cfg(rng, len(nodes), dry=rng.random() < 0.05)
        c = run_history_real(nodes, cfg, rng, rng.choice(BACKENDS), profile=rng.choice(list(H.PROFILES)), max_polls=12,
                             fair_after=rng.choice([None, 3, 6]), fair_bound=60, via_conductor=rng.random() < 0.4)
        c["shape"] = shape
        cases.append(c)
    hist = Counter()
    for c in cases:
        npolls = len(c["polls"])
        ck.count(("real-snapshots", X.case_key(c)), nontrivial=npolls >= 2 and bool(c["_cluster_order"]), n=max(1, npolls))
        hist["histories:" + c["real"]["backend"]] += 1
        hist["snapshots written and loaded back"] += c["real_stats"].get("snapshots written and loaded back", 0)
        hist["acceptance:" + str(c["real"].get("acceptance", "standard"))] += 1
        hist["driver:" + ("Conductor.monitor_study" if c.get("via_conductor") else "direct")] += 1
        if c["end"] == "exc" and not c.get("snapshot_violation"):
            ck.mismatch("real %s adapter history raised %s" % (c["real"]["backend"], c.get("exc")), X.strip(c), "")
    for what, c in violations(cases, 18):
        ck.violation(what, dict(X.strip(c), snapshot_violation=c["snapshot_violation"]))
    ck.cov["real_adapter_snapshots"] = {
        "rule": "corpus/exec_real + random histories through the real Slurm/LSF adapters over the scripted process layer "
                "(acceptance texts incl. --parsable style '<id>[;<cluster>]', chatter, blank/tab step names); after every poll "
                "dag.pickle (dill) to a file + ExecutionGraph.unpickle + comparison of step states, job ids, restart counts, "
                "script paths and the in-progress/completed/failed/cancelled/ready sets with the live graph",
        "histogram": dict(sorted(hist.items()))}
    return len(cases), dict(sorted(hist.items()))


def replay(ck, pidnum, d):
    """./check Cxx --replay F for a history recorded through a real adapter"""
    from harness import exec_props as X
    d = d.get("case", d)
    c = rerun(d)
    print(json.dumps(dict(X.strip(c), orphans=c["orphans"], real_violation=c.get("real_violation"),
                          snapshot_violation=c.get("snapshot_violation")), indent=1))
    rc = 0
    if c.get("real_violation") and pidnum in (3, 4):
        print("real-adapter violation:", c["real_violation"])
        rc = 1
    if c.get("snapshot_violation") and pidnum in (18, 4, 5):
        print("real-adapter violation:", c["snapshot_violation"])
        rc = 1
    if H.representable(c):
        lit = H.g_case(c)
        print("model observations:", common.coq_eval("replay", H.HEADER, "model_obs (%s)" % lit))
        print("corr_ok:", common.coq_eval("replay", H.HEADER, "corr_ok (%s)" % lit))
        print("monitor codes (implementation):", common.coq_eval("replay", H.HEADER, "impl_viol (%s)" % lit))
        bad, _ = common.coq_failing("replay_c", H.HEADER, "ecase", "both_ok %d" % pidnum, [lit])
        return 1 if bad else rc
    return 1


# ----------------------------------------------------------------------------
# stand-alone: acceptance run / replay
# ----------------------------------------------------------------------------
def selftest(n, seed, biases=None):
    from collections import Counter
    from harness import exec_props as X
    from harness.props import c03, c04, c06
    biases = biases or [c03.BIAS, c04.BIAS, c06.BIAS, {}]
    rng = random.Random(seed * 7919 + 77)
    total_bad = 0
    for backend in BACKENDS:
        cases = []
        for k in range(n):
            bias = biases[k % len(biases)]
            shape, nodes = H.gen_graph(rng, nmax=bias.get("nmax", 8))
            cfg = H.gen_cfg(rng, len(nodes))
            if bias.get("attempts"):
                cfg["attempts"] = rng.choice(bias["attempts"])
            prof = rng.choice(bias.get("profiles") or list(H.PROFILES))
            fa = rng.choice(bias.get("fair_after", [None, None, 3, 6]))
            c = run_history_real(nodes, cfg, rng, backend, profile=prof, max_polls=bias.get("max_polls", 14),
                                 fair_after=fa, fair_bound=80, cancel_p=bias.get("cancel_p", 0.04),
                                 sub_ok_p=bias.get("sub_ok_p", 0.85), via_conductor=rng.random() < 0.4)
            cases.append(c)
        rep = [c for c in cases if H.representable(c)]
        lits = [H.g_case(c) for c in rep]
        hdr = X.HEADER_V + "\nDefinition silent_v (e : ecase) : bool := corr_ok e && is_nil (impl_viol e) && hyp_ok e && wf_graph (e_g e).\n"
        bad, errs = common.coq_failing("exec_real_self", hdr, "ecase", "silent_v", lits)
        dist = Counter()
        for c in cases:
            dist["end:" + (c["polls"][-1]["status"] if c["polls"] else "none")] += 1
            dist["conductor" if c.get("via_conductor") else "direct"] += 1
            if c.get("real_violation"):
                dist["real_violation"] += 1
            if c["real"].get("federated"):
                dist["federated"] += 1
            dist["names:" + str(c["real"].get("names", "plain"))] += 1
            dist["chatter:" + str(c["real"].get("chatter", "none"))] += 1
            dist["acceptance:" + str(c["real"].get("acceptance", "standard"))] += 1
            if c.get("snapshot_violation"):
                dist["snapshot_violation"] += 1
            for k, v in c.get("real_stats", {}).items():
                dist["cluster " + k] += v
            for p in c["polls"]:
                dist["q:" + p["q"]] += 1
                for _, v in p["reports"]:
                    dist["rep:" + str(v)] += 1
                for e in p["events"]:
                    if e[0] == "submit":
                        dist["submit:%s:%s:%s" % (e[2], "sched" if e[3] else "local", "ok" if e[4] is not None else "fail")] += 1
                    elif e[0] == "cancel":
                        dist["cancel"] += 1
        crashed = [c for c in cases if not H.representable(c)]
        print("%s seed=%d: %d histories, %d representable, %d disagree/monitor, %d crashed, %d real_violation, coq errors %d"
              % (backend, seed, len(cases), len(rep), len(bad), len(crashed),
                 sum(1 for c in cases if c.get("real_violation")), len(errs)))
        print("   ", dict(sorted(dist.items())))
        for e in errs[:1]:
            print("coq error:", e[1][-1500:])
        for c in crashed[:3]:
            print("CRASHED:", c.get("exc"), json.dumps(X.strip(c))[:1500])
        for i in bad[:3]:
            c = rep[i]
            print("BAD:", json.dumps(X.strip(c)))
            print("  corr_ok:", common.coq_eval("exec_real_self_e", H.HEADER, "corr_ok (%s)" % lits[i]))
            print("  impl_viol:", common.coq_eval("exec_real_self_e", H.HEADER, "impl_viol (%s)" % lits[i]))
            print("  model_obs:", common.coq_eval("exec_real_self_e", H.HEADER, "model_obs (%s)" % lits[i])[-2500:])
        for c in [c for c in cases if c.get("snapshot_violation")][:3]:
            print("SNAPSHOT:", c["snapshot_violation"], json.dumps(X.strip(c))[:1200])
        total_bad += len(bad) + len(crashed) + len(errs) + sum(1 for c in cases if c.get("real_violation") or c.get("snapshot_violation"))
    return 1 if total_bad else 0


def main(argv):
    import argparse
    ap = argparse.ArgumentParser()
    ap.add_argument("--selftest", type=int)
    ap.add_argument("--seed", type=int, default=int(os.environ.get("VERIF_SEED", "0") or 0))
    ap.add_argument("--replay")
    ap.add_argument("--pid", type=int, default=4)
    a = ap.parse_args(argv)
    if a.replay:
        return replay(None, a.pid, json.load(open(a.replay)))
    return selftest(a.selftest or 300, a.seed)


if __name__ == "__main__":
    sys.exit(main(sys.argv[1:]))

"""Entry point:  ./check Cxx [--tier quick|thorough] [--replay F]  |  ./check --setup"""
import argparse
import importlib
import os
import sys
import traceback

from harness import common


def setup():
    """Regenerate T-data/T-code, (re)generate the Makefile, full .vo build."""
    from translate import regen
    regen.regenerate_all(verbose=True)
    common.coq_makefile()
    # -k: a proof file that no longer builds must not keep the other properties'
    # theorems from being compiled; each check re-builds (and judges) its own cone.
    ok, out = common.coq_make(["-k"], timeout=3400)
    sys.stdout.write(out[-6000:])
    bad = common.audit_coq()
    if bad:
        print("AUDIT:", bad)
    if not ok:
        print("SETUP: some Coq targets did not build (reported by the checks that depend on them)")
    return 0


def main():
    ap = argparse.ArgumentParser()
    ap.add_argument("pid", nargs="?")
    ap.add_argument("--tier", default=os.environ.get("VERIF_TIER", "quick"))
    ap.add_argument("--replay")
    ap.add_argument("--setup", action="store_true")
    a = ap.parse_args()
    if a.setup:
        sys.exit(setup())
    seed = int(os.environ.get("VERIF_SEED", "0") or 0)
    tier = a.tier if a.tier in ("quick", "thorough") else "quick"
    mod = importlib.import_module("harness.props." + a.pid.lower())
    ck = common.Check(a.pid, tier, seed)
    if a.replay:
        sys.exit(mod.replay(ck, a.replay))
    try:
        from translate import regen
        regen.regenerate_all()
        for gname, why in regen.broken_for(ck.pid):
            # the source no longer fits the translated subset: the regenerated part of the model is
            # no longer tied to the code by translation -- a broken obligation (DESIGN 2.4); the
            # correspondence run and the post-failure search still look for a concrete failing input
            ck.proof_failures.append(("translator %s failed closed on the current source" % gname, why))
        rc = mod.run(ck)
    except Exception:
        # a crash of the machinery is not a verdict about the code: fail loudly
        # without a VIOLATION line
        tb = traceback.format_exc()
        sys.stderr.write(tb)
        # the harness could not complete against this tree: the correspondence
        # is no longer shown to hold (on the unchanged tree this is a broken check)
        ck.mismatch("harness could not run to completion against the current tree", None, tb[-3000:])
        sys.exit(ck.finish())
    sys.exit(rc)


def _private_tmp():
    """The code under test calls tempfile.mkdtemp() (ExecutionGraph with use_tmp, --usetmp) and only removes the
    directory in cleanup(); thousands of histories would litter /tmp.  Every run of a check gets its own temporary
    directory under /verif/_work, removed when the process ends; directories of dead processes are swept."""
    import atexit
    import re
    import shutil
    import tempfile
    os.makedirs(common.WORK, exist_ok=True)
    for n in os.listdir(common.WORK):
        m = re.fullmatch(r"tmp\.(\d+)", n)
        if m and not os.path.exists("/proc/" + m.group(1)):
            shutil.rmtree(os.path.join(common.WORK, n), ignore_errors=True)
    d = os.path.join(common.WORK, "tmp.%d" % os.getpid())
    os.makedirs(d, exist_ok=True)
    os.environ["TMPDIR"] = d
    tempfile.tempdir = d
    pid = os.getpid()
    atexit.register(lambda: os.getpid() == pid and shutil.rmtree(d, ignore_errors=True))


if __name__ == "__main__":
    _private_tmp()
    main()

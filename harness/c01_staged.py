"""C01 on graphs staged by the REAL Study.stage().

The dependency relation of C01 ("only after every step instance it depends on has
completed") is the specification's.  The generic execution check (exec_props) builds
its graphs with add_step/add_connection, so an error in the edges Study.stage() creates
is invisible to it.  This module closes that gap:

  (a) studies from the C08 generators (parameterised steps, funnel "_*" dependencies,
      used / inherited parameters, >= 2 combinations) plus a funnel-biased family;
  (b) staged by the real Study.stage() (exactly the calls of c08.build_study);
  (c) the EXPECTED parents of every instance come from the Coq expansion model
      (Expand/Expand.v c08_model, the graph the C08 theorems are about), evaluated
      inside Coq by Exec/ExecStaged.v -- never recomputed from the staged graph;
  (d) scripted report histories are driven on the staged ExecutionGraph through
      exec_harness.run_history(staged=...) (the scripted scheduler of the exec checks);
  (e) at every submit call every expected parent instance must have been reported
      FINISHED (under an OK query code) before: Exec/ExecStaged.v c01_staged_case.

A failure is a concrete input (study + configuration + poll inputs), reported through
ck.violation; `./check C01 --replay <file>` re-runs it.
"""
import hashlib
import json
import os
import random
import shutil

from harness import common
from harness import exec_harness as H
from harness.props import c08

HEADER = c08.HEADER + "From MWF Require Import Exec.ExecStaged.\n"
TY = "spec * list (list sev)"
FN = "c01_staged_case"


# ----------------------------------------------------------------------------
# studies
# ----------------------------------------------------------------------------
def funnel_case(rng):
    """A parameterised step with a funnel dependency (type 5 of Study._stage), >= 2 combinations;
    optionally a middle step and an ordinary dependency next to the funnel."""
    nrows = rng.randint(2, 4)
    k1, k2 = rng.sample(["X", "Y", "SIZE", "ITER", "N"], 2)
    v1 = rng.sample([1, 2, 3, 10, 20], nrows) if rng.random() < 0.7 else [rng.choice([1, 2]) for _ in range(nrows)]
    v2 = rng.sample(["a", "b", "c", "d", "e"], nrows) if rng.random() < 0.7 else [rng.choice(["a", "b"]) for _ in range(nrows)]
    params = [{"key": k1, "name": None, "values": v1, "label": k1 + ".%%"},
              {"key": k2, "name": None, "values": v2, "label": k2 + ".%%"}]
    steps = [{"name": "sim", "description": "simulate", "run": {"cmd": "run --x $(%s)" % k1}}]
    deps = ["sim_*"]
    if rng.random() < 0.4:
        steps.append({"name": "mid", "description": "middle",
                      "run": {"cmd": rng.choice(["echo mid", "echo $(%s)" % k1, "echo $(%s)" % k2]),
                              "depends": [rng.choice(["sim", "sim_*"])]}})
        deps = rng.choice([["sim_*"], ["sim_*", "mid"], ["mid_*"], ["mid_*", "sim"]])
    post = rng.choice(["post $(%s)" % k2, "post $(%s) $(%s)" % (k1, k2), "post $(%s)" % k1,
                       "post $(sim.workspace) $(%s)" % k2])
    steps.append({"name": "post", "description": "collect", "run": {"cmd": post, "depends": deps}})
    if rng.random() < 0.3:
        steps.append({"name": "last", "description": "report",
                      "run": {"cmd": rng.choice(["echo done", "echo $(%s)" % k2]),
                              "depends": [rng.choice(["post", "post_*"])]}})
    for st in steps:
        if rng.random() < 0.3:
            st["run"]["restart"] = "again " + st["run"]["cmd"]
    return {"rlimit": rng.choice([0, 1, 3]), "params": params, "steps": steps, "stream": "funnel"}


def has_funnel(case):
    return any("*" in d for st in case["steps"] for d in (st["run"].get("depends") or []))


def has_dep(case):
    return any(st["run"].get("depends") for st in case["steps"])


def gen_studies(rng, tier):
    quick = tier != "thorough"
    tiny = [c for c in c08.tiny_cases() if has_dep(c)]
    if quick:
        tiny = [c for c in tiny if has_funnel(c)]
        tiny = rng.sample(tiny, min(30, len(tiny)))
    n_funnel, n_valid = (55, 55) if quick else (400, 500)
    out = list(tiny) + [funnel_case(rng) for _ in range(n_funnel)]
    k = 0
    while k < n_valid:
        c = None
        for _ in range(40):                       # bias: something must depend on something
            c = c08.gen_case(rng, "valid")
            rows = max([len(p["values"]) for p in c["params"]] or [0])
            if has_dep(c) and (rows >= 2 or rng.random() < 0.2) and (has_funnel(c) or rng.random() < 0.5):
                break
        out.append(c)
        k += 1
    return out


# ----------------------------------------------------------------------------
# staging and histories
# ----------------------------------------------------------------------------
def stage(case, cfg, root):
    """The calls of maestro.run_study up to the staged ExecutionGraph, with the scripted scheduler."""
    H._setup()
    c08.quiet()
    out = os.path.join(root, "out")
    study = c08.build_study(case, out)
    study.setup_workspace()
    study.configure_study(throttle=cfg["throttle"], submission_attempts=cfg["attempts"],
                          restart_limit=case["rlimit"], use_tmp=False, hash_ws=False, dry_run=False)
    study.setup_environment()
    _, dag = study.stage()
    dag.set_adapter({"type": "scripted"})
    names = [n for n in dag.values.keys() if n != "_source"]
    return dag, names


def nodes_of(dag, names):
    idx = {n: i for i, n in enumerate(names)}
    nodes = []
    for n in names:
        rec = dag.values[n]
        kids = [idx[k] for k in dag.adjacency_table[n] if k in idx]
        nodes.append({"parents": [], "children": kids, "scheduled": True,
                      "has_restart": bool(rec.step.run.get("restart")), "rlimit": int(rec.restart_limit)})
    for i, nd in enumerate(nodes):
        for k in nd["children"]:
            nodes[k]["parents"].append(i)
    return nodes


def drive(case, cfg, rng, n_hist, scripted=None):
    """Stage once to learn the instances, then one fresh staging per history.
    Returns (names, nodes, [history]) or (None, None, error text)."""
    root = os.path.join(common.WORK, "c01_staged", "s%d" % os.getpid())
    shutil.rmtree(root, ignore_errors=True)
    try:
        dag, names = stage(case, cfg, root)
        nodes = nodes_of(dag, names)
    except Exception as e:
        shutil.rmtree(root, ignore_errors=True)
        return None, None, "%s: %s" % (type(e).__name__, str(e)[:200])
    hists = []
    for j in range(n_hist):
        prof = rng.choice(["happy", "mixed", "mixed", "failing", "timeout"])
        h = H.run_history(nodes, cfg, rng, profile=prof, max_polls=rng.choice([6, 9, 12]), cancel_p=0.02,
                          qerr_p=0.0, qnojobs_p=0.05, sub_ok_p=0.9,
                          scripted_pins=scripted, root=root, staged=lambda r: stage(case, cfg, r))
        h["names"] = names
        hists.append(h)
    shutil.rmtree(root, ignore_errors=True)
    return names, nodes, hists


def sev_list(h, upto=None):
    """The observable events of a history as Exec/ExecStaged.v sev literals; `upto` = number of events kept."""
    names = h["names"]
    evs = []
    for k, p in enumerate(h["polls"]):
        for e in p["events"]:
            if e[0] == "check" and p["q"] == "OK":
                for x, v in p["reports"]:
                    if v == "FINISHED" and 0 <= x < len(names):
                        evs.append(("SFin", names[x], k))
            elif e[0] == "submit" and 0 <= e[1] < len(names):
                evs.append(("SSub", names[e[1]], k))
    return evs if upto is None else evs[:upto]


def g_hist(evs):
    return common.g_list(["%s %s" % (kind, c08.g_str(nm)) for kind, nm, _ in evs])


def g_case(case, hists_evs):
    return "(%s, %s)" % (c08.g_spec(case), common.g_list([g_hist(e) for e in hists_evs]))


def strip(case, cfg, h, what=None):
    d = {"kind": "c01-staged",
         "study": {k: case[k] for k in ("rlimit", "params", "steps")}, "cfg": cfg,
         "pins": H.pins_of(h), "instances": h.get("names"),
         "impl": [{"events": p["events"], "status": p["status"]} for p in h["polls"]]}
    if what:
        d["what"] = what
    return d


def locate(case, h):
    """Shortest event prefix of the history that the monitor rejects: its last event is the
    offending submit call.  Returns (instance name, poll number) or None."""
    evs = sev_list(h)
    cuts = [i + 1 for i, e in enumerate(evs) if e[0] == "SSub"]
    if not cuts:
        return None
    lits = [g_case(case, [evs[:c]]) for c in cuts]
    bad, _ = common.coq_failing("C01_stg_loc", HEADER, TY, FN, lits)
    if not bad:
        return None
    _, nm, k = evs[cuts[bad[0]] - 1]
    fin = sorted({e[1] for e in evs[:cuts[bad[0]] - 1] if e[0] == "SFin"})
    return nm, k + 1, fin


# ----------------------------------------------------------------------------
def run_extra(ck):
    rng = random.Random(ck.seed * 104729 + 101)
    studies = gen_studies(rng, ck.tier)
    n_hist = 2 if ck.tier != "thorough" else 3
    H._setup()
    items, lits = [], []
    stage_exc = 0
    dist = {"studies": 0, "histories": 0, "stream:tiny": 0, "stream:funnel": 0, "stream:valid": 0,
            "with_funnel_dep": 0, "instances": 0, "submit_calls": 0, "finished_reports": 0}
    for case in studies:
        cfg = {"throttle": rng.choice([0, 0, 0, 1, 2, 3]), "attempts": rng.choice([1, 1, 2]), "dry": False}
        names, nodes, hists = drive(case, cfg, rng, n_hist)
        if names is None:
            stage_exc += 1        # a study the implementation refuses / fails to stage: C08's and C13's business
            continue
        evs = [sev_list(h) for h in hists]
        items.append((case, cfg, hists))
        lits.append(g_case(case, evs))
        dist["studies"] += 1
        dist["histories"] += len(hists)
        dist["stream:" + case.get("stream", "valid")] = dist.get("stream:" + case.get("stream", "valid"), 0) + 1
        dist["with_funnel_dep"] += 1 if has_funnel(case) else 0
        dist["instances"] += len(names)
        for h, e in zip(hists, evs):
            nsub = sum(1 for x in e if x[0] == "SSub")
            dist["submit_calls"] += nsub
            dist["finished_reports"] += len(e) - nsub
            key = hashlib.md5(json.dumps([case["params"], case["steps"], cfg, H.pins_of(h)],
                                         sort_keys=True, default=str).encode()).hexdigest()
            ck.count("staged:" + key, nontrivial=nsub >= 1 and any(nd["parents"] for nd in nodes) and len(h["polls"]) >= 2)
    bad, errs = common.coq_failing("C01_stg", HEADER, TY, FN, lits, 100)
    hyg_out = common.coq_failing("C01_stg_h", HEADER, TY, "c01_staged_hyg", lits, 200)[0] if ck.tier == "thorough" else None
    for e in errs:
        ck.mismatch("coqc failed on a generated cases file (C01 on staged graphs)", None, e[1])
    reported = 0
    for i in bad[:5]:          # every bad case is a violation; the first few are narrowed down and reported
        case, cfg, hists = items[i]
        for h in hists:
            one, _ = common.coq_failing("C01_stg_1", HEADER, TY, FN, [g_case(case, [sev_list(h)])])
            if not one:
                continue
            loc = locate(case, h) if reported < 3 else None
            if loc:
                what = ("graph staged by the real Study.stage(): instance %s was submitted in poll %d before every instance it "
                        "depends on (expected parents: the expansion model of the specification) had been reported FINISHED; "
                        "FINISHED so far: %s" % (loc[0], loc[1], ", ".join(loc[2]) or "none"))
            else:
                what = ("graph staged by the real Study.stage(): a step instance was submitted before every instance it depends "
                        "on (expected parents: the expansion model of the specification) had been reported FINISHED")
            ck.violation(what, strip(case, cfg, h, what))
            reported += 1
            break
    fun = [it for it in items if has_funnel(it[0])] or items
    if fun:
        ck.sample(strip(fun[0][0], fun[0][1], fun[0][2][0]))
    dist["not_staged(exception)"] = stage_exc
    dist["outside_hygiene(not judged)"] = len(hyg_out) if hyg_out is not None else "not counted in the quick tier"
    ck.cov["staged_graphs"] = dict(dist, rule=(
        "studies from the C08 generators (exhaustive tiny family with a dependency, a funnel-biased family, the 'valid' "
        "stream biased towards dependencies and >= 2 combinations) staged by the real Study.stage(); %d scripted histories "
        "per study on the staged ExecutionGraph; inside Coq (Exec/ExecStaged.v): at every submit call every parent instance "
        "the expansion model (Expand.c08_model) expects has been reported FINISHED under an OK query" % n_hist))
    ck.cov["traces_validated_against_impl"] = ck.cov.get("traces_validated_against_impl", 0) + dist["histories"]


def replay_staged(ck, d):
    case = dict(d["study"], stream="replay")
    cfg = d["cfg"]
    names, nodes, hists = drive(case, cfg, random.Random(0), 1, scripted=d["pins"])
    if names is None:
        print("the study could not be staged:", hists)
        return 1
    h = hists[0]
    print(json.dumps(strip(case, cfg, h), indent=1))
    bad, errs = common.coq_failing("C01_stg_r", HEADER, TY, FN, [g_case(case, [sev_list(h)])])
    loc = locate(case, h) if bad else None
    print("c01_staged_case:", "false" if bad else "true", ("-- %s submitted in poll %d; FINISHED before: %s" % loc) if loc else "")
    return 1 if bad or errs else 0

"""Generic runner for the execution-graph properties (C01-C07, C17, C20 and the
trace part of C12/C19): proofs + correspondence + monitor.  Each property
module calls run_exec with its monitor family number and generator bias."""
import glob
import hashlib
import json
import os
import random
from collections import Counter

from harness import common
from harness import exec_harness as H

ENUM_KINDS = ["absent", "RUNNING", "FINISHED", "FAILED", "TIMEDOUT", "HWFAILURE", "CANCELLED", "UNKNOWN"]

TINY_GRAPHS = [
    # (parents per node, scheduled flags, has_restart flags, rlimits)
    ([[]], [True], [True], [1]),
    ([[], [0]], [True, True], [True, False], [1, 0]),
    ([[], [0]], [True, False], [False, False], [0, 0]),
    ([[], []], [True, True], [True, False], [0, 0]),
    ([[], [], [0, 1]], [True, True, True], [False, True], [0, 2, 0]),
    ([[], [0], [0]], [True, True, False], [False, False, True], [0, 0, 1]),
]


def mk_nodes(par, sched, hasr, rl):
    n = len(par)
    hasr = list(hasr) + [False] * n
    rl = list(rl) + [0] * n
    return [{"parents": par[i], "children": [j for j in range(n) if i in par[j]], "scheduled": sched[i],
             "has_restart": hasr[i], "rlimit": rl[i]} for i in range(n)]


def case_key(case):
    return hashlib.md5(json.dumps([case["nodes"], case["cfg"], H.pins_of(case)], sort_keys=True).encode()).hexdigest()


def nontrivial(case):
    return len(case["polls"]) >= 2 and any(e[0] == "submit" for p in case["polls"] for e in p["events"])


def enumerate_tiny(cfgs, depth, enum, graphs=TINY_GRAPHS, limit=None):
    out = []
    for gi, (par, sched, hasr, rl) in enumerate(graphs):
        nodes = mk_nodes(par, sched, hasr, rl)
        for cfg in cfgs:
            prefix = []
            while prefix is not None:
                ch = H.Chooser(prefix)
                c = H.run_history(nodes, cfg, random.Random(0), max_polls=depth, chooser=ch, enum=enum)
                c["origin"] = "enum"
                out.append(c)
                prefix = H.next_prefix(ch.trace)
                if limit and len(out) >= limit:
                    return out, False
    return out, True


def random_cases(rng, n, bias):
    out = []
    profiles = bias.get("profiles") or list(H.PROFILES)
    for _ in range(n):
        shape, nodes = H.gen_graph(rng, nmax=bias.get("nmax", 8))
        dry = bias.get("dry")
        cfg = H.gen_cfg(rng, len(nodes), dry=dry)
        if bias.get("throttled") and rng.random() < 0.7 and cfg["throttle"] == 0:
            cfg["throttle"] = rng.choice([1, 2, 3])
        if bias.get("attempts"):
            cfg["attempts"] = rng.choice(bias["attempts"])
        prof = rng.choice(profiles)
        fa = rng.choice(bias.get("fair_after", [None, None, 3, 6]))
        if rng.random() < bias.get("real_p", 0.15):
            # a share of the histories runs through the REAL Slurm / LSF adapter over a scripted process layer
            # (harness/exec_real.py): same case format, same model comparison, same monitor
            from harness import exec_real
            out.append(exec_real.random_history(rng, nodes, cfg, prof, fa, bias, shape))
            continue
        c = H.run_history(nodes, cfg, rng, profile=prof, max_polls=bias.get("max_polls", 14), fair_after=fa,
                          fair_bound=bias.get("fair_bound", 80), cancel_p=bias.get("cancel_p", 0.04),
                          qerr_p=bias.get("qerr_p", 0.015), qnojobs_p=bias.get("qnojobs_p", 0.06),
                          sub_ok_p=bias.get("sub_ok_p", 0.85),
                          # a share of the histories is driven through the REAL Conductor.monitor_study loop
                          # (cancel request = the .cancel.lock file, poll boundary = the loop's sleep)
                          via_conductor=rng.random() < bias.get("conductor_p", 0.4))
        c["origin"] = "random"
        c["shape"] = shape
        c["fair_after"] = fa
        out.append(c)
    return out


def corpus_cases(pid):
    out = []
    for f in sorted(glob.glob(os.path.join(common.CORPUS, pid, "*.json"))) + \
            sorted(glob.glob(os.path.join(common.CORPUS, "exec", "*.json"))):
        d = json.load(open(f))
        for via in (False, True):
            c = H.run_history(d["nodes"], d["cfg"], random.Random(0), scripted_pins=d["pins"], via_conductor=via)
            c["origin"] = "corpus:" + os.path.basename(f)
            out.append(c)
    from harness import exec_real
    return out + exec_real.corpus_cases()       # corpus/exec_real/*.json: histories through the real adapters


def liveness_bound(case):
    """Polls a fair tail may need: the potential of DESIGN C05 plus slack."""
    n = len(case["nodes"])
    return 3 * n + sum(nd["rlimit"] for nd in case["nodes"]) + 8


def strip(case):
    return {"nodes": case["nodes"], "cfg": case["cfg"], "pins": H.pins_of(case),
            "impl": [{"events": p["events"], "rows": p["rows"], "status": p["status"]} for p in case["polls"]],
            "origin": case.get("origin")}


def shrink_prefix(case, pidnum):
    """Shortest prefix of the history whose implementation trace still violates."""
    best = case
    for k in range(1, len(case["polls"])):
        sub = dict(case, polls=case["polls"][:k])
        bad, errs = common.coq_failing("shrink", H.HEADER, "ecase", "impl_ok %d" % pidnum, [H.g_case(sub)])
        if bad:
            best = sub
            break
    return best


# the hypotheses of the theorems (valid poll inputs along the run, in both agents' formulations) are
# asserted on every generated history, inside Coq, together with correspondence and monitors
HEADER_V = H.HEADER + """
From MWF Require Exec.ExecPoll Exec.ExecLedger3.
Definition hyp_ok (e : ecase) : bool :=
  ExecPoll.valid_pins (e_cfg e) (e_g e) (init (e_g e)) (e_pins e) &&
  ExecLedger3.valid_run (e_cfg e) (e_g e) (init (e_g e)) (e_pins e) &&
  (0 <? attempts (e_cfg e)).
Definition both_ok_v (pid : nat) (e : ecase) : bool := both_ok pid e && hyp_ok e.
"""


def evaluate(ck, pidnum, cases, tag):
    """Returns lists (concrete, mismatches) of (what, case)."""
    rep = [c for c in cases if H.representable(c)]
    crashed = [c for c in cases if not H.representable(c)]
    lits = [H.g_case(c) for c in rep]
    bad, errs = common.coq_failing(tag, HEADER_V, "ecase", "both_ok_v %d" % pidnum, lits)
    concrete, mism = [], []
    for e in errs:
        mism.append(("coqc failed on a generated cases file", None, e[1]))
    # an unexpected exception (EXC:*, never the ABORT the model predicts for a failed query) on inputs that meet the
    # theorems' hypotheses is by itself a failing input where the property says so: C05 (no verdict, exit code outside
    # {0,2,3}) and C07 ("the request never crashes the conductor") -- decided inside Coq on the inputs alone
    legal = set()
    want = [c for c in crashed if c["polls"] and (pidnum == 5 or (pidnum == 7 and any(p["cancel"] for p in c["polls"])))]
    if want:
        hl = [H.g_case(dict(c, polls=[dict(p, events=[], rows=[], status="RUNNING") for p in c["polls"]])) for c in want]
        hb, he = common.coq_failing(tag + "_h", HEADER_V, "ecase", "hyp_ok", hl)
        if not he:
            legal = {id(c) for k, c in enumerate(want) if k not in hb}
    for c in crashed:
        what = "implementation raised %s" % c["polls"][-1]["status"] if c["polls"] else c.get("exc")
        if id(c) in legal:
            concrete.append(("%s at poll %d on inputs that meet the theorems' hypotheses: %s" % (
                what, len(c["polls"]), "the study ends with no verdict (exit code outside {0,2,3})" if pidnum == 5
                else "a cancel request crashed the conductor"), c))
        mism.append((what, strip(c), c.get("exc", "")))
    if bad:
        sub = [lits[i] for i in bad]
        b_impl, _ = common.coq_failing(tag + "_i", H.HEADER, "ecase", "impl_ok %d" % pidnum, sub)
        b_corr, _ = common.coq_failing(tag + "_c", H.HEADER, "ecase", "corr_ok", sub)
        b_mod, _ = common.coq_failing(tag + "_m", H.HEADER, "ecase", "(fun e => is_nil (model_viol e))", sub)
        b_wf, _ = common.coq_failing(tag + "_w", H.HEADER, "ecase", "(fun e => wf_graph (e_g e))", sub)
        detail_budget = 20      # per-case Coq evaluations for the report are sequential: cap them
        for k, i in enumerate(bad):
            c = rep[i]
            if k >= detail_budget:
                if k in b_impl:
                    concrete.append(("monitor violated on the implementation's trace (codes not computed: report capped)", c))
                elif k in b_corr or k in b_mod or k in b_wf:
                    mism.append(("model and implementation disagree (details capped)", strip(c), ""))
                continue
            if k in b_impl:
                codes = common.coq_eval(tag + "_e", H.HEADER, "impl_viol (%s)" % lits[i])
                concrete.append(("monitor codes on the implementation's trace: " + " ".join(codes.split()), c))
            elif k in b_corr:
                mo = common.coq_eval(tag + "_e", H.HEADER, "model_obs (%s)" % lits[i])
                mism.append(("model and implementation observations differ", strip(c), mo[-3000:]))
            elif k in b_mod:
                codes = common.coq_eval(tag + "_e", H.HEADER, "model_viol (%s)" % lits[i])
                mism.append(("the regenerated model violates the monitor (codes %s)" % " ".join(codes.split()), strip(c), ""))
            elif k in b_wf:
                mism.append(("generated graph not well-formed (harness bug)", strip(c), ""))
            else:
                mism.append(("the history does not satisfy the theorems' hypotheses (valid poll inputs): harness bug or the "
                             "implementation queried/answered for jobs outside its in-progress set", strip(c), ""))
    return concrete, mism


def shown_violations(cases):
    """C02 / C06 speak about what is REPORTED / SHOWN: histories recorded with run_history(shown=True) carry,
    per poll, the rows of status.csv as the real write_status rendered them.  A shown State / Job ID /
    Number Restarts that differs from the engine record of the same poll (the record rows are what the
    correspondence run compares with the model rows the monitors are proved about) is a concrete failing
    input: [(what, history cut after the first differing poll)]."""
    out = []
    for c in cases:
        for k, p in enumerate(c["polls"]):
            if "shown" not in p:
                continue
            d = H.shown_diff(p["rows"], p["shown"])
            if d:
                i, col, got, want = d[0]
                what = ("status.csv written after poll %d shows %s=%s for step n%d, the engine record says %s "
                        "(%d differing cells in this poll)" % (k + 1, col, got, i, want, len(d))) if i >= 0 else \
                       "status.csv could not be written/read after poll %d: %s" % (k + 1, got)
                out.append((what, dict(c, polls=c["polls"][:k + 1])))
                break
    return out


def strip_shown(case):
    """replay file of a shown-row violation: the history plus what status.csv showed after every poll"""
    return dict(strip(case), shown=[p.get("shown") for p in case["polls"]], shown_check=True)


def run_exec(ck, pidnum, bias, quick_n=500, thorough_n=12000, tiny=None, extra=None, shown=False):
    """extra: optional callable(ck) run before the verdict (end-to-end additions of a property)."""
    pid = ck.pid
    H.SHOWN = bool(shown)       # C02, C06: every history also writes status.csv after every poll and reads it back
    # the tie lemma between the hand-written submit_attempts and the text generated from
    # _StepRecord.execute/restart/_execute/mark_* is an obligation of every execution property
    ck.build_proofs(extra_targets=["theories/Exec/ExecGen2Proofs.vo"])
    # Props/ExecMonitor.v: the trace monitor evaluated below on the implementation's trace raises NO code at all
    # on the model's own trace (monitor_silent), for every graph, config and valid poll-input list
    ck.build_proofs(props="ExecMonitor")
    from translate import regen
    ck.notes["tcode"] = {k: (v.get("ok"), v.get("not_translatable")) for k, v in regen.status().items()}
    rng = random.Random(ck.seed * 7919 + pidnum)
    cases = corpus_cases(pid)
    ncorpus = len(cases)
    exhaustive = None
    if tiny:
        depth = tiny["depth_quick"] if ck.tier == "quick" else tiny["depth_thorough"]
        graphs = TINY_GRAPHS[:tiny.get("graphs_quick", 3)] if ck.tier == "quick" else TINY_GRAPHS
        en, complete = enumerate_tiny(tiny["cfgs"], depth, dict(tiny["enum"], kinds=tiny["enum"].get("kinds", ENUM_KINDS)),
                                      graphs=graphs, limit=tiny.get("limit_quick", 6000) if ck.tier == "quick" else tiny.get("limit_thorough", 120000))
        exhaustive = {"depth": depth, "graphs": len(graphs), "cases": len(en), "complete": complete}
        cases += en
    n = quick_n if ck.tier == "quick" else thorough_n
    cases += random_cases(rng, n, bias)
    # liveness: fair tails must have terminated within the bound the theorem gives
    for c in cases:
        fa = c.get("fair_after")
        if fa is not None and c["end"] == "running" and len(c["polls"]) >= fa + liveness_bound(c):
            if pidnum in (5, 7):
                ck.violation("fair continuation did not terminate within %d polls" % liveness_bound(c), strip(c))
    concrete, mism = evaluate(ck, pidnum, cases, pid)
    from harness import exec_real
    # real-adapter histories: a job the scheduler accepted that Maestro recorded as a failed submission is alive
    # and uncounted (C03) / orphaned (C04), whatever the engine-level trace says
    concrete += exec_real.violations(cases, pidnum)
    for c in cases:
        ck.count(case_key(c), nontrivial(c))
    for c in cases[ncorpus:ncorpus + 1] + cases[-2:]:
        ck.sample(strip(c))
    for k, (what, c) in enumerate(concrete):
        # shrinking costs one Coq run per prefix: only the reported input (the first) and one more are shrunk
        ck.violation(what, strip(shrink_prefix(c, pidnum) if k < 2 else c))
    for what, c, detail in mism:
        ck.mismatch(what, c, detail)
    if shown:
        sv = shown_violations(cases)
        for what, c in sv[:3]:
            ck.violation(what, strip_shown(c))
        ck.cov["shown_rows_compared"] = sum(1 for c in cases for p in c["polls"] if "shown" in p)
        ck.notes["shown_row_differences"] = len(sv)
    dist = Counter()
    for c in cases:
        dist["end:" + (c["polls"][-1]["status"] if c["polls"] else "none")] += 1
        dist["origin:" + c.get("origin", "?").split(":")[0]] += 1
        dist["driver:" + ("Conductor.monitor_study" if c.get("via_conductor") else "direct")] += 1
        dist["polls:%02d" % min(len(c["polls"]), 20)] += 1
        dist["nodes:%d" % len(c["nodes"])] += 1
        dist["throttle:%d" % min(c["cfg"]["throttle"], 4)] += 1
        if c["cfg"]["dry"]:
            dist["dry"] += 1
        for p in c["polls"]:
            dist["q:" + p["q"]] += 1
            if p["cancel"]:
                dist["cancel_polls"] += 1
            for _, v in p["reports"]:
                dist["rep:" + str(v)] += 1
            for e in p["events"]:
                if e[0] == "submit":
                    dist["submit:%s:%s:%s" % (e[2], "sched" if e[3] else "local", "ok" if e[4] is not None else "fail")] += 1
    ck.cov["input_distribution"] = dict(sorted(dist.items()))
    ck.cov["traces_validated_against_impl"] = len(cases)
    ck.cov["exhaustive_small_scope"] = exhaustive
    ck.cov["exhaustive"] = False
    ck.cov["rule"] = ("corpus histories, then an exhaustive choice-sequence enumeration over tiny graphs (every report kind for "
                      "every queried job at every poll up to the stated depth, with cancel / query-fault / submission-fault "
                      "injection where the property needs it), then random histories generated adaptively against the real "
                      "ExecutionGraph (reports drawn for the job ids it queries; profiles mixed/happy/timeout/hw/faulty/failing; "
                      "a share driven to completion by a fair tail). Each case = (graph, config, poll inputs) + the implementation's "
                      "adapter calls, status rows and returned status per poll; inside Coq: model observations = implementation "
                      "observations, monitor family clean on the implementation trace and on the model trace. "
                      "non-trivial = at least 2 polls and at least one submission; distinct by hash of (graph, config, poll inputs)")

    def search():
        r2 = random.Random(ck.seed + 424242)
        extra = random_cases(r2, 3000, bias)
        rep = [c for c in extra if H.representable(c)]
        bad, _ = common.coq_failing(pid + "_search", H.HEADER, "ecase", "impl_ok %d" % pidnum, [H.g_case(c) for c in rep])
        if bad:
            c = shrink_prefix(rep[bad[0]], pidnum)
            return ("monitor violated on the implementation's trace (found by the post-failure search)", strip(c))
        return None

    if extra is not None:
        try:
            extra(ck)
        except Exception:
            import traceback
            ck.mismatch("the end-to-end part of the check could not run to completion", None, traceback.format_exc()[-3000:])
    return ck.finish(search=search)


def replay_shown(d):
    """re-run a stored history with status.csv written and read back after every poll; 1 when a shown row differs"""
    rc = 0
    for via in (False, True):
        c = H.run_history(d["nodes"], d["cfg"], random.Random(0), scripted_pins=d["pins"], via_conductor=via, shown=True)
        for k, p in enumerate(c["polls"]):
            print("poll %d (%s) records: %s" % (k + 1, "Conductor.monitor_study" if via else "direct", p["rows"]))
            print("          status.csv: %s" % (p.get("shown"),))
        for what, _c in shown_violations([c]):
            print("SHOWN-ROW VIOLATION:", what)
            rc = 1
    return rc


def replay_exec(ck, pidnum, path, shown=False):
    d = json.load(open(path))
    d = d.get("case", d)
    if shown and replay_shown(d):
        return 1
    from harness import exec_real
    if exec_real.is_real(d):
        return exec_real.replay(ck, pidnum, d)
    c = H.run_history(d["nodes"], d["cfg"], random.Random(0), scripted_pins=d["pins"])
    print(json.dumps(strip(c), indent=1))
    if H.representable(c):
        lit = H.g_case(c)
        print("model observations:", common.coq_eval("replay", H.HEADER, "model_obs (%s)" % lit))
        print("corr_ok:", common.coq_eval("replay", H.HEADER, "corr_ok (%s)" % lit))
        print("monitor codes (implementation):", common.coq_eval("replay", H.HEADER, "impl_viol (%s)" % lit))
        bad, _ = common.coq_failing("replay_c", H.HEADER, "ecase", "both_ok %d" % pidnum, [lit])
        return 1 if bad else 0
    return 1

"""Launcher for the END-TO-END runs (C05 exit codes, C18, C19).

Started as a sub-process:

    /venv/bin/python /verif/harness/e2e_launcher.py maestro   run -fg -y -s 7919 -o OUT spec.yaml
    /venv/bin/python /verif/harness/e2e_launcher.py conductor -t 7919 OUT

It replaces `time.sleep` BEFORE maestrowf is imported (conductor.py and
executiongraph.py both do `from time import sleep`), optionally registers a
scripted scheduler adapter through the plug-in registry
`ScriptAdapterFactory.factories`, and then calls the real entry point
`maestrowf.maestro.main` / `maestrowf.conductor.main` with the given argv.
Nothing inside maestrowf is patched: the real LocalScriptAdapter, real Popen,
real dill, real file locks are used.  The process exit code is whatever the
entry point passes to `sys.exit` (an uncaught exception gives 1 + traceback).

Environment (all optional):
  E2E_MARK_LOG    file; every stubbed sleep appends one line `SLEEP <secs>`;
                  a sleep whose argument equals E2E_POLL_SLEEP appends `POLL <k>`
                  instead (that is the conductor's sleep between two polls: the
                  harness passes a distinctive -s/-t value).  The steps of the
                  generated studies append their own markers to the same file,
                  so poll boundaries and step executions are totally ordered.
  E2E_POLL_SLEEP  the sleeptime given on the command line (string of an int).
  E2E_STUDY_DIR   study output directory; at every POLL the files status.csv and
                  *.pkl (not *.study.pkl) found there are copied to
                  E2E_SNAP_DIR/status.<k>.csv and E2E_SNAP_DIR/graph.<k>.pkl.
  E2E_SNAP_DIR    see above.
  E2E_SCRIPTED    JSON file describing the scripted scheduler (adapter key
                  "scripted"):
                    {"log": path,                      # JSON lines of adapter calls
                     "submit":  {instance: [bool...]}, # outcomes of successive submits (default true)
                     "reports": {instance: [state|null...]},  # successive check_jobs answers, last repeats
                     "submit_by_prefix" / "reports_by_prefix": {step template: [...]}  # for every instance of it
                     "default": "FINISHED",
                     "faults": [{"call": "submit", "n": 2, "exc": "OSError"}],   # optional: that call raises
                     "reap_tmp": true,                 # optional: every check_jobs call first removes the --usetmp script dir
                     "after_cancel": "CANCELLED",      # optional: what jobs given to cancel_jobs report from then on
                     "qcodes":  ["OK", ...]}           # per check_jobs call, last repeats (default OK)
                  The log also receives {"call": "poll", "k": k} at every POLL sleep and, per write_script
                  call, the directory, file names and command texts written.
  E2E_GATE, E2E_GATE_AT, E2E_GATE_REACHED
                  at the POLL sleep number E2E_GATE_AT the process appends a line to
                  E2E_GATE_REACHED and blocks (real time) until the file E2E_GATE exists.
  E2E_MAX_POLLS   safety net: after that many POLL sleeps the process exits 99.
"""
import json
import os
import shutil
import sys
import time

_real_sleep = time.sleep
_state = {"polls": 0}


def _append(path, line):
    with open(path, "a") as f:
        f.write(line + "\n")


def _snap(k):
    sd, dd = os.environ.get("E2E_STUDY_DIR"), os.environ.get("E2E_SNAP_DIR")
    if not sd or not dd:
        return
    try:
        os.makedirs(dd, exist_ok=True)
        st = os.path.join(sd, "status.csv")
        if os.path.exists(st):
            shutil.copyfile(st, os.path.join(dd, "status.%d.csv" % k))
        for fn in os.listdir(sd):
            if fn.endswith(".pkl") and not fn.endswith(".study.pkl"):
                shutil.copyfile(os.path.join(sd, fn), os.path.join(dd, "graph.%d.pkl" % k))
    except OSError as e:                       # never disturb the run under observation
        _append(os.path.join(dd, "snap_errors.txt"), "%d %r" % (k, e))


def _sleep(secs=0, *_a, **_k):
    log = os.environ.get("E2E_MARK_LOG")
    poll = os.environ.get("E2E_POLL_SLEEP")
    is_poll = poll is not None and str(secs) == poll
    if is_poll:
        k = _state["polls"]
        _state["polls"] = k + 1
        _snap(k)
        if log:
            _append(log, "POLL %d" % k)
        if _state.get("adapter_log"):
            _append(_state["adapter_log"], json.dumps({"call": "poll", "k": k}))
        gate = os.environ.get("E2E_GATE")
        if gate and str(k) == os.environ.get("E2E_GATE_AT", "0"):
            # rendez-vous with the harness: tell it this poll is over, wait until it opens the gate
            reached = os.environ.get("E2E_GATE_REACHED")
            if reached:
                _append(reached, "reached %d" % k)
            t0 = time.time()
            while not os.path.exists(gate):
                if time.time() - t0 > 120:
                    sys.stderr.write("e2e_launcher: gate never opened\n")
                    sys.stderr.flush()
                    os._exit(97)
                _real_sleep(0.05)
        mx = int(os.environ.get("E2E_MAX_POLLS", "400"))
        if k + 1 >= mx:
            sys.stderr.write("e2e_launcher: poll budget exhausted\n")
            sys.stderr.flush()
            os._exit(99)
    elif log:
        _append(log, "SLEEP %s" % ("%.3f" % secs if isinstance(secs, float) else secs))


time.sleep = _sleep


def _register_scripted(path):
    cfg = json.load(open(path))
    from maestrowf.abstracts.enums import JobStatusCode, State, SubmissionCode, CancelCode
    from maestrowf.interfaces import ScriptAdapterFactory
    from maestrowf.interfaces.script import SubmissionRecord, CancellationRecord
    log = cfg.get("log")
    _state["adapter_log"] = log
    st = {"next": 1000, "job_inst": {}, "nsub": {}, "nrep": {}, "nq": 0, "cancelled": set(), "ncall": {}}

    def rec(obj):
        if log:
            _append(log, json.dumps(obj))

    def fault(kind, inst=None):
        """cfg["faults"] = [{"call": "write_script"|"submit"|"check_jobs"|"cancel_jobs", "n": k, "exc": "OSError"}]:
        the k-th call (0-based) of that kind raises the named exception (the adapter command blew up)"""
        n = st["ncall"].get(kind, 0)
        st["ncall"][kind] = n + 1
        for f in cfg.get("faults", []):
            if f["call"] == kind and f["n"] == n:
                rec({"call": "fault", "in": kind, "n": n, "inst": inst, "exc": f.get("exc", "OSError")})
                raise {"OSError": OSError, "ValueError": ValueError, "RuntimeError": RuntimeError,
                       "KeyError": KeyError}.get(f.get("exc"), OSError)("scripted fault in %s #%d" % (kind, n))

    def lookup(table, inst, cwd=None):
        """exact instance name, else the longest step-template name T with inst == T or inst = T_<combo>,
        else the template named by the workspace path (<out>/T or <out>/T/<combo>)"""
        t = cfg.get(table, {})
        if inst in t:
            return t[inst]
        best = None
        bp = cfg.get(table + "_by_prefix", {})
        for k, v in bp.items():
            if inst == k or (inst or "").startswith(k + "_"):
                if best is None or len(k) > len(best[0]):
                    best = (k, v)
        if best is None and cwd:
            for cand in (os.path.basename(os.path.dirname(cwd)), os.path.basename(cwd)):
                if cand in bp:
                    return bp[cand]
        return best[1] if best else None

    class Scripted(object):
        key = "scripted"

        def __init__(self, **kwargs):
            self._exec = kwargs.get("shell", "/bin/bash")

        def write_script(self, ws_path, step):
            fault("write_script", step.name)
            import tempfile
            troot = os.path.realpath(tempfile.gettempdir())
            if os.path.realpath(ws_path).startswith(troot + os.sep):
                # --usetmp: <mkdtemp>/<md5 of the instance name>; remember the mkdtemp directory
                st.setdefault("tmp_roots", set()).add(os.path.dirname(os.path.realpath(ws_path)))
            script = os.path.join(ws_path, "%s.scripted.sh" % step.name)
            with open(script, "w") as f:
                f.write("#!%s\n\n%s\n" % (self._exec, step.run["cmd"]))
            rscript = None
            if step.run["restart"]:
                rscript = os.path.join(ws_path, "%s.scripted.restart.sh" % step.name)
                with open(rscript, "w") as f:
                    f.write("#!%s\n\n%s\n" % (self._exec, step.run["restart"]))
            for pth in (script, rscript):
                if pth:
                    os.chmod(pth, os.stat(pth).st_mode | 0o111)     # ScriptAdapter.write_script does the same
            sched = bool(step.run.get("nodes") or step.run.get("procs"))
            rec({"call": "write_script", "inst": step.name, "scheduled": sched, "dir": ws_path,
                 "script": os.path.basename(script), "cmd": step.run["cmd"],
                 "restart_script": os.path.basename(rscript) if rscript else None,
                 "restart": step.run["restart"] or None})
            return sched, script, rscript

        def submit(self, step, path, cwd, job_map=None, env=None):
            # under --hashws step.name is the digest of the parameter combination (shared by several
            # instances): instances are told apart by their workspace `cwd`
            fault("submit", step.name)
            n = st["nsub"].get(cwd, 0)
            st["nsub"][cwd] = n + 1
            outs = lookup("submit", step.name, cwd) or []
            ok = outs[n] if n < len(outs) else True
            if ok:
                j = st["next"]
                st["next"] += 1
                st["job_inst"][str(j)] = (step.name, cwd)
                rec({"call": "submit", "inst": step.name, "cwd": cwd, "restart": path.endswith(".restart.sh"), "job": j})
                return SubmissionRecord(SubmissionCode.OK, 0, str(j))
            rec({"call": "submit", "inst": step.name, "cwd": cwd, "restart": path.endswith(".restart.sh"), "job": None})
            return SubmissionRecord(SubmissionCode.ERROR, 1)

        def check_jobs(self, joblist):
            fault("check_jobs")
            if cfg.get("reap_tmp") and st.get("tmp_roots"):
                # a /tmp reaper: the temporary script directory disappears while jobs are in flight
                gone = [d for d in sorted(st["tmp_roots"]) if os.path.isdir(d)]
                for d in gone:
                    shutil.rmtree(d, ignore_errors=True)
                if gone:
                    rec({"call": "reap", "dirs": gone})
            qs = cfg.get("qcodes") or ["OK"]
            q = qs[min(st["nq"], len(qs) - 1)]
            st["nq"] += 1
            out = {}
            for j in joblist:
                inst, cwd = st["job_inst"].get(str(j), (None, None))
                seq = lookup("reports", inst, cwd)
                k = st["nrep"].get(cwd, 0)
                st["nrep"][cwd] = k + 1
                if str(j) in st["cancelled"] and cfg.get("after_cancel"):
                    v = cfg["after_cancel"]          # the scheduler honours cancel_jobs
                elif seq:
                    v = seq[min(k, len(seq) - 1)]
                else:
                    v = cfg.get("default", "FINISHED")
                out[j] = None if v is None else State[v]
            rec({"call": "check_jobs", "jobs": [str(j) for j in joblist], "q": q,
                 "answer": {str(j): (None if v is None else v.name) for j, v in out.items()}})
            return JobStatusCode[q], out

        def cancel_jobs(self, joblist):
            fault("cancel_jobs")
            rec({"call": "cancel_jobs", "jobs": [str(j) for j in joblist]})
            st["cancelled"].update(str(j) for j in joblist)
            return CancellationRecord(CancelCode.OK, 0)

    ScriptAdapterFactory.factories["scripted"] = Scripted


def main():
    if len(sys.argv) < 2 or sys.argv[1] not in ("maestro", "conductor"):
        sys.stderr.write(__doc__)
        sys.exit(64)
    entry = sys.argv[1]
    argv = sys.argv[2:]
    if os.environ.get("E2E_SCRIPTED"):
        _register_scripted(os.environ["E2E_SCRIPTED"])
    if entry == "maestro":
        import maestrowf.maestro as m
        sys.argv = ["maestro"] + argv
    else:
        import maestrowf.conductor as m
        sys.argv = ["conductor"] + argv
    m.main()
    # maestro.main always ends in sys.exit(rc); conductor.main likewise.  Falling through
    # means the entry point returned without choosing an exit code.
    sys.exit(0)


if __name__ == "__main__":
    main()

"""C04 -- see DESIGN.md section 5.  Proofs: coq/theories/Props/C04.v; correspondence
and monitor: harness/exec_props.py (monitor family 4 of Exec/ExecTrace.v)."""
from harness import exec_props as X

BIAS = {"profiles": ["timeout", "hw", "faulty", "failing", "mixed"], "sub_ok_p": 0.75}
TINY = {"cfgs": [{"throttle": 0, "attempts": 1, "dry": False}, {"throttle": 1, "attempts": 2, "dry": False}],
        "depth_quick": 3, "depth_thorough": 4, "graphs_quick": 3, "enum": {"subs": True},
        "limit_quick": 1500, "limit_thorough": 15000}


def run(ck):
    return X.run_exec(ck, 4, BIAS, tiny=TINY)


def replay(ck, path):
    return X.replay_exec(ck, 4, path)

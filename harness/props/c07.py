"""C07 -- see DESIGN.md section 5.  Proofs: coq/theories/Props/C07.v; correspondence
and monitor: harness/exec_props.py (monitor family 7 of Exec/ExecTrace.v)."""
from harness import exec_props as X

BIAS = {"cancel_p": 0.15, "profiles": ["timeout", "hw", "mixed", "failing"]}
TINY = {"cfgs": [{"throttle": 0, "attempts": 1, "dry": False}, {"throttle": 1, "attempts": 1, "dry": False}],
        "depth_quick": 3, "depth_thorough": 4, "graphs_quick": 3,
        "enum": {"cancel": True, "kinds": ["absent", "RUNNING", "FINISHED", "TIMEDOUT", "HWFAILURE", "CANCELLED"]},
        "limit_quick": 1500, "limit_thorough": 15000}


def _adapters(ck):
    # the cancel path of every REAL adapter (Local, Slurm, LSF with a scripted process layer; Flux
    # interfaces with an in-memory fake flux module): cancel_jobs([]) total, every id of the list gets a
    # cancel attempt, nothing else does, CancellationRecord OK iff all succeeded; cancel_study end to end
    from harness.props import c07_adapters
    c07_adapters.run_adapters(ck)
    # the real `maestro cancel` command line over several running studies: every named study gets its
    # request (cancel_jobs with its live jobs, nothing submitted afterwards, exit 3), unnamed ones are untouched
    from harness import e2e
    e2e.check_cancel_cli(ck, pidnum=7)


def run(ck):
    return X.run_exec(ck, 7, BIAS, tiny=TINY, extra=_adapters)


def replay(ck, path):
    import json
    from harness.props import c07_adapters
    d = json.load(open(path))
    if c07_adapters.is_adapter_case(d.get("case", d)):
        return c07_adapters.replay_adapters(ck, d)
    return X.replay_exec(ck, 7, path)

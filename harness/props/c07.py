"""C07 -- see DESIGN.md section 5.  Proofs: coq/theories/Props/C07.v; correspondence
and monitor: harness/exec_props.py (monitor family 7 of Exec/ExecTrace.v)."""
from harness import exec_props as X

BIAS = {"cancel_p": 0.15, "profiles": ["timeout", "hw", "mixed", "failing"]}
TINY = {"cfgs": [{"throttle": 0, "attempts": 1, "dry": False}, {"throttle": 1, "attempts": 1, "dry": False}],
        "depth_quick": 3, "depth_thorough": 4, "graphs_quick": 3,
        "enum": {"cancel": True, "kinds": ["absent", "RUNNING", "FINISHED", "TIMEDOUT", "HWFAILURE", "CANCELLED"]},
        "limit_quick": 1500, "limit_thorough": 15000}


def run(ck):
    return X.run_exec(ck, 7, BIAS, tiny=TINY)


def replay(ck, path):
    return X.replay_exec(ck, 7, path)

"""C12 -- the status table is complete, consistent and always readable.

Proof side: coq/theories/Props/C12.v (Status/Csv.v, Rows.v, Lock.v + proofs).
Correspondence side (this file), against the real code in /repo:

 (a) real ExecutionGraph objects (real StudyStep/_StepRecord, add_step,
     add_connection) over generated DAG shapes and record contents; the real
     write_status writes status.csv, the real Conductor.get_status reads it
     back; file text and returned dictionary are compared, INSIDE Coq, with
     `render (status_rows ..)` / `parse`, and the monitor `C12_ok` (the
     predicate of theorem C12_ok_model) is evaluated on the implementation's
     dictionary;
 (b) a multi-process stress run on the real FileLock (one writer alternating
     two complete tables through write_status, readers through
     Conductor.get_status): every read must be one of the two tables;
 (c) the status renderers (every registered layout) are smoke-run on the
     in-H12 tables: must not raise;
 (d) a structural (ast) check that both open(stat_path ..) calls sit inside
     `with lock.acquire(..)` on the same ".status.lock" next to status.csv,
     inside a try that catches filelock.Timeout.
"""
import ast
import datetime as _dt
import glob
import hashlib
import itertools
import json
import os
import random
import shutil
import subprocess
import sys
import time

from harness import common

PID = "C12"
WORKDIR = os.path.join(common.WORK, "c12")
CORPUS = os.path.join(common.CORPUS, PID)

# Strings travel as packed primitive integers (a 1 MB `cases.v` of Coq string
# literals takes a minute to type-check, the packed form a few seconds):
#   a7  [i; ..]  seven 7-bit characters (1..127) per 63-bit integer, low byte first, 0 = padding
#   u21 [i; ..]  three code points (+1) of 21 bits each per integer, 0 = padding
HEADER = """From Coq Require Import List NArith ZArith Uint63.
From MWF Require Import Base.Util Base.Str Status.Csv Status.Rows.
Import ListNotations.
Fixpoint unpack_int (k : nat) (bits : int) (mask : int) (off : Z) (v : int) : list N :=
  match k with
  | O => []
  | S k' =>
    let b := Uint63.land v mask in
    if Uint63.eqb b 0%uint63 then unpack_int k' bits mask off (Uint63.lsr v bits)
    else Z.to_N (Uint63.to_Z b - off) :: unpack_int k' bits mask off (Uint63.lsr v bits)
  end.
Definition a7 (l : list int) : str := flat_map (unpack_int 7 8%uint63 255%uint63 0%Z) l.
Definition u21 (l : list int) : str := flat_map (unpack_int 3 21%uint63 2097151%uint63 1%Z) l.
"""
CASE_TY = "Rows.case"

QUICK_CASES, THOROUGH_CASES = 400, 6000
QUICK_STRESS_S, THOROUGH_STRESS_S = 4.0, 60.0
QUICK_RENDER, THOROUGH_RENDER = 80, 1200

BASE_DT = _dt.datetime(2024, 1, 2, 3, 4, 5)
NOW_DT = _dt.datetime(2024, 1, 5, 0, 0, 0)

KNOWN_COMMA = "K3-comma"
KNOWN_NEWLINE = "K3-newline"


# ----------------------------------------------------------------------------
# the implementation side
# ----------------------------------------------------------------------------
class _FrozenDT(_dt.datetime):
    """`datetime.now()` inside executiongraph.py is pinned so that the timing
    cells (not modelled: handed to the model as opaque strings) are stable."""
    @classmethod
    def now(cls, tz=None):
        return NOW_DT


_IMPL = {}


def impl():
    if not _IMPL:
        from maestrowf.datastructures.core import executiongraph as EG
        from maestrowf.datastructures.core.study import StudyStep
        from maestrowf.abstracts.enums import State
        from maestrowf.conductor import Conductor
        EG.datetime = _FrozenDT
        _IMPL.update(EG=EG, StudyStep=StudyStep, State=State, Conductor=Conductor)
    return _IMPL


def state_names():
    return [m.name for m in impl()["State"]]


def _t(x):
    return None if x is None else BASE_DT + _dt.timedelta(seconds=x)


def build_graph(case):
    """Real ExecutionGraph from the case's op list (the way Study._stage does:
    add_node("_source"), add_step per instance, add_connection per edge)."""
    I = impl()
    g = I["EG"].ExecutionGraph()
    g.add_node("_source", None)
    nodes = case["nodes"]
    names = ["_source"] + [nd["name"] for nd in nodes]
    for op in case["ops"]:
        if op[0] == "node":
            nd = nodes[op[1] - 1]
            st = I["StudyStep"]()
            st.name = nd["name"]
            params = [(k, v) for k, v in nd["params"]]
            g.add_step(nd["name"], st, nd["ws"], 3, params=params or None)
        else:
            g.add_connection(names[op[1]], names[op[2]])
    return g


def apply_records(g, nodes, which):
    State = impl()["State"]
    for nd in nodes:
        d = nd if which == "final" else dict(nd, **nd.get("pre", {}))
        rec = g.values[nd["name"]]
        rec.status = State[d["state"]]
        rec.jobid = list(d["jobids"])
        rec._num_restarts = d["restarts"]
        rec._submit_time, rec._start_time, rec._end_time = [_t(x) for x in d["times"]]


def canon_parsed(call):
    try:
        r = call()
    except IndexError:
        return "IndexError"
    except KeyError:
        return "KeyError"
    except Exception as e:  # anything else is outside the model
        return "other:" + type(e).__name__
    if not isinstance(r, dict):
        return "other:type:" + type(r).__name__
    try:
        return [[str(k), [str(c) for c in col]] for k, col in r.items()]
    except Exception as e:
        return "other:" + type(e).__name__


def run_impl(case, d):
    """-> dict(adj, recs, text, parsed, dict) ; never raises."""
    out = {"adj": None, "recs": None, "text": None, "parsed": "other:not-run", "error": None,
           "table": None}
    try:
        I = impl()
        shutil.rmtree(d, ignore_errors=True)
        os.makedirs(d)
        g = build_graph(case)
        nodes = case["nodes"]
        if any("pre" in nd for nd in nodes):
            # an earlier poll wrote the table already (status_subtree cache, overwrite)
            apply_records(g, nodes, "pre")
            g.write_status(d)
        apply_records(g, nodes, "final")
        keys = list(g.values.keys())
        idx = {k: i for i, k in enumerate(keys)}
        out["adj"] = [[idx[k], [idx[c] for c in cs]] for k, cs in g.adjacency_table.items()]
        by_name = {nd["name"]: nd for nd in nodes}
        recs = []
        for k in keys:
            if k == "_source":
                recs.append(None)
                continue
            nd, rec = by_name[k], g.values[k]
            times = [rec.run_time, rec.elapsed_time, rec.time_start, rec.time_submitted, rec.time_end]
            recs.append({"name": nd["name"], "jobids": ["{}".format(j) for j in nd["jobids"]],
                         "ws": nd["ws"], "state": nd["state"], "times": [str(x) for x in times],
                         "restarts": nd["restarts"],
                         "params": [["{}".format(k_), "{}".format(v_)] for k_, v_ in nd["params"]]})
        out["recs"] = recs
        g.write_status(d)
        with open(os.path.join(d, "status.csv"), "r", newline="", encoding="utf-8") as f:
            out["text"] = f.read()
        holder = {}

        def call():
            holder["r"] = I["Conductor"].get_status(d)
            return holder["r"]
        out["parsed"] = canon_parsed(call)
        out["table"] = holder.get("r")
    except Exception as e:
        out["error"] = "%s: %s" % (type(e).__name__, e)
    return out


# ----------------------------------------------------------------------------
# Gallina literals
# ----------------------------------------------------------------------------
def g_str(x):
    """A python str as a Gallina term of type `str` (see HEADER)."""
    def ascii7(ch):
        return 1 <= ord(ch) < 128
    segs, i, n = [], 0, len(x)
    while i < n:
        j = i
        if ascii7(x[i]):
            while j < n and ascii7(x[j]):
                j += 1
            b = x[i:j].encode("ascii")
            ints = []
            for k in range(0, len(b), 7):
                v = 0
                for m, ch in enumerate(b[k:k + 7]):
                    v |= ch << (8 * m)
                ints.append(v)
            segs.append("a7 [" + "; ".join("%d" % v for v in ints) + "]%uint63")
        else:
            while j < n and not ascii7(x[j]):
                j += 1
            cps = [ord(ch) + 1 for ch in x[i:j]]
            ints = []
            for k in range(0, len(cps), 3):
                v = 0
                for m, cp in enumerate(cps[k:k + 3]):
                    v |= cp << (21 * m)
                ints.append(v)
            segs.append("u21 [" + "; ".join("%d" % v for v in ints) + "]%uint63")
        i = j
    if not segs:
        return "[]"
    if len(segs) == 1:
        return "(" + segs[0] + ")"
    return "(" + " ++ ".join(segs) + ")"


def g_rec(r):
    if r is None:
        return "dummy_rec"
    return "(mkRec %s %s %s %s %s %s %s)" % (
        g_str(r["name"]), common.g_list([g_str(j) for j in r["jobids"]]),
        g_str(r["ws"]), g_str(r["state"]),
        common.g_list([g_str(x) for x in r["times"]]), common.g_N(r["restarts"]),
        common.g_list([common.g_pair(g_str(k), g_str(v)) for k, v in r["params"]]))


def g_parsed(p):
    if p == "IndexError":
        return "PIndexError"
    if p == "KeyError":
        return "PKeyError"
    if isinstance(p, str):
        return "POther"
    return "(PTable %s)" % common.g_list(
        [common.g_pair(g_str(k), common.g_list([g_str(c) for c in col])) for k, col in p])


def g_case(o):
    adj = common.g_list([common.g_pair(common.g_nat(k), common.g_list([common.g_nat(c) for c in cs]))
                         for k, cs in o["adj"]])
    recs = common.g_list([g_rec(r) for r in o["recs"]])
    return "(%s, %s, (%s, %s))" % (adj, recs, g_str(o["text"] or ""), g_parsed(o["parsed"]))


# ----------------------------------------------------------------------------
# generators
# ----------------------------------------------------------------------------
SAFE_TOKENS = ["a", "b", "step", "run-sim", "post_process", "X.1", "SIZE.10", "ITER.3", "_", ".", "..",
               "-", "--", "+", "=", "#", "%s", "{}", "{0}", "$", "$(X)", "(", ")", ":", ";", "::", ";;",
               "\"", "'", "\"\"", "[", "]", "[/x]", "[bold]", "[/]", "[red", "\\", "\\n", "/", "//",
               " ", "  ", "\t", "\x0b", "\x0c", "\x1c", "\x1d", "\x1e", "\x85", "\u2028", "\u2029",
               "\u00e9", "\u6f22\u5b57", "\U0001F600", "\u00a0", "\ufeff", "\x7f", "\x01", "0", "12", "1e-3"]
EXOTIC_TOKENS = [",", "\n", "\r", "\r\n", ",,", "\n\n", ",\n", "\n,", "a,b", "x\ny", "x\ry", "\n\r"]
PLAIN_TOKENS = ["a", "b", "c", "step", "sim", "post", "X.1", "X.2", "Y.a", "SIZE.10", "_", "-", "."]
KEYS = ["X", "Y", "SIZE", "ITER", "N_PROCS", "k", "α", "a b", "K:1", "K;2", ""]


def gen_text(rng, exotic, plain=False, maxtok=4, allow_empty=True):
    if plain:
        toks = PLAIN_TOKENS
    else:
        toks = SAFE_TOKENS + PLAIN_TOKENS
    n = rng.choice([0, 1, 1, 2, 2, 3, maxtok]) if allow_empty else rng.choice([1, 1, 2, 2, 3, maxtok])
    parts = [rng.choice(toks) for _ in range(n)]
    if exotic and (rng.random() < 0.6 or not parts):
        parts.insert(rng.randrange(len(parts) + 1), rng.choice(EXOTIC_TOKENS))
    return "".join(parts)


def gen_value(rng, exotic, plain):
    r = rng.random()
    if r < 0.25:
        return rng.choice([0, 1, 2, 10, 128, 4096, -1, 10 ** 12])
    return gen_text(rng, exotic, plain)


def gen_ws(rng, name, params, exotic, plain):
    safe = "".join(c for c in name if c.isalnum() or c in "-_.() ").replace(" ", "_") or "step"
    root = os.path.join(WORKDIR, "out", "study_20240102-030405")
    r = rng.random()
    if plain or r < 0.6:
        if params:
            return os.path.join(root, safe.split("_")[0] or "s", safe)
        return os.path.join(root, safe)
    if r < 0.7:
        return os.path.join(root, safe) + "/"
    if r < 0.78:
        return "rel/" + safe
    if r < 0.84:
        return root + "//x/./" + safe + "/../" + safe
    if r < 0.88:
        return rng.choice(["", "/", "//", ".", "..", "../..", "/..", "a", "///a", "//a/b", "a/b/c/", "./a"])
    return os.path.join(root, gen_text(rng, exotic, False, allow_empty=False).replace("\x00", ""))


def gen_times(rng):
    r = rng.random()
    if r < 0.3:
        return [None, None, None]
    sub = rng.choice([0, 5, 3600])
    if r < 0.5:
        return [sub, None, None]
    sta = sub + rng.choice([0, 7, 86400 + 61])
    if r < 0.7:
        return [sub, sta, None]
    if r < 0.75:
        return [None, sta, None]
    return [sub, sta, sta + rng.choice([0, 1, 59, 3599, 90000])]


def gen_dyn(rng, exotic, plain):
    njobs = rng.choice([0, 0, 1, 1, 2, 3])
    jobids = []
    for _ in range(njobs):
        r = rng.random()
        if r < 0.5:
            jobids.append(rng.choice([1, 7, 123456, 99999999]))
        elif r < 0.8:
            jobids.append(rng.choice(["123", "4567.batch", "ƒAbC123", "job<12>", "12_3"]))
        else:
            jobids.append(gen_text(rng, exotic, plain, allow_empty=True))
    return {"state": rng.choice(state_names()), "jobids": jobids,
            "restarts": rng.choice([0, 0, 0, 1, 2, 3, 5, 17, 10 ** 9 + 7]),
            "times": gen_times(rng)}


def gen_shape(rng, n, exotic):
    """-> ops list over nodes 1..n (0 = source)."""
    kind = rng.choice(["chain", "fan", "funnel", "diamond", "layers", "random", "random", "random"])
    parents = {}
    width = rng.choice([2, 3])
    for i in range(1, n + 1):
        if kind == "chain":
            ps = [i - 1]
        elif kind == "fan":
            ps = [0] if i == 1 or rng.random() < 0.3 else [1]
        elif kind == "funnel":
            ps = list(range(1, i)) if i == n and n > 1 else [0]
        elif kind == "diamond":
            ps = [0] if i == 1 else ([1] if i < n or n < 3 else list(range(2, n)))
        elif kind == "layers":
            ps = [0] if i <= width else [i - width] + ([i - width + 1] if rng.random() < 0.2 and i - width + 1 < i else [])
        else:
            k = rng.choice([1, 1, 1, 2, 2, 3])
            ps = rng.sample(range(0, i), min(k, i))
        if exotic and rng.random() < 0.12:
            ps = []                      # unreachable from the source (never produced by staging)
        rng.shuffle(ps)
        parents[i] = ps
    ops = []
    mode = rng.choice(["staged", "staged", "late"])
    if mode == "staged":
        for i in range(1, n + 1):
            ops.append(["node", i])
            ops.extend(["edge", p, i] for p in parents[i])
    else:
        ops = [["node", i] for i in range(1, n + 1)]
        edges = [["edge", p, i] for i in range(1, n + 1) for p in parents[i]]
        if exotic and rng.random() < 0.5 and n > 1:
            # orientation by a random rank instead of insertion order (still acyclic)
            rank = list(range(1, n + 1))
            rng.shuffle(rank)
            pos = {v: k for k, v in enumerate(rank)}
            edges = [e if e[1] == 0 or pos[e[1]] < pos[e[2]] else ["edge", e[2], e[1]] for e in edges]
            seen, uniq = set(), []
            for e in edges:
                if (e[1], e[2]) not in seen:
                    seen.add((e[1], e[2]))
                    uniq.append(e)
            edges = uniq
        rng.shuffle(edges)
        ops.extend(edges)
    return kind + "/" + mode, ops


def gen_case(rng, stream, n=None):
    exotic = stream == "exotic"
    plain = stream == "plain"
    if n is None:
        n = rng.choice([0, 1, 1, 2, 2, 3, 3, 4, 5, 6, 8, 12, 25] if not plain else [1, 2, 3, 4, 6])
    shape, ops = gen_shape(rng, n, exotic)
    nodes, used = [], set(["_source"])
    for i in range(1, n + 1):
        ex_here = exotic and rng.random() < 0.5
        nparams = rng.choice([0, 0, 1, 2, 3])
        params = []
        for k in rng.sample(KEYS, nparams):
            if ex_here and rng.random() < 0.2:
                k = k + rng.choice(EXOTIC_TOKENS)
            params.append([k, gen_value(rng, ex_here, plain)])
        name = gen_text(rng, ex_here and rng.random() < 0.5, plain, allow_empty=rng.random() < 0.05)
        if params and rng.random() < 0.7:
            name = name + "_" + ".".join("%s.%s" % (k, v) for k, v in params)
        while name in used:
            name += "_%d" % i
        used.add(name)
        nd = {"name": name, "ws": gen_ws(rng, name, params, ex_here, plain), "params": params}
        nd.update(gen_dyn(rng, ex_here and rng.random() < 0.3, plain))
        if rng.random() < 0.25:
            nd["pre"] = gen_dyn(rng, False, plain)
        nodes.append(nd)
    return {"stream": stream, "shape": shape, "nodes": nodes, "ops": ops}


def small_scope_shapes():
    """every staged DAG over <= 3 instances: each node's parent set is a
    non-empty subset of {source} + earlier nodes (25 shapes)."""
    def parent_sets(i):
        cand = list(range(0, i))
        for k in range(1, len(cand) + 1):
            for c in itertools.combinations(cand, k):
                yield list(c)
    yield []
    for n in (1, 2, 3):
        for combo in itertools.product(*[list(parent_sets(i)) for i in range(1, n + 1)]):
            ops = []
            for i in range(1, n + 1):
                ops.append(["node", i])
                ops.extend(["edge", p, i] for p in combo[i - 1])
            yield ops


def small_scope_cases(rng):
    cases = []
    for ops in small_scope_shapes():
        n = sum(1 for o in ops if o[0] == "node")
        nodes = []
        for i in range(1, n + 1):
            nd = {"name": "s%d" % i, "ws": os.path.join(WORKDIR, "out", "s%d" % i), "params": []}
            nd.update(gen_dyn(rng, False, True))
            nodes.append(nd)
        cases.append({"stream": "small-shapes", "shape": "exhaustive", "nodes": nodes, "ops": ops})
    # every string of length <= 2 over a delimiter alphabet, as a step name and as a
    # parameter value of a one-row table (reader model on all delimiter combinations)
    alpha = ["a", ",", "\n", "\r", ";", ":", "\"", " "]
    words = [""] + alpha + [x + y for x in alpha for y in alpha]
    for k, w in enumerate(words):
        nm = w if k % 2 == 0 else "n"
        val = w if k % 2 == 1 else "v"
        exo = any(c in ",\n\r" for c in w)
        nodes = [{"name": nm, "ws": "/o/n", "params": [["P", val]], "state": "RUNNING", "jobids": [3],
                  "restarts": 1, "times": [None, None, None]},
                 {"name": "z" + w, "ws": "/o/z", "params": [], "state": "FINISHED", "jobids": [],
                  "restarts": 0, "times": [0, 7, 59]}]
        cases.append({"stream": "small-cells-exotic" if exo else "small-cells", "shape": "exhaustive",
                      "nodes": nodes, "ops": [["node", 1], ["edge", 0, 1], ["node", 2], ["edge", 1, 2]]})
    return cases


def py_signature(o):
    """python-side pre-filter for the K3 signatures (the decision is taken in Coq)."""
    comma = newline = False
    for r in o["recs"] or []:
        if r is None:
            continue
        cells = [r["name"], r["ws"], r["state"]] + r["jobids"] + r["times"] + [x for kv in r["params"] for x in kv]
        for c in cells:
            comma = comma or "," in c
            newline = newline or "\n" in c or "\r" in c
    return comma, newline


# ----------------------------------------------------------------------------
# (a'') staged studies: parameters through the REAL expansion path
# ----------------------------------------------------------------------------
# ParameterGenerator -> Combination -> Study.stage() -> ExecutionGraph.add_step
# -> write_status.  The parameters each row must show are read off what was
# actually SUBMITTED: every step's command is `<<K=$(K)>> ..` for the parameters
# it uses, so the instance's expanded command (substituted by Combination.apply,
# not by get_param_values) names its values.
QUICK_STAGED, THOROUGH_STAGED = 14, 160
PVALUES = [0, 0.0, False, "", 0, "", False, 1, 2, -1, 2.5, True, None, "a", "b c", "0", "no", "x.y", "é", 10 ** 6]
FIXED_STAGED = {"params": [["X", [0, 1, 0]], ["Y", ["", "a", "b"]], ["Z", [False, 0.0, True]]],
                "steps": [{"name": "prep", "uses": ["X"], "depends": []},
                          {"name": "run", "uses": ["X", "Y"], "depends": ["prep"]},
                          {"name": "post", "uses": ["X", "Y", "Z"], "depends": ["run"]},
                          {"name": "only-z", "uses": ["Z"], "depends": []},
                          {"name": "plain", "uses": [], "depends": []}],
                "dynseed": 7}


def gen_staged(rng):
    nk = rng.choice([1, 2, 2, 3])
    m = rng.choice([1, 2, 3, 4])
    keys = rng.sample(["X", "Y", "Z", "SIZE", "N_ITER"], nk)
    params = []
    for k in keys:
        vals, seen = [], set()
        while len(vals) < m:
            v = rng.choice(PVALUES)
            # distinct renderings within one parameter: str(v) is what labels, commands and cells show
            if str(v) not in seen or rng.random() < 0.15:
                seen.add(str(v))
                vals.append(v)
        params.append([k, vals])
    steps = []
    for i in range(rng.choice([1, 2, 3])):
        add = [k for k in keys if rng.random() < 0.6]
        chain = i > 0 and rng.random() < 0.7
        # a step inherits the parameters of the step it depends on: its command names them too
        uses = sorted(set(add) | set(steps[i - 1]["uses"] if chain else []))
        steps.append({"name": "st%d" % i, "uses": uses, "depends": ["st%d" % (i - 1)] if chain else []})
    if rng.random() < 0.3:
        steps.append({"name": "free", "uses": [], "depends": []})
    return {"params": params, "steps": steps, "dynseed": rng.randrange(10 ** 6)}


def run_staged(spec, d):
    """-> observation dict like run_impl's; never raises."""
    import re
    out = {"adj": None, "recs": None, "text": None, "parsed": "other:not-run", "error": None, "table": None}
    try:
        I = impl()
        from maestrowf.datastructures.core import ParameterGenerator, Study, StudyEnvironment
        shutil.rmtree(d, ignore_errors=True)
        os.makedirs(d)
        pg = ParameterGenerator()
        for k, vals in spec["params"]:
            pg.add_parameter(k, list(vals), "%s.%%%%" % k)
        steps = []
        for sd in spec["steps"]:
            st = I["StudyStep"]()
            st.name = sd["name"]
            st.description = "uses " + ",".join(sd["uses"])
            st.run["cmd"] = "echo " + " ".join("<<%s=$(%s)>>" % (k, k) for k in sd["uses"]) + " done"
            st.run["depends"] = list(sd["depends"])
            steps.append(st)
        study = Study("staged", {"name": "staged", "description": "C12 staged stream"},
                      studyenv=StudyEnvironment(), parameters=pg, steps=steps, out_path=d)
        study.setup_workspace()
        study.configure_study(submission_attempts=1, restart_limit=0, throttle=0)
        study.setup_environment()
        _, g = study.stage()
        rng = random.Random(spec["dynseed"])
        State = I["State"]
        keys = list(g.values.keys())
        idx = {k: i for i, k in enumerate(keys)}
        recs, dyn = [], {}
        for k in keys:
            if k == "_source":
                recs.append(None)
                continue
            rec = g.values[k]
            dd = gen_dyn(rng, False, True)
            dyn[k] = dd
            rec.status = State[dd["state"]]
            rec.jobid = list(dd["jobids"])
            rec._num_restarts = dd["restarts"]
            rec._submit_time, rec._start_time, rec._end_time = [_t(x) for x in dd["times"]]
        out["adj"] = [[idx[k], [idx[c] for c in cs]] for k, cs in g.adjacency_table.items()]
        for k in keys:
            if k == "_source":
                continue
            rec, dd = g.values[k], dyn[k]
            submitted = re.findall(r"<<(\w+)=(.*?)>>", rec.step.run["cmd"], re.S)
            times = [rec.run_time, rec.elapsed_time, rec.time_start, rec.time_submitted, rec.time_end]
            recs.append({"name": k, "jobids": ["{}".format(j) for j in dd["jobids"]],
                         "ws": rec.workspace.value, "state": dd["state"], "times": [str(x) for x in times],
                         "restarts": dd["restarts"],
                         "params": [[a, b] for a, b in sorted(submitted)]})
        out["recs"] = recs
        g.write_status(d)
        with open(os.path.join(d, "status.csv"), "r", newline="", encoding="utf-8") as f:
            out["text"] = f.read()
        holder = {}

        def call():
            holder["r"] = I["Conductor"].get_status(d)
            return holder["r"]
        out["parsed"] = canon_parsed(call)
        out["table"] = holder.get("r")
    except Exception as e:
        out["error"] = "%s: %s" % (type(e).__name__, e)
    return out


def staged_cases(rng, n):
    import logging
    logging.disable(logging.CRITICAL)       # staging warns about shared instances
    specs = [FIXED_STAGED] + [gen_staged(rng) for _ in range(max(0, n - 1))]
    res = []
    for k, spec in enumerate(specs):
        o = run_staged(spec, os.path.join(WORKDIR, "staged", "s%d" % (k % 16)))
        nodes = [{"params": r["params"], "jobids": r["jobids"]} for r in (o["recs"] or []) if r is not None]
        res.append(({"stream": "staged", "shape": "staged/%dp%ds" % (len(spec["params"]), len(spec["steps"])),
                     "staged": spec, "nodes": nodes, "ops": []}, o))
    shutil.rmtree(os.path.join(WORKDIR, "staged"), ignore_errors=True)
    return res


# ----------------------------------------------------------------------------
# (a') execution histories: the real status.csv after EVERY poll
# ----------------------------------------------------------------------------
HCASE_TY = "Rows.hcase"
QUICK_HIST, THOROUGH_HIST = 45, 700
PARAM_PLANS = [[], [], [["X", 1]], [["X", 2], ["Y", "a"]], [["SIZE", 10], ["ITER", 3], ["NOTE", "p:q;r"]],
               [["k", "é 漢"]], [["K", "[/x]"]]]


def _record_view(dag):
    """adjacency table and record fields of the REAL graph, in `values` order."""
    keys = list(dag.values.keys())
    idx = {k: i for i, k in enumerate(keys)}
    adj = [[idx[k], [idx[c] for c in cs]] for k, cs in dag.adjacency_table.items()]
    recs = []
    for k in keys:
        if k == "_source":
            recs.append(None)
            continue
        rec = dag.values[k]
        times = [rec.run_time, rec.elapsed_time, rec.time_start, rec.time_submitted, rec.time_end]
        recs.append({"name": "{}".format(rec.name), "jobids": ["{}".format(j) for j in rec.jobid],
                     "ws": rec.workspace.value, "state": rec.status.name, "times": [str(x) for x in times],
                     "restarts": int(rec.restarts),
                     "params": [["{}".format(k_), "{}".format(v_)] for k_, v_ in rec.params.items()]})
    return adj, recs


def run_one_history(nodes, cfg, plan, rng, profile, max_polls, scripted_pins=None, **kw):
    """One history against the real ExecutionGraph + scripted scheduler
    (harness/exec_harness.py); after EVERY poll the real write_status /
    Conductor.get_status pair runs, as Conductor.monitor_study does.
    -> [(case description, observation)] one per poll."""
    from harness import exec_harness as XH
    I = impl()
    d = os.path.join(WORKDIR, "hist_status")
    shutil.rmtree(d, ignore_errors=True)
    os.makedirs(d)
    out, subs = [], []

    def after_poll(dag, case, k):
        o = {"adj": None, "recs": None, "text": None, "parsed": "other:not-run", "error": None,
             "table": None, "subs": None}
        try:
            if k == 0:
                for i, ps in enumerate(plan):
                    if ps and ("n%d" % i) in dag.values:
                        dag.values["n%d" % i].add_params([(a, b) for a, b in ps])
            for e in case["polls"][k]["events"]:
                if e[0] == "submit" and e[4] is not None:
                    subs.append([e[1] + 1, int(e[4])])
            o["subs"] = [list(x) for x in subs]
            dag.write_status(d)
            o["adj"], o["recs"] = _record_view(dag)
            with open(os.path.join(d, "status.csv"), "r", newline="", encoding="utf-8") as f:
                o["text"] = f.read()
            holder = {}

            def call():
                holder["r"] = I["Conductor"].get_status(d)
                return holder["r"]
            o["parsed"] = canon_parsed(call)
            o["table"] = holder.get("r")
        except Exception as e:
            o["error"] = "%s: %s" % (type(e).__name__, e)
        out.append(o)

    case = XH.run_history(nodes, cfg, rng, profile=profile, max_polls=max_polls, after_poll=after_poll,
                          root=os.path.join(WORKDIR, "hist_ws"), scripted_pins=scripted_pins, **kw)
    pins = XH.pins_of(case)
    res = []
    for k, o in enumerate(out):
        descr = {"stream": "history", "shape": "history/" + profile, "poll": k,
                 "status_after_poll": case["polls"][k]["status"],
                 "hist": {"nodes": nodes, "cfg": cfg, "plan": plan, "profile": profile, "pins": pins[:k + 1]}}
        res.append((descr, o))
    shutil.rmtree(d, ignore_errors=True)
    return res, case


def history_polls(rng, nhist):
    """-> (per-poll cases, per-history cases for the execution-model oracle, statistics).
    Half of the histories are restart / resubmission heavy: every step scheduled
    with a restart command and a restart budget, reports drawn from the
    'timeout' / 'hw' profiles, no cancel requests, many polls -- so that
    RUNNING -> TIMEDOUT -> (restart) -> RUNNING and RUNNING -> HWFAILURE ->
    (resubmit) -> RUNNING sequences are common."""
    from harness import exec_harness as XH
    res, xres = [], []
    hstat = {"histories": 0, "polls": 0, "end": {}, "profile": {}, "submissions": 0, "restart_submissions": 0,
             "family": {}, "not_representable_in_model": 0,
             "polls_with_a_report_after_a_restart_or_resubmission": 0}
    profiles = sorted(XH.PROFILES)
    for h in range(nhist):
        heavy = h % 2 == 0
        if heavy:
            shape, nodes = XH.gen_graph(rng, shape=rng.choice(["single", "chain", "fanout", "diamond", "random"]),
                                        nmax=5)
            for nd in nodes:
                nd["scheduled"], nd["has_restart"] = True, rng.random() < 0.85
                nd["rlimit"] = rng.choice([0, 1, 2, 3, 3]) if nd["has_restart"] else 0
            cfg = {"throttle": rng.choice([0, 0, 1, 2]), "attempts": rng.choice([1, 1, 2]), "dry": False}
            profile = rng.choice(["timeout", "hw", "timeout", "hw", "mixed"])
            # one in four with frequently REFUSED submissions (restart refused on every attempt)
            kw = {"cancel_p": 0.0, "qerr_p": 0.0, "qnojobs_p": 0.03, "sub_ok_p": rng.choice([0.95, 0.95, 0.95, 0.4])}
            max_polls = rng.choice([8, 12, 16])
        else:
            shape, nodes = XH.gen_graph(rng, nmax=7)
            cfg = XH.gen_cfg(rng, len(nodes), dry=(rng.random() < 0.05))
            profile = rng.choice(profiles)
            kw = {}
            max_polls = rng.choice([3, 6, 10, 14])
        plan = [rng.choice(PARAM_PLANS) for _ in nodes]
        polls, case = run_one_history(nodes, cfg, plan, rng, profile, max_polls, **kw)
        res.extend(polls)
        fam = "restart-heavy" if heavy else "general"
        hstat["family"][fam] = hstat["family"].get(fam, 0) + 1
        hstat["histories"] += 1
        hstat["polls"] += len(polls)
        hstat["end"][case["end"]] = hstat["end"].get(case["end"], 0) + 1
        hstat["profile"][profile] = hstat["profile"].get(profile, 0) + 1
        if polls and polls[-1][1]["subs"]:
            hstat["submissions"] += len(polls[-1][1]["subs"])
        resub, submitted = set(), set()
        for p in case["polls"]:
            if any(x in resub for x, _v in p["reports"]) and p["q"] == "OK":
                hstat["polls_with_a_report_after_a_restart_or_resubmission"] += 1
            for e in p["events"]:
                if e[0] == "submit" and e[4] is not None:
                    if e[2] == "Restart":
                        hstat["restart_submissions"] += 1
                    if e[2] == "Restart" or e[1] in submitted:
                        resub.add(e[1])
                    submitted.add(e[1])
        x = make_xobs(nodes, cfg, case, polls, fam, profile)
        if x is not None:
            xres.append(x)
        else:
            hstat["not_representable_in_model"] += 1
    return res, xres, hstat


def make_xobs(nodes, cfg, case, polls, fam, profile):
    """the whole history as a case for ExecRows.xcase_ok, or None when the
    implementation's run cannot be written as a model observation"""
    from harness import exec_harness as XH
    if not (polls and len(polls) == len(case["polls"]) and XH.representable(case)
            and all(o["error"] is None for _c, o in polls)):
        return None
    return ({"stream": polls[-1][0].get("stream", "history"), "shape": "history/" + profile,
             "poll": len(polls) - 1, "family": fam, "hist": polls[-1][0]["hist"]},
            {"xlit": "(%s, %s, %s, %s)" % (
                XH.g_cfg(cfg), XH.g_nodes(nodes),
                common.g_list([XH.g_pin(p) for p in case["polls"]]),
                common.g_list([g_parsed(o["parsed"]) for _c, o in polls])),
             "texts": [o["text"] for _c, o in polls], "error": None})


XHEADER_EXTRA = "From MWF Require Import Exec.ExecBase Status.ExecRows.\n"
XCASE_TY = "ExecRows.xcase"


def classify_xhist(ck, tag, xobs):
    """The State / Job ID / Number Restarts columns after every poll against the
    execution model run (inside Coq) on the poll inputs the real run saw."""
    if not xobs:
        return 0
    lits = [o["xlit"] for _c, o in xobs]
    shard = max(10, min(200, -(-len(lits) // max(2, common.NCPU - 2))))
    hdr = HEADER + XHEADER_EXTRA
    bad, errs = common.coq_failing(tag, hdr, XCASE_TY, "xcase_all_ok", lits, shard=shard)
    for e in errs:
        ck.mismatch("coqc failed on cases file", None, e[1])
    rule_bad, model_bad = set(), set()
    if bad:
        sub = [lits[i] for i in bad]
        rb, _ = common.coq_failing(tag + "_rule", hdr, XCASE_TY, "xcase_rule_ok", sub, shard=shard)
        mb, _ = common.coq_failing(tag + "_mrule", hdr, XCASE_TY, "xcase_model_rule_ok", sub, shard=shard)
        rule_bad = set(bad[j] for j in rb)
        model_bad = set(bad[j] for j in mb)
    for i in sorted(rule_bad)[:5]:
        c, o = xobs[i]
        ck.violation("the State / Number Restarts columns of status.csv do not follow the dispatch table for a "
                     "delivered scheduler report (ExecRows.report_rule: TIMEDOUT without restart command or after a "
                     "cancel request shows TIMEDOUT, exhausted budget FAILED, ...); pins=%s; status.csv after the "
                     "polls: %s" % (json.dumps([[p["cancel"], p["q"], p["reports"]] for p in c["hist"]["pins"]])[:600],
                                    json.dumps([(x or "").split("\n")[1:] for x in o["texts"]])[:1200]),
                     strip_case(c))
    for i in sorted(model_bad - rule_bad)[:3]:
        c, o = xobs[i]
        ck.mismatch("the (regenerated) execution model ExecGen.v no longer follows the hand-written dispatch table "
                    "ExecRows.report_rule on this history", strip_case(c))
    for i in [j for j in bad if j not in rule_bad and j not in model_bad][:5]:
        c, o = xobs[i]
        which = common.coq_eval(tag + "_why", hdr, "xcase_first_bad %s" % o["xlit"])
        k = None
        try:
            inner = which.split("=", 1)[1].split(":")[0]
            nums = [int(x) for x in inner.replace("[", " ").replace("]", " ").replace(";", " ").split()]
            k = nums[0] if nums else None
        except Exception:
            pass
        model = ""
        if k is not None:
            model = common.coq_eval(tag + "_rows", hdr,
                                    "let '(cf, g, pins, _) := %s in nth %d (map (fun o : ExecRun.obs => snd (fst o)) "
                                    "(ExecRun.run cf g (init g) pins)) []" % (o["xlit"], k))
        c = dict(c)
        if k is not None:
            c["poll"] = k
            c["hist"] = dict(c["hist"], pins=c["hist"]["pins"][:k + 1])
        ck.violation("after poll %s the State / Job ID / Number Restarts columns of status.csv are not what the "
                     "reports delivered so far dictate (execution model rows: %s): status.csv=%r"
                     % (k, " ".join(model.split())[-700:], (o["texts"][k] if k is not None and k < len(o["texts"])
                                                            else "")[:700]), strip_case(c))
    return len(xobs)




def g_hcase(o):
    subs = common.g_list([common.g_pair(common.g_nat(x), common.g_nat(j)) for x, j in (o["subs"] or [])])
    return "(%s, %s)" % (g_case(o), subs)


def classify_hist(ck, tag, obs):
    usable = [(c, o) for c, o in obs if o["error"] is None]
    for c, o in obs:
        if o["error"] is not None:
            ck.mismatch("the harness could not observe the status table after a poll: " + o["error"], strip_case(c))
    bad, errs = evaluate(tag, usable, "hcase_ok", ty=HCASE_TY, lit=g_hcase)
    for e in errs:
        ck.mismatch("coqc failed on cases file", None, e[1])
    if bad:
        sub = [usable[i] for i in bad]
        agree_only, errs2 = evaluate(tag + "_why", sub, "hcase_monitor", ty=HCASE_TY, lit=g_hcase)
        for e in errs2:
            ck.mismatch("coqc failed on cases file", None, e[1])
        for j, (c, o) in enumerate(sub):
            if j not in agree_only:
                ck.mismatch("status.csv / get_status after a poll differ from render(status_rows)/parse of the "
                            "implementation's own records", strip_case(c),
                            "impl text=%r parsed=%r" % (o["text"], o["parsed"]))
            else:
                ck.violation("after poll %d the status table is not one row per step instance with its current "
                             "fields, or its Job ID column is not the id of the instance's last successful "
                             "submission (adapter trace %s): status.csv=%r"
                             % (c["poll"], json.dumps(o["subs"]), (o["text"] or "")[:600]), strip_case(c))
    return usable


# ----------------------------------------------------------------------------
# (d) structural check of the lock discipline
# ----------------------------------------------------------------------------
def _parents(tree):
    par = {}
    for node in ast.walk(tree):
        for ch in ast.iter_child_nodes(node):
            par[ch] = node
    return par


def _join_const(expr):
    """os.path.join(<Name>, "<const>") -> (name, const)"""
    if (isinstance(expr, ast.Call) and isinstance(expr.func, ast.Attribute) and expr.func.attr == "join"
            and len(expr.args) == 2 and isinstance(expr.args[0], ast.Name)
            and isinstance(expr.args[1], ast.Constant) and isinstance(expr.args[1].value, str)):
        return expr.args[0].id, expr.args[1].value
    return None


def lock_structure(repo):
    """-> list of problems (empty = both open(stat_path ..) are lexically inside
    `with <FileLock(join(dir, ".status.lock"))>.acquire(..)` inside
    `try: .. except Timeout`, with status.csv in the same directory)."""
    problems = []
    for rel, fname in (("maestrowf/datastructures/core/executiongraph.py", "write_status"),
                       ("maestrowf/conductor.py", "get_status")):
        where = "%s:%s" % (rel, fname)
        try:
            tree = ast.parse(open(os.path.join(repo, rel)).read())
        except Exception as e:
            problems.append("%s: cannot parse (%s)" % (where, e))
            continue
        fns = [n for n in ast.walk(tree) if isinstance(n, ast.FunctionDef) and n.name == fname]
        if len(fns) != 1:
            problems.append("%s: function not found" % where)
            continue
        fn = fns[0]
        par = _parents(fn)
        assigns = {}
        for n in ast.walk(fn):
            if isinstance(n, ast.Assign) and len(n.targets) == 1 and isinstance(n.targets[0], ast.Name):
                assigns.setdefault(n.targets[0].id, []).append(n.value)
        opens = [n for n in ast.walk(fn) if isinstance(n, ast.Call) and isinstance(n.func, ast.Name)
                 and n.func.id == "open"]
        if len(opens) != 1:
            problems.append("%s: expected exactly one open(..) call, found %d" % (where, len(opens)))
            continue
        op = opens[0]
        if not (op.args and isinstance(op.args[0], ast.Name) and len(assigns.get(op.args[0].id, [])) == 1):
            problems.append("%s: open's path is not a singly assigned name" % where)
            continue
        sp = _join_const(assigns[op.args[0].id][0])
        if not sp or sp[1] != "status.csv":
            problems.append("%s: opened path is not join(dir, 'status.csv')" % where)
            continue
        node, lock_ok, try_ok = op, False, False
        while node in par:
            node = par[node]
            if isinstance(node, ast.With) and not lock_ok:
                for item in node.items:
                    ce = item.context_expr
                    lname, can_time_out = None, True
                    if (isinstance(ce, ast.Call) and isinstance(ce.func, ast.Attribute)
                            and ce.func.attr == "acquire" and isinstance(ce.func.value, ast.Name)):
                        lname = ce.func.value.id                      # with lock.acquire(..):
                        can_time_out = bool(ce.args) or any(k.arg in ("timeout", None) for k in ce.keywords)
                        try:
                            from translate import tcode_status
                            mode = tcode_status.acquire_mode(ce)
                        except Exception as e:
                            mode = "unrecognised (%s)" % (str(e)[-80:],)
                        if mode not in ("AcqWait", "AcqForever"):
                            problems.append("%s: the lock is not WAITED for (acquire arguments `%s`: %s); a poll's "
                                            "write / a read is dropped whenever the other side holds the lock"
                                            % (where, ast.unparse(ce), mode))
                    elif isinstance(ce, ast.Name):
                        lname, can_time_out = ce.id, False            # with lock:   (blocks, never Timeout)
                    if lname is not None:
                        lk = assigns.get(lname, [])
                        if (len(lk) == 1 and isinstance(lk[0], ast.Call) and isinstance(lk[0].func, ast.Name)
                                and lk[0].func.id == "FileLock" and len(lk[0].args) == 1 and not lk[0].keywords
                                and isinstance(lk[0].args[0], ast.Name)
                                and len(assigns.get(lk[0].args[0].id, [])) == 1):
                            lp = _join_const(assigns[lk[0].args[0].id][0])
                            if lp and lp[1] == ".status.lock" and lp[0] == sp[0]:
                                lock_ok = True
                                if not can_time_out:
                                    try_ok = True
            if isinstance(node, ast.Try) and lock_ok and not try_ok:
                for h in node.handlers:
                    t = h.type
                    names = [t.id] if isinstance(t, ast.Name) else (
                        [e.id for e in t.elts if isinstance(e, ast.Name)] if isinstance(t, ast.Tuple) else [])
                    if "Timeout" in names:
                        try_ok = True
        if not lock_ok:
            problems.append("%s: open(status.csv) is not inside `with FileLock(join(dir,'.status.lock')).acquire(..)`" % where)
        elif not try_ok:
            problems.append("%s: the locked region is not inside try/except Timeout" % where)
    return problems


# ----------------------------------------------------------------------------
# (b) the stress run on the real lock
# ----------------------------------------------------------------------------
def _stress_case(tag, n, state, restarts):
    nodes, ops = [], []
    for i in range(1, n + 1):
        nodes.append({"name": "%s_step_%04d_SIZE.%d.ITER.%d" % (tag, i, i * 7, i % 5),
                      "ws": "/scratch/%s/step/SIZE.%d.ITER.%d" % (tag, i * 7, i % 5),
                      "params": [["SIZE", i * 7], ["ITER", i % 5], ["NOTE", tag * 9]],
                      "state": state, "jobids": [1000 + i, 2000 + i], "restarts": restarts,
                      "times": [0, 7, None]})
        ops.append(["node", i])
        ops.append(["edge", 0 if i < 4 else i - 3, i])
    return {"stream": "stress", "shape": "stress", "nodes": nodes, "ops": ops}


def _stress_graphs():
    out = []
    for case in (_stress_case("A", 260, "FINISHED", 1), _stress_case("B", 410, "RUNNING", 2)):
        g = build_graph(case)
        apply_records(g, case["nodes"], "final")
        out.append(g)
    return out


def stress_worker(role, d, secs, seed):
    """Entry point of the stress sub-processes (python -m harness.props.c12 ...)."""
    rng = random.Random(seed)
    I = impl()
    res = {"role": role, "n": 0, "A": 0, "B": 0, "empty_timeout": 0, "bad": 0, "first_bad": None}
    if role == "writer":
        gA, gB = _stress_graphs()
        end = time.time() + secs
        while time.time() < end:
            for g in (gA, gB):
                try:
                    g.write_status(d)
                    res["n"] += 1
                except Exception as e:
                    res["bad"] += 1
                    res["first_bad"] = res["first_bad"] or "writer raised %s: %s" % (type(e).__name__, e)
                time.sleep(rng.random() * 0.003)
    else:
        exp = json.load(open(os.path.join(d, "expected.json")))
        end = time.time() + secs
        while time.time() < end:
            t0 = time.time()
            got = canon_parsed(lambda: I["Conductor"].get_status(d))
            waited = time.time() - t0
            res["n"] += 1
            if got == exp["A"]:
                res["A"] += 1
            elif got == exp["B"]:
                res["B"] += 1
            elif got == [] and waited >= 9.5:
                res["empty_timeout"] += 1          # the reader's `except Timeout: pass` branch
            else:
                res["bad"] += 1
                if res["first_bad"] is None:
                    if isinstance(got, list):
                        lens = [len(col) for _, col in got]
                        res["first_bad"] = "torn table: %d columns, column lengths %s" % (len(got), sorted(set(lens)))
                    else:
                        res["first_bad"] = "reader ended with %s" % got
            if rng.random() < 0.3:
                time.sleep(rng.random() * 0.002)
    sys.stdout.write(json.dumps(res) + "\n")
    return 0


def stress(secs, seed, readers=2):
    """-> (summary dict, first bad description or None)"""
    d = os.path.join(WORKDIR, "stress")
    shutil.rmtree(d, ignore_errors=True)
    os.makedirs(d)
    I = impl()
    gA, gB = _stress_graphs()
    exp = {}
    for tag, g in (("A", gA), ("B", gB)):
        g.write_status(d)
        exp[tag] = canon_parsed(lambda: I["Conductor"].get_status(d))
        if not isinstance(exp[tag], list) or len(exp[tag]) != 11:
            return {"error": "sequential write/read of table %s failed: %r" % (tag, str(exp[tag])[:200])}, \
                "sequential write/read of the stress table failed"
    if exp["A"] == exp["B"]:
        return {"error": "stress tables equal"}, "stress tables equal"
    with open(os.path.join(d, "expected.json"), "w") as f:
        json.dump(exp, f)
    env = dict(os.environ, PYTHONPATH=common.REPO + ":" + common.VERIF)
    procs = []
    for k, role in enumerate(["writer"] + ["reader"] * readers):
        procs.append(subprocess.Popen(
            [sys.executable, "-m", "harness.props.c12", "--stress", role, d, str(secs), str(seed * 31 + k)],
            stdout=subprocess.PIPE, stderr=subprocess.PIPE, text=True, env=env, cwd=common.VERIF))
    summary = {"seconds": secs, "writes": 0, "reads": 0, "reads_A": 0, "reads_B": 0,
               "reads_empty_after_timeout": 0, "bad": 0,
               "file_bytes": [len(",".join(",".join(c) for _, c in exp[t])) for t in ("A", "B")]}
    first_bad = None
    for p in procs:
        try:
            so, se = p.communicate(timeout=secs + 60)
        except subprocess.TimeoutExpired:
            p.kill()
            so, se = p.communicate()
        try:
            r = json.loads(so.strip().splitlines()[-1])
        except Exception:
            summary["bad"] += 1
            first_bad = first_bad or "stress worker died: %s" % (se[-400:],)
            continue
        if r["role"] == "writer":
            summary["writes"] += r["n"]
        else:
            summary["reads"] += r["n"]
            summary["reads_A"] += r["A"]
            summary["reads_B"] += r["B"]
            summary["reads_empty_after_timeout"] += r["empty_timeout"]
        summary["bad"] += r["bad"]
        first_bad = first_bad or r["first_bad"]
    shutil.rmtree(d, ignore_errors=True)
    return summary, first_bad


# ----------------------------------------------------------------------------
# (b') the Timeout branches, deterministically, against Lock.scenario_model
# ----------------------------------------------------------------------------
LOCK_CASE_TY = "LockCase.lock_case"
_HOLDER = ("import sys\nfrom filelock import FileLock\nl = FileLock(sys.argv[1])\nl.acquire()\n"
           "print('held', flush=True)\nsys.stdin.readline()\nl.release()\n")


def timeout_scenario(real_timeout, seed):
    """A helper process holds .status.lock; the real get_status / write_status
    run into their Timeout branches; then the lock is released and they run
    normally.  -> (obs dict | None, error text | None).  With real_timeout the
    code's own 10 s are waited for; otherwise FileLock.acquire is capped (a stub
    like the one for time.sleep: same code path, shorter wait)."""
    import threading
    import maestrowf.conductor as CM
    I = impl()
    EG = I["EG"]
    d = os.path.join(WORKDIR, "timeout")
    shutil.rmtree(d, ignore_errors=True)
    os.makedirs(d)
    rng = random.Random(seed)
    gs = []
    for tag, n, st, rs in (("OLD", rng.choice([1, 3, 9]), "RUNNING", 0), ("NEW", rng.choice([2, 5, 12]), "FINISHED", 2)):
        case = _stress_case(tag, n, st, rs)
        g = build_graph(case)
        apply_records(g, case["nodes"], "final")
        gs.append(g)
    gA, gB = gs
    obs = {"answers": [], "mid": None, "end": None, "old": None, "new": None, "waited": []}
    real_FL = EG.FileLock

    class _ShortLock(real_FL):
        def acquire(self, timeout=None, *a, **k):
            if timeout is not None and timeout > 0.6:
                timeout = 0.6
            return real_FL.acquire(self, timeout, *a, **k)
    holder = None
    try:
        gA.write_status(d)
        stat = os.path.join(d, "status.csv")

        def text():
            with open(stat, "r", newline="", encoding="utf-8") as f:
                return f.read()
        obs["old"] = text()
        env = dict(os.environ, PYTHONPATH=common.REPO + ":" + common.VERIF)
        holder = subprocess.Popen([sys.executable, "-c", _HOLDER, os.path.join(d, ".status.lock")],
                                  stdin=subprocess.PIPE, stdout=subprocess.PIPE, text=True, env=env)
        if holder.stdout.readline().strip() != "held":
            return None, "the lock holder process did not start"
        if not real_timeout:
            EG.FileLock = _ShortLock
            CM.FileLock = _ShortLock
        res = {}

        def reader():
            t0 = time.time()
            res["r"] = canon_parsed(lambda: I["Conductor"].get_status(d))
            res["rw"] = time.time() - t0

        def writer():
            t0 = time.time()
            try:
                gB.write_status(d)
                res["w"] = "returned"
            except Exception as e:
                res["w"] = "raised %s: %s" % (type(e).__name__, e)
            res["ww"] = time.time() - t0
        ths = [threading.Thread(target=reader), threading.Thread(target=writer)]
        for th in ths:
            th.start()
        for th in ths:
            th.join(60)
        if "r" not in res or "w" not in res:
            return None, "get_status / write_status did not come back within 60 s while the lock was held"
        if res["w"] != "returned":
            return None, "write_status under a held lock " + res["w"]
        obs["waited"] = [round(res["rw"], 2), round(res["ww"], 2)]
        obs["answers"].append(res["r"])
        obs["mid"] = text()
        holder.stdin.write("\n")
        holder.stdin.flush()
        holder.wait(20)
        holder = None
        obs["answers"].append(canon_parsed(lambda: I["Conductor"].get_status(d)))
        gB.write_status(d)
        obs["answers"].append(canon_parsed(lambda: I["Conductor"].get_status(d)))
        obs["end"] = text()
        # what the writer hands to the file object, in the pieces a buffered text stream flushes
        tmp = os.path.join(d, "x")
        os.makedirs(tmp)
        gB.write_status(tmp)
        with open(os.path.join(tmp, "status.csv"), "r", newline="", encoding="utf-8") as f:
            obs["new"] = f.read()
        return obs, None
    except Exception as e:
        return None, "%s: %s" % (type(e).__name__, e)
    finally:
        EG.FileLock = real_FL
        CM.FileLock = real_FL
        if holder is not None:
            holder.kill()
        shutil.rmtree(d, ignore_errors=True)


def g_lock_case(o):
    new = o["new"]
    chunks = [new[k:k + 8192] for k in range(0, len(new), 8192)] or [""]
    ans = common.g_list(["None" if a == [] else "(Some %s)" % g_parsed(a) for a in o["answers"]])
    return "(%s, %s, (%s, %s, %s))" % (g_str(o["old"]), common.g_list([g_str(c) for c in chunks]), ans,
                                       g_str(o["mid"]), g_str(o["end"]))


def check_timeout_scenario(ck, real_timeout):
    obs, err = timeout_scenario(real_timeout, ck.seed)
    if err:
        ck.mismatch("the Timeout scenario could not be observed: " + err, None)
        return
    hdr = HEADER + "From MWF Require Import Status.Lock Status.LockCase.\n"
    lit = g_lock_case(obs)
    bad, errs = common.coq_failing("C12_lock", hdr, LOCK_CASE_TY, "lock_case_ok", [lit])
    for e in errs:
        ck.mismatch("coqc failed on cases file", None, e[1])
    shown = {"answers": [a if isinstance(a, str) else ("{}" if a == [] else "table with %d rows" % len(a[0][1]))
                         for a in obs["answers"]],
             "waited_s_reader_writer": obs["waited"], "real_timeout": real_timeout,
             "file_unchanged_by_writer_timeout": obs["mid"] == obs["old"], "final_is_new": obs["end"] == obs["new"]}
    ck.notes["timeout_scenario"] = shown
    ck.count("timeout-scenario", nontrivial=True)
    if bad:
        unmon, _ = common.coq_failing("C12_lock_why", hdr, LOCK_CASE_TY, "lock_case_monitor", [lit])
        what = ("with .status.lock held elsewhere: get_status answers %s, status.csv after the writer's Timeout %s "
                "the old table, at the end %s the new table"
                % (shown["answers"], "is" if shown["file_unchanged_by_writer_timeout"] else "IS NOT",
                   "is" if shown["final_is_new"] else "IS NOT"))
        if unmon:
            ck.violation("a status read/write under a held lock did not give a complete table: " + what,
                         {"timeout_scenario": shown, "status_after_writer_timeout": obs["mid"][:2000]})
        else:
            ck.mismatch("Timeout scenario: implementation and Lock.scenario_model disagree: " + what,
                        {"timeout_scenario": shown})


# ----------------------------------------------------------------------------
# (b'') a status reader holds the lock BRIEFLY exactly while a poll writes
# ----------------------------------------------------------------------------
_BRIEF_HOLDER = ("import sys, time\nfrom filelock import FileLock\nl = FileLock(sys.argv[1])\n"
                 "for line in sys.stdin:\n    l.acquire()\n    print('held', flush=True)\n"
                 "    time.sleep(float(line))\n    l.release()\n    print('released', flush=True)\n")


def brief_holder_polls(seed, hold=0.35):
    """Three successive polls' tables (first, middle, LAST) are written by the
    real write_status while another process holds .status.lock -- through the
    same FileLock class Conductor.get_status uses -- for `hold` seconds (far
    below the writer's 10 s).  After the holder has released and write_status
    has returned, status.csv must be THAT poll's table.
    -> (summary, problem text or None)"""
    d = os.path.join(WORKDIR, "brief")
    ref = os.path.join(WORKDIR, "brief_ref")
    for x in (d, ref):
        shutil.rmtree(x, ignore_errors=True)
        os.makedirs(x)
    rng = random.Random(seed + 77)
    case = gen_case(rng, "plain", n=rng.choice([2, 3, 5]))
    for nd in case["nodes"]:
        nd.pop("pre", None)
    g = build_graph(case)
    summary = {"hold_s": hold, "polls": [], "writer_waited_s": []}
    holder = None
    try:
        env = dict(os.environ, PYTHONPATH=common.REPO + ":" + common.VERIF)
        holder = subprocess.Popen([sys.executable, "-c", _BRIEF_HOLDER, os.path.join(d, ".status.lock")],
                                  stdin=subprocess.PIPE, stdout=subprocess.PIPE, text=True, env=env)

        def text(where):
            with open(os.path.join(where, "status.csv"), "r", newline="", encoding="utf-8") as f:
                return f.read()
        for poll, label in enumerate(("first", "middle", "last")):
            for nd in case["nodes"]:
                nd.update(gen_dyn(rng, False, True))
                nd["restarts"] = poll          # every poll's table differs from the previous one
            apply_records(g, case["nodes"], "final")
            g.write_status(ref)                # what this poll's table is, without contention
            want = text(ref)
            holder.stdin.write("%s\n" % hold)
            holder.stdin.flush()
            if holder.stdout.readline().strip() != "held":
                return summary, "the lock holder process did not take the lock"
            t0 = time.time()
            g.write_status(d)                  # the poll's write, while a reader holds the lock
            summary["writer_waited_s"].append(round(time.time() - t0, 2))
            if holder.stdout.readline().strip() != "released":
                return summary, "the lock holder process did not release the lock"
            got = text(d) if os.path.exists(os.path.join(d, "status.csv")) else None
            summary["polls"].append(label + (": table written" if got == want else ": STALE / MISSING"))
            if got != want:
                return summary, ("the %s poll's status table was not written although the status reader held "
                                 ".status.lock for only %.2f s (write_status returned after %.2f s): status.csv is %s"
                                 % (label, hold, summary["writer_waited_s"][-1],
                                    "missing" if got is None else "the previous poll's table" if poll else "not this poll's"))
        return summary, None
    except Exception as e:
        return summary, "harness: %s: %s" % (type(e).__name__, e)
    finally:
        if holder is not None:
            try:
                holder.stdin.close()
                holder.wait(5)
            except Exception:
                holder.kill()
        shutil.rmtree(d, ignore_errors=True)
        shutil.rmtree(ref, ignore_errors=True)


# ----------------------------------------------------------------------------
# (c'') the status command's own path: get_status -> every layout, every order
# ----------------------------------------------------------------------------
def _simple(x):
    # '[', ']' and '\\' are rich's markup characters: rich.markup.escape is not an exact inverse of rendering for a
    # bare "\\[" (it is displayed as "["), which is a display quirk of the library, not a property of the table
    return bool(x) and all(33 <= ord(ch) < 127 and ch not in "[]\\" for ch in x)


def _numlike(x):
    try:
        float(x)
        return True
    except ValueError:
        return False


def render_path_problems(table, recs, order, title):
    """`table` is the dict Conductor.get_status returned.  Lay it out with every
    layout of `order` on the SAME dict, as `maestro status` does.
    (a) rendering must not change the dict; (b) every layout shows every row:
    name, state, job id, restart count on one line (flat, legacy) / in one step
    block (narrow, which also shows the parameters)."""
    import copy
    from maestrowf import status_renderer_factory as F
    before = copy.deepcopy(table)
    probs = []
    for lay in order:
        r = F.get_renderer(lay, False, True)
        r.layout(status_data=table, study_title=title, filter_dict=None)
        out = r.render_to_str(width=4000)
        if table != before or list(table.keys()) != list(before.keys()):
            lost = [k for k in before if k not in table]
            probs.append("laying the table out with '%s' CHANGED the dictionary Conductor.get_status returned "
                         "(columns lost: %s)" % (lay, lost or "none; cells differ"))
            table.clear()
            table.update(copy.deepcopy(before))
        units = out.split("STEP:")[1:] if lay == "narrow" else out.split("\n")
        for rec in recs:
            if rec is None:
                continue
            toks = [rec["name"], rec["state"], rec["jobids"][-1] if rec["jobids"] else "--", str(rec["restarts"])]
            if lay == "narrow":
                # narrow re-splits the Params cell at ';' and ':' : only values free of both are looked for
                if not any(ch in k_ + v for k_, v in rec["params"] for ch in ";:"):
                    toks += [v for _k, v in rec["params"]]
            if not all(_simple(x) for x in toks):
                continue                # only plain printable cells: rich / tabulate reflow the others
            if lay == "legacy":
                toks = [x for x in toks if not _numlike(x) or x.isdigit()]    # tabulate reformats floats
            if not any(all(x in u for x in toks) for u in units):
                probs.append("layout '%s' does not show the row of %s with %s" % (lay, rec["name"], toks[1:]))
    return probs


# ----------------------------------------------------------------------------
# (c) renderers
# ----------------------------------------------------------------------------
def render_smoke(table, title):
    """-> list of (layout, exception text) for layouts that raised."""
    bad = []
    try:
        from maestrowf import status_renderer_factory as F
        layouts = sorted(F.get_layouts())
    except Exception as e:
        return [("factory", "%s: %s" % (type(e).__name__, e))]
    for lay in layouts:
        try:
            r = F.get_renderer(lay, False, True)
            r.layout(status_data=table, study_title=title, filter_dict=None)
            out = r.render_to_str()
            if not isinstance(out, str):
                bad.append((lay, "render_to_str returned %s" % type(out).__name__))
        except Exception as e:
            bad.append((lay, "%s: %s" % (type(e).__name__, str(e)[:200])))
    return bad


# ----------------------------------------------------------------------------
# (c') the status COMMAND LINE on several study directories
# ----------------------------------------------------------------------------
QUICK_CLI, THOROUGH_CLI = 8, 48          # groups; one group = 1 multi-directory + k single-directory invocations
LAUNCHER = os.path.join(common.VERIF, "harness", "e2e_launcher.py")


BRACKETS = ["", "[all]", "[fast]", "[b]", "[/x]", "[red]", "[bold]x[/bold]", "\\[k]"]


def gen_cli_group(rng, gi):
    """2 or 3 studies with step names distinct across the studies (fixed-width
    stem: no name is a substring of another), decorated with tag-like bracket
    groups that rich would take for markup; likewise parameter values and the
    study directory names.  Layout x theme setting cycle so that every
    combination comes round every eight groups."""
    k = rng.choice([2, 2, 3])
    studies = []
    for si in range(k):
        c = gen_case(rng, "plain", n=rng.choice([1, 2, 3, 5]))
        tag = "g%dq%s" % (gi % 10, "abc"[si])
        for i, nd in enumerate(c["nodes"]):
            nd["name"] = "%s%02dz%s" % (tag, i, rng.choice(BRACKETS))
            nd["ws"] = os.path.join("/o/study", "%s%02dz" % (tag, i))
            nd["params"] = [] if rng.random() < 0.4 else [["TAG", "v%s%d%s" % ("abc"[si], i, rng.choice(BRACKETS[1:]))]]
            nd.pop("pre", None)
        c["dir"] = "std%s%dx%d%s" % ("ABC"[si], gi, rng.randrange(1000), rng.choice(["", "[b]", "[all]", "[/x]"]))
        studies.append(c)
    return {"layout": ["flat", "legacy", "narrow", None][gi % 4], "disable_theme": (gi // 4) % 2 == 1,
            "studies": studies}


def _cli(argv_tail, cwd):
    env = dict(os.environ, PYTHONPATH=common.REPO + ":" + common.VERIF, COLUMNS="400", LINES="50", NO_COLOR="1",
               TERM="dumb")
    try:
        p = subprocess.run([sys.executable, LAUNCHER, "maestro", "status", "--disable-pager"] + argv_tail,
                           cwd=cwd, env=env, stdout=subprocess.PIPE, stderr=subprocess.PIPE, text=True, timeout=120)
        return p.returncode, p.stdout, p.stderr
    except subprocess.TimeoutExpired:
        return 124, "", "timeout"


def cli_group_problems(group, root):
    """Write the studies' status.csv with the REAL writer, run the REAL command
    line.  -> (list of problems, number of invocations).  Rendering-agnostic
    oracle: exit code 0; the output segment of each study (split at the
    directory names, in the order given) names every step of that study and
    none of another; `status A B ..` prints what `status A`, `status B`, ..
    print one after the other."""
    from concurrent.futures import ThreadPoolExecutor
    shutil.rmtree(root, ignore_errors=True)
    os.makedirs(root)
    dirs, names = [], []
    for c in group["studies"]:
        d = os.path.join(root, c["dir"])
        os.makedirs(d)
        g = build_graph(c)
        apply_records(g, c["nodes"], "final")
        g.write_status(d)
        dirs.append(c["dir"])
        names.append([nd["name"] for nd in c["nodes"]])
    lay = (["--layout", group["layout"]] if group["layout"] else []) + \
        (["--disable-theme"] if group.get("disable_theme") else [])
    jobs = [lay + dirs] + [lay + [d] for d in dirs]
    values = [[v for nd in c["nodes"] for _k, v in nd["params"]] for c in group["studies"]]
    with ThreadPoolExecutor(max_workers=len(jobs)) as ex:
        outs = list(ex.map(lambda a: _cli(a, root), jobs))
    probs = []
    for a, (rc, so, se) in zip(jobs, outs):
        if rc != 0:
            probs.append("`maestro status %s` exited %d: %s" % (" ".join(a), rc, se.strip()[-300:]))
    if probs:
        return probs, len(jobs)
    multi = outs[0][1]
    lines = multi.split("\n")
    starts = []
    for d in dirs:
        idx = [i for i, l in enumerate(lines) if d in l]
        starts.append(idx[0] if idx else None)
    if any(x is None for x in starts) or starts != sorted(starts) or len(set(starts)) != len(starts):
        probs.append("`maestro status %s`: the studies' titles do not appear once each in the order given "
                     "with the directory name verbatim (title lines %s)" % (" ".join(jobs[0]), starts))
    else:
        for i, d in enumerate(dirs):
            seg = "\n".join(lines[starts[i]:(starts[i + 1] if i + 1 < len(dirs) else len(lines))])
            for j, ns in enumerate(names):
                for nm in ns:
                    if i == j and nm not in seg:
                        probs.append("`maestro status %s`: the report for %s does not show its step %s"
                                     % (" ".join(jobs[0]), d, nm))
                    if i != j and nm in seg:
                        probs.append("`maestro status %s`: the report for %s shows step %s of study %s"
                                     % (" ".join(jobs[0]), d, nm, dirs[j]))
            if group["layout"] == "narrow":          # the only layout with the Params column
                for v in values[i]:
                    if str(v) not in seg:
                        probs.append("`maestro status %s`: the report for %s does not show the parameter value %s "
                                     "verbatim" % (" ".join(jobs[0]), d, v))
    singles = "".join(o[1] for o in outs[1:])
    if multi != singles:
        probs.append("`maestro status %s` does not print what the single-directory invocations print one after "
                     "the other (%d vs %d characters)" % (" ".join(jobs[0]), len(multi), len(singles)))
    return probs, len(jobs)


def check_cli(ck, rng, ngroups):
    root = os.path.join(WORKDIR, "cli")
    stat = {"groups": 0, "invocations": 0, "layouts": {}, "problems": 0}
    for gi in range(ngroups):
        group = gen_cli_group(rng, gi)
        probs, n = cli_group_problems(group, os.path.join(root, "r%d" % gi))
        stat["groups"] += 1
        stat["invocations"] += n
        lay = (group["layout"] or "default(flat)") + ("/no-theme" if group.get("disable_theme") else "")
        stat["layouts"][lay] = stat["layouts"].get(lay, 0) + 1
        ck.count("cli:%d:%s" % (gi, json.dumps(group, sort_keys=True)[:2000]), nontrivial=True, n=n)
        if probs:
            stat["problems"] += len(probs)
            if stat["problems"] <= 40:
                ck.violation("the status command does not reproduce each study's table: " + "; ".join(probs[:4]),
                             {"cli": group, "directories": [c["dir"] for c in group["studies"]],
                              "argv": ["maestro", "status", "--disable-pager"] +
                                      (["--layout", group["layout"]] if group["layout"] else []) +
                                      (["--disable-theme"] if group.get("disable_theme") else []) +
                                      [c["dir"] for c in group["studies"]]})
    shutil.rmtree(root, ignore_errors=True)
    ck.notes["status_cli"] = stat


# ----------------------------------------------------------------------------
# the check
# ----------------------------------------------------------------------------
def load_corpus():
    out = []
    for p in sorted(glob.glob(os.path.join(CORPUS, "*.json"))):
        try:
            c = json.load(open(p))
        except Exception:
            continue
        c = c.get("case", c)
        if isinstance(c, dict) and "nodes" in c and "ops" in c:
            c["stream"] = "corpus"
            c["corpus_file"] = os.path.relpath(p, common.VERIF)
            out.append(c)
    return out


def load_corpus_hist():
    out = []
    for p in sorted(glob.glob(os.path.join(CORPUS, "*.json"))):
        try:
            c = json.load(open(p))
        except Exception:
            continue
        c = c.get("case", c)
        if isinstance(c, dict) and "hist" in c:
            c["corpus_file"] = os.path.relpath(p, common.VERIF)
            out.append(c)
    return out


def replay_history(c, want_x=False):
    """re-run a stored history (scripted pins) -> [(descr, obs)] for its polls
    (+ the whole-history case for the execution-model oracle)"""
    h = c["hist"]
    polls, ecase = run_one_history(h["nodes"], h["cfg"], h.get("plan") or [[] for _ in h["nodes"]],
                                   random.Random(0), h.get("profile", "mixed"), len(h["pins"]),
                                   scripted_pins=h["pins"])
    for d, _o in polls:
        d["stream"] = "history-corpus" if c.get("corpus_file") else "history"
        if c.get("corpus_file"):
            d["corpus_file"] = c["corpus_file"]
    if want_x:
        return polls, make_xobs(h["nodes"], h["cfg"], ecase, polls, "corpus", h.get("profile", "mixed"))
    return polls


def strip_case(c):
    return {k: v for k, v in c.items()
            if k in ("stream", "shape", "nodes", "ops", "corpus_file", "hist", "poll", "status_after_poll", "staged")}


def evaluate(tag, cases, fn, ty=None, lit=None):
    lits = [(lit or g_case)(o) for _, o in cases]
    # many small shards: coqc runs in parallel (common.coq_failing uses a pool of NCPU)
    shard = max(25, min(400, -(-len(lits) // max(2, common.NCPU - 2))))
    return common.coq_failing(tag, HEADER, ty or CASE_TY, fn, lits, shard=shard)


def observe(cases):
    outs = []
    for k, c in enumerate(cases):
        o = run_impl(c, os.path.join(WORKDIR, "run", "c%d" % (k % 64)))
        outs.append((c, o))
    shutil.rmtree(os.path.join(WORKDIR, "run"), ignore_errors=True)
    return outs


def classify(ck, tag, obs):
    """obs: [(case, impl output)].  Pass 1: agreement + monitor; pass 2 on the
    failures: which half failed."""
    usable = [(c, o) for c, o in obs if o["error"] is None]
    for c, o in obs:
        if o["error"] is not None:
            ck.mismatch("the harness could not build/observe a case against the current tree: " + o["error"],
                        strip_case(c))
    bad, errs = evaluate(tag, usable, "case_ok")
    for e in errs:
        ck.mismatch("coqc failed on cases file", None, e[1])
    if bad:
        sub = [usable[i] for i in bad]
        # the monitor decides first: a concrete violation by the implementation ...
        unmon, errs2 = evaluate(tag + "_why", sub, "case_monitor")
        for e in errs2:
            ck.mismatch("coqc failed on cases file", None, e[1])
        nmodel = 0
        for j, (c, o) in enumerate(sub):
            if j in unmon:
                ck.violation("status table read back by Conductor.get_status is not one row per step instance "
                             "with its current fields (C12_ok false on the implementation): status.csv=%r parsed=%s"
                             % ((o["text"] or "")[:400], json.dumps(o["parsed"])[:300]), strip_case(c))
            else:
                # ... otherwise model and implementation disagree
                model = ""
                if nmodel < 3:
                    nmodel += 1
                    model = common.coq_eval(tag + "_model", HEADER,
                                            "let '(g, recs, o) := %s in model_obs g 0 recs" % g_case(o))
                ck.mismatch("status.csv / get_status differ from render(status_rows)/parse",
                            strip_case(c),
                            "impl text=%r parsed=%r\nmodel (code points): %s" % (o["text"], o["parsed"], model[-3000:]))
    return usable


def known_hits(ck, usable):
    cand_c, cand_n = [], []
    for c, o in usable:
        comma, newline = py_signature(o)
        if comma:
            cand_c.append((c, o))
        if newline:
            cand_n.append((c, o))
    # corpus first, then a bounded sample
    cand_c, cand_n = cand_c[:60], cand_n[:60]
    hits = {}
    for kid, cand, fn in ((KNOWN_COMMA, cand_c, "case_known_comma"), (KNOWN_NEWLINE, cand_n, "case_known_newline")):
        if not cand:
            hits[kid] = (0, 0, False)
            continue
        # `failing` lists the cases on which the function is false
        hit, errs = evaluate("C12_known_" + kid, cand, "fun c => negb (%s c)" % fn)
        for e in errs:
            ck.mismatch("coqc failed on cases file", None, e[1])
        witness_hit = any(cand[i][0].get("corpus_file") for i in hit)
        hits[kid] = (len(cand), len(hit), witness_hit)
    return hits


def run(ck):
    shutil.rmtree(WORKDIR, ignore_errors=True)
    os.makedirs(WORKDIR)
    phases, t_ph = {}, [time.time()]

    def phase(name):
        phases[name] = round(time.time() - t_ph[0], 1)
        t_ph[0] = time.time()
    ck.notes["phase_seconds"] = phases
    ck.build_proofs(extra_targets=["theories/Status/StatusGenProofs.vo"])
    try:
        from translate import regen
        st2 = regen.status().get("tcode_status", {})
        ck.notes["tcode_status"] = (
            "Status/StatusGen.v regenerated from the current source; Status/StatusGenProofs.v proves it equal to "
            "the models (status_subtree, write_status text, csvtable_to_dict, get_status, lock event lists)"
            if st2.get("ok") else
            "not-translatable (committed Status/StatusGen.v stays; the correspondence run carries the tie): "
            + str(st2.get("not_translatable", "?")))
        st = regen.status().get("tdata_status", {})
        ck.notes["tdata_status"] = ("regenerated from the current source: " + ",".join(st.get("files", []))) \
            if st.get("ok") else ("not-translatable (committed Gen/StatusData.v stays; the correspondence run "
                                  "carries the tie): " + str(st.get("not_translatable", "?")))
    except Exception as e:
        ck.notes["tdata_status"] = "status unavailable: %r" % (e,)
    phase("proofs")
    rng = random.Random(ck.seed)
    thorough = ck.tier == "thorough"

    # (d) lock discipline, structurally
    probs = lock_structure(common.REPO)
    ck.notes["lock_structure"] = probs or "ok: both open(status.csv) inside with FileLock(.status.lock).acquire inside try/except Timeout"
    for p in probs:
        ck.mismatch("lock discipline not recognised in the source: " + p, None,
                    "Status/Lock.v models `acquire; truncate; write*; release` / `acquire; read; release`")

    # (a) cases
    corpus = load_corpus()
    n = THOROUGH_CASES if thorough else QUICK_CASES
    cases = list(corpus) + small_scope_cases(rng)
    for k in range(n):
        r = k % 10
        stream = "plain" if r < 2 else ("exotic" if r >= 7 else "valid")
        cases.append(gen_case(rng, stream))
    obs = observe(cases)
    staged = staged_cases(rng, THOROUGH_STAGED if thorough else QUICK_STAGED)
    falsy = sum(1 for c, _o in staged for _k, vals in c["staged"]["params"] for v in vals if not v)
    ck.notes["staged_studies"] = {"studies": len(staged), "instances": sum(len(c["nodes"]) for c, _o in staged),
                                  "falsy_parameter_values_in_tables": falsy,
                                  "rows_with_a_falsy_value": sum(1 for c, _o in staged for nd in c["nodes"]
                                                                 if any(v in ("0", "0.0", "False", "", "None")
                                                                        for _k, v in nd["params"]))}
    obs.extend(staged)
    phase("implementation")
    usable = classify(ck, "C12", obs)
    phase("coq-cases")

    # (a') execution histories: status.csv after every poll (+ stored failing histories first)
    hobs = []
    xcorpus = []
    for hc in load_corpus_hist():
        hp, hx = replay_history(hc, want_x=True)
        hobs.extend(hp)
        if hx is not None:
            xcorpus.append(hx)
    more, xobs, hstat = history_polls(rng, THOROUGH_HIST if thorough else QUICK_HIST)
    hobs.extend(more)
    xobs = xcorpus + xobs
    hstat["corpus_histories"] = len(xcorpus)
    phase("histories-implementation")
    husable = classify_hist(ck, "C12_hist", hobs)
    hstat["histories_checked_against_execution_model"] = classify_xhist(ck, "C12_xhist", xobs)
    phase("coq-histories")
    ck.notes["histories"] = hstat

    hist = {"stream": {}, "instances": {}, "shape": {}, "parsed": {}, "params_per_row": {}, "jobids": {},
            "history_poll_index": {}, "history_states_shown": {}}

    def bump(h, k):
        hist[h][str(k)] = hist[h].get(str(k), 0) + 1
    for c, o in usable:
        key = hashlib.sha1(json.dumps([o["adj"], o["recs"]], sort_keys=True).encode()).hexdigest()
        ck.count(key, nontrivial=len(c["nodes"]) >= 1)
        bump("stream", c["stream"])
        nn = len(c["nodes"])
        bump("instances", nn if nn <= 6 else ("7-12" if nn <= 12 else "13+"))
        bump("shape", c["shape"])
        bump("parsed", o["parsed"] if isinstance(o["parsed"], str) else "table")
        for nd in c["nodes"]:
            bump("params_per_row", len(nd["params"]))
            bump("jobids", len(nd["jobids"]))
    for c, o in husable:
        key = hashlib.sha1(json.dumps([o["adj"], o["recs"], o["subs"]], sort_keys=True).encode()).hexdigest()
        ck.count(key, nontrivial=bool(o["subs"]))
        bump("stream", "history")
        bump("shape", c["shape"])
        bump("parsed", o["parsed"] if isinstance(o["parsed"], str) else "table")
        bump("history_poll_index", c["poll"] if c["poll"] < 6 else "6+")
        for r in o["recs"]:
            if r is not None:
                bump("history_states_shown", r["state"])
                bump("jobids", min(len(r["jobids"]), 3))
    for c, o in usable[len(corpus):len(corpus) + 400:97]:
        ck.sample({"case": strip_case(c), "status_csv": o["text"], "get_status": o["parsed"]})
    for c, o in husable[5:6]:
        ck.sample({"case": strip_case(c), "status_csv": o["text"], "adapter_submissions": o["subs"]}, limit=6)

    # known findings (K3): replayed on every run
    hits = known_hits(ck, usable)
    known_ids = {k["id"]: k for k in ck.known}
    for kid, what_default in ((KNOWN_COMMA, "a ',' in a step name / parameter / job id makes csvtable_to_dict raise KeyError (or mis-columnise)"),
                              (KNOWN_NEWLINE, "a line break in a step name / parameter value tears the row: get_status returns ragged, mis-keyed columns")):
        ncand, nhit, whit = hits.get(kid, (0, 0, False))
        ck.notes["known_" + kid] = {"candidates_evaluated": ncand, "monitor_false_with_signature": nhit,
                                    "witness_still_fails": whit, "registered": kid in known_ids}
        if nhit:
            if kid in known_ids:
                ck.known_hit(kid, known_ids[kid].get("what", what_default))
            else:
                ck.violation("unregistered finding: " + what_default, None)

    phase("known-findings")
    # (c) renderers on in-H12 tables
    nrender = THOROUGH_RENDER if thorough else QUICK_RENDER
    rendered = 0
    rbad = npath = pbad = 0
    t_r = time.time()
    for c, o in usable:
        if rendered >= nrender:
            break
        if c["stream"] in ("exotic", "small-cells-exotic") or not isinstance(o["parsed"], list) or o["table"] is None:
            continue
        if any(py_signature(o)):
            continue
        if len(c["nodes"]) > 12 and rendered % 10:
            continue
        rendered += 1
        import copy
        pristine = copy.deepcopy(o["table"])
        smoke = render_smoke(o["table"], os.path.join(WORKDIR, "out", "study_20240102-030405"))
        if o["table"] != pristine or list(o["table"].keys()) != list(pristine.keys()):
            pbad += 1
            if pbad <= 3:
                ck.violation("rendering CHANGED the dictionary Conductor.get_status returned (columns lost: %s)"
                             % ([k for k in pristine if k not in o["table"]],), strip_case(c))
            o["table"].clear()
            o["table"].update(pristine)
        for lay, exc in smoke:
            rbad += 1
            if rbad <= 3:
                ck.violation("maestro status renderer '%s' raised on a table within H12: %s" % (lay, exc),
                             strip_case(c))
        # the status command's path on the SAME dict, the layouts in every order (cycled over the tables)
        try:
            orders = list(itertools.permutations(["flat", "legacy", "narrow"]))
            for order in (orders if rendered <= 6 else [orders[rendered % 6]]):
                pp = render_path_problems(o["table"], o["recs"], order, "/x/study_20240102-030405")
                npath += 1
                if pp:
                    pbad += 1
                    if pbad <= 3:
                        ck.violation("the status command's path (Conductor.get_status -> layouts %s on the same table) "
                                     "does not reproduce the table: %s" % ("/".join(order), "; ".join(pp[:3])),
                                     strip_case(c))
                    break
        except Exception as e:
            pbad += 1
            if pbad <= 3:
                ck.violation("the status command's path raised %s: %s" % (type(e).__name__, str(e)[:200]), strip_case(c))
    ck.notes["renderers"] = {"tables_rendered_in_every_layout": rendered, "raised": rbad,
                             "layout_sequences_on_one_table": npath, "sequences_with_problems": pbad,
                             "seconds": round(time.time() - t_r, 1)}
    ck.count("renderers", nontrivial=False, n=rendered)

    phase("renderers")
    # (c') the command line on several directories
    check_cli(ck, rng, THOROUGH_CLI if thorough else QUICK_CLI)
    phase("status-cli")
    # (b') Timeout branches against the model (thorough: the code's real 10 s)
    check_timeout_scenario(ck, real_timeout=thorough)
    phase("timeout-scenario")

    # (b'') a reader holds the lock briefly exactly while the first / a middle / the last poll writes
    bsum, bprob = brief_holder_polls(ck.seed)
    ck.notes["brief_lock_holder"] = bsum
    ck.count("brief-holder", nontrivial=True, n=3)
    if bprob and bprob.startswith("harness:"):
        ck.mismatch("the brief-holder scenario could not be observed: " + bprob, None)
    elif bprob:
        ck.violation("a poll's status write is lost to a concurrent `maestro status`: " + bprob,
                     {"brief_holder": bsum, "how": "a process holds FileLock(<dir>/.status.lock) for %.2f s while "
                      "ExecutionGraph.write_status(<dir>) is called for three successive polls" % bsum["hold_s"]})
    phase("brief-holder")

    # (b) the real lock
    secs = THOROUGH_STRESS_S if thorough else QUICK_STRESS_S
    summary, first_bad = stress(secs, ck.seed)
    ck.notes["lock_stress"] = summary
    if first_bad:
        ck.violation("a concurrent `maestro status` read did not see a complete table: " + first_bad,
                     {"stress": summary, "how": "one writer alternating two complete tables through "
                      "ExecutionGraph.write_status, readers through Conductor.get_status, same directory"})
    elif summary.get("reads", 0) == 0 or summary.get("writes", 0) == 0:
        ck.mismatch("the lock stress run made no progress", None, json.dumps(summary))
    ck.count("lock-stress", nontrivial=False, n=summary.get("reads", 0))
    phase("lock-stress")

    ck.cov["rule"] = (
        "case = DAG shape (chain/fan/funnel/diamond/layers/random; edges added while staging or afterwards in "
        "random order) x per-instance record (name, params, workspace, job ids, state, restarts, times; 25% with an "
        "earlier write of other contents). Streams: plain 20%, valid 50% (any character but , LF CR: unicode, "
        "quotes, colons, semicolons, brackets, U+2028, VT, FF), exotic 30% (commas, LF, CR, CRLF; unreachable "
        "nodes; edges against insertion order). Exhaustive: all 26 staged shapes over <=3 instances; every "
        "string of length <=2 over {a , LF CR ; : \" space} as step name / parameter value. A case is distinct by "
        "(adjacency table, records) and non-trivial when it has at least one instance.")
    ck.cov["rule"] += (
        " History stream: real ExecutionGraph driven by the scripted scheduler (harness/exec_harness.py: random DAG "
        "<=7 steps, throttle/attempts/dry-run, report profiles, cancel requests, submission failures); after EVERY "
        "poll the real write_status + Conductor.get_status run; one case per poll = (graph, the implementation's own "
        "records, status.csv, returned dict, adapter submissions so far); distinct by that tuple, non-trivial once a "
        "job was submitted.")
    ck.cov["rule"] += (
        " Staged stream: parameter tables (1-3 keys x 1-4 values drawn from 0, 0.0, False, '', None, ints, floats, "
        "bools, strings; mixed types) and 1-4 steps go through the real ParameterGenerator -> Combination -> "
        "Study.stage() -> ExecutionGraph.add_step -> write_status; the parameters a row must show are read off "
        "the instance's SUBMITTED command (<<K=$(K)>> markers), not off the record.")
    ck.cov["rule"] += (
        " Status-CLI stream: 2-3 generated studies (distinct fixed-width step names) written by the real writer "
        "into separate directories; the real `maestro status [--layout L] dirA dirB [dirC]` and the single-directory "
        "invocations run as sub-processes (maestrowf.maestro.main); exit 0, per-study segment shows exactly that "
        "study's steps, multi-directory output = concatenation of the single-directory outputs.")
    ck.cov["traces_validated_against_impl"] = len(usable) + len(husable)
    ck.cov["input_distribution"] = hist
    ck.assumptions.append(
        "mutual exclusion of filelock.FileLock on one path (filelock package + OS advisory locks) is ASSUMED by "
        "Status/Lock.v (a single holder cell); it is exercised, not proved: multi-process stress run and the "
        "Timeout scenario on the real lock")
    ck.assumptions.append(
        "C12_roundtrip / C12_status_readable carry the hygiene hypothesis H12 (no ',' LF CR in any cell); its "
        "complement is the known finding K3 (C12_roundtrip_refuted*, KNOWN_FINDINGS.txt)")

    def search():
        # a broken proof / correspondence without a concrete input so far:
        # bigger generator budget through the monitor, longer stress
        rng2 = random.Random(ck.seed + 1000003)
        more = [gen_case(rng2, "valid" if k % 3 else "plain") for k in range(1500)]
        obs2 = [(c, o) for c, o in observe(more) if o["error"] is None]
        bad, _ = evaluate("C12_search", obs2, "case_monitor")
        if bad:
            c, o = obs2[bad[0]]
            return ("C12_ok false on the implementation's table: parsed=%s" % (json.dumps(o["parsed"])[:300],),
                    strip_case(c))
        hobs2, xobs2, _ = history_polls(rng2, 300)
        hobs2 = [(c, o) for c, o in hobs2 if o["error"] is None]
        before = len(ck.concrete)
        classify_xhist(ck, "C12_search_x", xobs2)
        if len(ck.concrete) > before:
            return ck.concrete[before]
        bad, _ = evaluate("C12_search_h", hobs2, "hcase_monitor", ty=HCASE_TY, lit=g_hcase)
        if bad:
            c, o = hobs2[bad[0]]
            return ("after poll %d the status table is not one row per instance with its current fields / latest "
                    "job id: status.csv=%r adapter submissions=%s" % (c["poll"], (o["text"] or "")[:600], o["subs"]),
                    strip_case(c))
        for c, o in obs2[:400]:
            if isinstance(o["parsed"], list) and o["table"] is not None and not any(py_signature(o)):
                rb = render_smoke(o["table"], "/x/y")
                if rb:
                    return ("maestro status renderer '%s' raised: %s" % rb[0], strip_case(c))
        summary2, fb = stress(25.0, ck.seed + 1)
        if fb:
            return ("a concurrent `maestro status` read did not see a complete table: " + fb,
                    {"stress": summary2})
        return None

    rc = ck.finish(search=search)
    shutil.rmtree(WORKDIR, ignore_errors=True)
    return rc


def replay(ck, path):
    os.makedirs(WORKDIR, exist_ok=True)
    doc = json.load(open(path))
    case = doc.get("case", doc)
    if isinstance(case, dict) and "staged" in case:
        o = run_staged(case["staged"], os.path.join(WORKDIR, "replay_staged"))
        print("parameter table:", json.dumps(case["staged"]["params"]), "steps:", json.dumps(case["staged"]["steps"]))
        print("implementation: status.csv =", repr(o["text"]))
        if o["error"]:
            print("implementation error:", o["error"])
            return 1
        print("parameters read off the SUBMITTED commands, per instance:",
              json.dumps([[r["name"], r["params"]] for r in o["recs"] if r is not None]))
        lit = g_case(o)
        res = {}
        for fn in ("case_agrees", "case_monitor"):
            out = common.coq_eval("C12_replay", HEADER, "%s %s" % (fn, lit))
            res[fn] = "true" in out.split(":")[0]
        print("verdict: status.csv / get_status = model on the submitted parameters: %s; monitor C12_ok: %s"
              % (res["case_agrees"], res["case_monitor"]))
        return 0 if all(res.values()) else 1
    if isinstance(case, dict) and "cli" in case:
        probs, n = cli_group_problems(case["cli"], os.path.join(WORKDIR, "cli_replay"))
        print("studies written by the real writer into:", os.path.join(WORKDIR, "cli_replay"),
              [c["dir"] for c in case["cli"]["studies"]])
        print("%d invocations of `maestro status`; problems: %s" % (n, json.dumps(probs, indent=1)))
        return 1 if probs else 0
    if isinstance(case, dict) and "hist" in case:
        polls = replay_history(case)
        rc = 0
        for d, o in polls:
            if o["error"]:
                print("poll %d: harness error %s" % (d["poll"], o["error"]))
                rc = 1
                continue
            out = common.coq_eval("C12_replay", HEADER, "hcase_ok %s" % g_hcase(o))
            ok = "true" in out.split(":")[0]
            print("poll %d: status.csv=%r\n  get_status=%s\n  adapter submissions=%s\n  hcase_ok=%s"
                  % (d["poll"], o["text"], json.dumps(o["parsed"])[:400], o["subs"], ok))
            rc = rc or (0 if ok else 1)
        from harness import exec_harness as XH
        h = case["hist"]
        if polls and len(polls) <= len(h["pins"]) and all(o["error"] is None for _d, o in polls):
            # the run stops at the first non-RUNNING study status; the delivered pins are in the descriptions
            used = polls[-1][0]["hist"]["pins"]
            xlit = "(%s, %s, %s, %s)" % (XH.g_cfg(h["cfg"]), XH.g_nodes(h["nodes"]),
                                         common.g_list([XH.g_pin(p) for p in used]),
                                         common.g_list([g_parsed(o["parsed"]) for _d, o in polls]))
            hdr = HEADER + XHEADER_EXTRA
            out = common.coq_eval("C12_replay", hdr, "xcase_ok %s" % xlit)
            okx = "true" in out.split(":")[0]
            out = common.coq_eval("C12_replay", hdr, "(xcase_rule_ok %s, xcase_model_rule_ok %s)" % (xlit, xlit))
            okr = "false" not in out.split(":")[0]
            print("dispatch table per delivered report (implementation's columns, model's rows):",
                  " ".join(out.split(":")[0].split()))
            rc = rc or (0 if okr else 1)
            rows = common.coq_eval("C12_replay", hdr,
                                   "let '(cf, g, pins, _) := %s in map (fun o : ExecRun.obs => snd (fst o)) "
                                   "(ExecRun.run cf g (init g) pins)" % xlit)
            print("execution model rows per poll (state, job ids, restarts):", " ".join(rows.split())[-1500:])
            print("State / Job ID / Number Restarts columns agree with the execution model after every poll "
                  "(xcase_ok) = %s" % okx)
            rc = rc or (0 if okx else 1)
        return rc
    if not (isinstance(case, dict) and "nodes" in case and "ops" in case):
        print("replay: %s holds no graph case (kind=%s): %s" % (path, doc.get("kind"), doc.get("what")))
        if isinstance(case, dict) and "brief_holder" in case:
            bsum, bprob = brief_holder_polls(ck.seed)
            print("brief-holder re-run:", json.dumps(bsum), "problem:", bprob)
            return 1 if bprob else 0
        if isinstance(case, dict) and "stress" in case:
            summary, fb = stress(10.0, ck.seed)
            print("stress re-run:", json.dumps(summary), "first bad:", fb)
            return 1 if fb else 0
        print(json.dumps(doc, indent=1)[:4000])
        return 1
    o = run_impl(case, os.path.join(WORKDIR, "replay"))
    print("implementation: status.csv =", repr(o["text"]))
    print("implementation: get_status =", json.dumps(o["parsed"]))
    if o["error"]:
        print("implementation error:", o["error"])
        return 1
    lit = g_case(o)
    res = {}
    for fn in ("case_agrees", "case_monitor", "case_known_comma", "case_known_newline"):
        out = common.coq_eval("C12_replay", HEADER, "%s %s" % (fn, lit))
        res[fn] = "true" in out.split(":")[0]
    print("model:", common.coq_eval("C12_replay", HEADER,
                                    "let '(g, recs, o) := %s in (valid g 0 recs, H12_rows g 0 recs, snd (model_obs g 0 recs))" % lit)[-2500:])
    rb = []
    if isinstance(o["parsed"], list) and o["table"] is not None and not any(py_signature(o)):
        rb = render_smoke(o["table"], "/x/y")
    print("renderers raised:", rb)
    print("verdict: model agrees with implementation = %s; monitor (guarded by validity and H12) = %s; "
          "known-finding signature comma = %s newline = %s"
          % (res["case_agrees"], res["case_monitor"], res["case_known_comma"], res["case_known_newline"]))
    shutil.rmtree(os.path.join(WORKDIR, "replay"), ignore_errors=True)
    return 0 if res["case_agrees"] and res["case_monitor"] and not rb else 1


if __name__ == "__main__":
    if len(sys.argv) >= 6 and sys.argv[1] == "--stress":
        sys.exit(stress_worker(sys.argv[2], sys.argv[3], float(sys.argv[4]), int(sys.argv[5])))

"""C09 -- every defined token is substituted with the right value, and only those.

Correspondence between the real text substitution of maestrowf and the Gallina
model coq/theories/Expand/Subst.v, plus the monitor `C09_ok` (the predicate the
theorems of Props/C09.v are about) evaluated inside Coq on the IMPLEMENTATION's
texts.

The study is built exactly the way maestro.py's run_study builds it
(YAMLSpecification.load_specification_from_stream -> get_study_environment /
get_study_steps / get_parameters -> environment.remove("OUTPUT_PATH"), add
OUTPUT_PATH and SPECROOT -> Study(...) [add_step applies the environment] ->
setup_workspace / configure_study(dry_run) / setup_environment -> stage()), then
ExecutionGraph.set_adapter({"type": "local"}) and generate_scripts() (the real
LocalScriptAdapter.write_script; nothing is executed).  Explicit label lists
and parameter names are not admitted by the YAML schema; such cases build the
ParameterGenerator directly (`add_parameter`), which is what a custom pgen does.

A case is a JSON object
  {"stream": ..., "variables": {name: str|int|float}, "labels": {name: str},
   "paths": [name...], "params": [{"key","values","label": str|[str],"name"?}],
   "steps": [{"name","description","run": {...}}], "shell"?: str}
Observable: Raised (stage()/generate_scripts() raised) or, for every record of
the ExecutionGraph: name, description, the expanded `run` dict (keys sorted;
strings as text, other scalars by repr), the text of the written script and of
the restart script.

Streams: corpus | valid (inside the hygiene hypothesis; the monitor must hold)
| exotic (values containing token text, junctions, adjacent workspace tokens,
label chains, references to unknown steps ...: model and implementation must
still agree; a failing monitor is reported as KNOWN-FINDING K4a / K4b by
signature -- only when that signature is listed in KNOWN_FINDINGS.txt -- never
as VIOLATION; a model/implementation disagreement on an input OUTSIDE the
hygiene hypothesis is recorded in the evidence, it is not an alarm) | core
(small scope of the core law: Python's own str.replace in several orders against
`seq` and `sim`) | scan (re.findall(WSREGEX, .) of the real module against
`ws_findall`, exhaustive over short fragment sequences plus random ones) | nested
(utils.apply_function with a real Combination.apply on nested lists / dicts
against `apply_function`; its monitor is the statement of C09_recursion, a
failure of it on the implementation's result is a VIOLATION).
"""
import glob
import io
import itertools
import json
import os
import random
import re
import shutil
import sys
from collections import Counter, OrderedDict

from harness import common

PID = "C09"
SOURCE = "_source"

HEADER = """From Coq Require Import List NArith Bool.
From MWF Require Import Base.Str Expand.PyStr Expand.Subst.
Import ListNotations.
Definition A_ := @app N.
Definition EV (n v : str) (b : bool) := EAdd (EVar n v b).
Definition ED (n v : str) := EAdd (EDep n v).
Definition P_ := Build_param.
Definition S_ := Build_step.
Definition I_ := Build_inst.
Definition C_ := Build_case.
Definition chk (p : case * outcome) : bool :=
  valid_case (fst p) && outcome_eqb (stage Model (fst p)) (snd p) && C09_ok (fst p) (snd p).
Definition chk_all (p : case * outcome) : bool := chk p && hyg (fst p).
Definition chk_valid (p : case * outcome) : bool := valid_case (fst p).
Definition chk_corr (p : case * outcome) : bool := outcome_eqb (stage Model (fst p)) (snd p).
Definition chk_mon (p : case * outcome) : bool := C09_ok (fst p) (snd p).
Definition chk_hyg (p : case * outcome) : bool := hyg (fst p).
Definition chk_notK4a (p : case * outcome) : bool := negb (sig_K4a (fst p)).
Definition chk_notK4c (p : case * outcome) : bool := negb (sig_K4c (fst p)).
Definition chk_staged (p : case * outcome) : bool := match snd p with Raised => false | _ => true end.
"""

CORE_HEADER = """From Coq Require Import List NArith Bool.
From MWF Require Import Base.Str Expand.PyStr Expand.Subst.
Import ListNotations.
Definition A_ := @app N.
(* (table, text, [python result of sequential replace in each listed order], python `in` results) *)
Definition core_chk (p : table * str * list (table * str)) : bool :=
  let '(T, x, runs) := p in
  forallb (fun r => str_eqb (seq (fst r) x) (snd r)) runs &&
  (negb (wf_tableb T && token_free T (sim T x)) ||
   forallb (fun r => str_eqb (snd r) (sim T x)) runs).
"""

SCAN_HEADER = """From Coq Require Import List NArith Bool.
From MWF Require Import Base.Str Expand.PyStr Expand.Subst.
Import ListNotations.
Definition A_ := @app N.
(* (text, re.findall(WSREGEX, text)) *)
Definition scan_chk (p : str * list str) : bool := list_str_eqb (ws_findall (fst p)) (snd p).
"""

NESTED_HEADER = """From Coq Require Import List NArith Bool.
From MWF Require Import Base.Str Expand.PyStr Expand.Subst.
Import ListNotations.
Definition A_ := @app N.
Definition P_ := Build_param.
(* (one-row parameter table, value, utils.apply_function(value, Combination.apply)) *)
(* the monitor: the statement of C09_recursion on the IMPLEMENTATION's result *)
Definition nested_mon (p : list param * pyval * pyval) : bool :=
  let '(ps, v, out) := p in
  pyval_eqb (skeleton out) (skeleton v) &&
  list_str_eqb (strings_of out) (map (apply_str (param_pass Model ps 0)) (strings_of v)).
Definition nested_chk (p : list param * pyval * pyval) : bool :=
  let '(ps, v, out) := p in
  pyval_eqb (apply_function (param_pass Model ps 0) v) out && nested_mon p.
"""


# ----------------------------------------------------------------------------
# Gallina literals
# ----------------------------------------------------------------------------
def g_str(x):
    """python str -> Gallina `str`; printable ASCII runs as `s "..."`, the rest
    as explicit code points, concatenated with A_ (= app)."""
    if x == "":
        return "[]"
    parts, cur = [], []
    for ch in x:
        if 32 <= ord(ch) < 127 and ch != '"':
            cur.append(ch)
        else:
            if cur:
                parts.append('(s "%s")' % "".join(cur))
                cur = []
            if parts and parts[-1].startswith("["):
                parts[-1] = parts[-1][:-1] + "; %d%%N]" % ord(ch)
            else:
                parts.append("[%d%%N]" % ord(ch))
    if cur:
        parts.append('(s "%s")' % "".join(cur))
    out = parts[-1]
    for p in reversed(parts[:-1]):
        out = "(A_ %s %s)" % (p, out)
    return out


def g_list(items):
    return "[" + "; ".join(items) + "]"


def g_pyval(v):
    if isinstance(v, str):
        return "(VStr %s)" % g_str(v)
    if isinstance(v, list):
        return "(VList %s)" % g_list([g_pyval(x) for x in v])
    if isinstance(v, dict):
        return "(VDict %s)" % g_list(["(%s, %s)" % (g_str(str(k)), g_pyval(w)) for k, w in v.items()])
    return "(VOther %s %s)" % (g_str(repr(v)), common.g_bool(bool(v)))


def g_run(run):
    return g_list(["(%s, %s)" % (g_str(k), g_pyval(run[k])) for k in sorted(run)])


def g_case(m):
    env = []
    for op in m["env"]:
        if op[0] == "var":
            env.append("EV %s %s %s" % (g_str(op[1]), g_str(op[2]), common.g_bool(op[3])))
        elif op[0] == "dep":
            env.append("ED %s %s" % (g_str(op[1]), g_str(op[2])))
        else:
            env.append("ERemove %s" % g_str(op[1]))
    params = []
    for p in m["params"]:
        lab = p["label"]
        glab = ("LList %s" % g_list([g_str(x) for x in lab])) if isinstance(lab, list) else ("LFmt %s" % g_str(lab))
        params.append("P_ %s %s %s (%s)" % (g_str(p["key"]), g_str(p["name"]),
                                            g_list([g_str(v) for v in p["values"]]), glab))
    steps = ["S_ %s %s %s" % (g_str(st["name"]), g_str(st["description"]), g_run(st["run"])) for st in m["steps"]]
    return "C_ %s %s %s %s %s %s" % (g_str(m["root"]), g_str(m["shell"]), g_list(env), g_list(params),
                                     g_list(steps), g_list([str(k) for k in m["order"]]))


def g_obs(o):
    if o == "Raised" or o is None:
        return "Raised"
    insts = []
    for i in o:
        insts.append("I_ %s %s %s %s %s" % (
            g_str(i["name"]), g_str(i["description"]), g_run(i["run"]), g_str(i["script"]),
            "None" if i["rscript"] is None else "(Some %s)" % g_str(i["rscript"])))
    return "Staged " + g_list(insts)


def g_table(T):
    return g_list(["(%s, %s)" % (g_str(t), g_str(v)) for t, v in T])


# ----------------------------------------------------------------------------
# In-Coq evaluation, robust against resource pressure
# ----------------------------------------------------------------------------
def coq_failing(tag, header, ty, fn, lits, shard=400, timeout=900):
    """common.coq_failing; a shard whose coqc died without an answer (killed
    under memory pressure when other checks run concurrently, timed out) is
    re-run once, alone.  An error that persists is returned as an error."""
    bad, errs = common.coq_failing(tag, header, ty, fn, lits, shard=shard, timeout=timeout)
    still = []
    for path, out in errs:
        m = re.search(r"cases_(\d+)\.v$", path)
        if m is None or "Error" in (out or ""):
            still.append((path, out))        # a genuine Coq error: do not mask it
            continue
        rc, out2 = common.coqc_file(path, timeout=timeout * 2)
        idx = common._parse_nat_list(out2) if rc == 0 else None
        if idx is None:
            still.append((path, "rc=%s (retried alone)\n%s" % (rc, (out2 or "")[-3000:])))
        else:
            bad.extend(int(m.group(1)) * shard + i for i in idx)
    return sorted(bad), still


# ----------------------------------------------------------------------------
# Running the implementation
# ----------------------------------------------------------------------------
def _work(tag):
    d = os.path.join(common.WORK, "c09", tag)
    os.makedirs(d, exist_ok=True)
    return d


def dep_dir(name, base=None):
    d = os.path.join(base or _work("deps"), name)
    os.makedirs(d, exist_ok=True)
    os.makedirs(os.path.join(os.path.dirname(d), "sub"), exist_ok=True)
    return d


PATH_FORMS = ["abs", "rel", "dot", "dotdot", "trail", "dbl", "abs_trail", "abs_dotdot", "dot_trail"]


def path_text(name, form, base=None, cwd=None):
    """The text written into env.dependencies.paths for an existing directory:
    absolute and normalised, or relative to the process cwd / "./"-prefixed /
    with a ".." component / with a trailing or a doubled slash.  The oracle for
    the token's value is os.path.abspath(text) at the cwd of the loading process."""
    d = dep_dir(name, base)
    rel = os.path.relpath(d, cwd or os.getcwd())
    if form == "rel":
        return rel
    if form == "dot":
        return "./" + rel
    if form == "dot_trail":
        return "./" + rel + "/"
    if form == "dotdot":
        return os.path.join(os.path.dirname(rel), "sub", "..", name)
    if form == "trail":
        return rel + "/"
    if form == "dbl":
        return os.path.dirname(rel) + "//" + name
    if form == "abs_trail":
        return d + "/"
    if form == "abs_dotdot":
        return os.path.join(os.path.dirname(d), "sub", "..", ".", name)
    return d


def spec_dict(case, base=None, cwd=None):
    """The YAML document of a case (a plain dict, dumped with yaml).  `base` /
    `cwd`: where the dependency directories live and which cwd relative path
    texts refer to (the CLI stream; default: the harness' own)."""
    env = OrderedDict()
    if case.get("variables"):
        env["variables"] = OrderedDict(case["variables"])
    if case.get("labels"):
        env["labels"] = OrderedDict(case["labels"])
    if case.get("paths"):
        forms = case.get("path_forms") or {}
        env["dependencies"] = {"paths": [{"name": n, "path": path_text(n, forms.get(n, "abs"), base, cwd)}
                                         for n in case["paths"]]}
    doc = OrderedDict()
    doc["description"] = {"name": "c09 study", "description": "generated"}
    if env:
        doc["env"] = env
    if case.get("shell"):
        doc["batch"] = {"type": "local", "shell": case["shell"]}
    doc["study"] = [OrderedDict([("name", st["name"]), ("description", st["description"]),
                                 ("run", OrderedDict(st["run"]))]) for st in case["steps"]]
    yaml_params = OrderedDict()
    for p in case.get("params", []):
        yaml_params[p["key"]] = OrderedDict([("values", list(p["values"])), ("label", p["label"])])
    if yaml_params and not needs_pgen(case):
        doc["global.parameters"] = yaml_params
    return doc


def needs_pgen(case):
    if case.get("pgen_ops") or case.get("ptoken"):
        return True
    return any(isinstance(p["label"], list) or p.get("name") for p in case.get("params", []))


def _plain(o):
    if isinstance(o, OrderedDict):
        return {k: _plain(v) for k, v in o.items()}
    if isinstance(o, dict):
        return {k: _plain(v) for k, v in o.items()}
    if isinstance(o, list):
        return [_plain(v) for v in o]
    return o


def retoken(o, keys, src, dst):
    """Rewrite the parameter tokens src(KEY) / src(KEY.label) / src(KEY.name) of
    the given keys to dst(...), in every string of a value."""
    if not keys:
        return o
    pat = re.compile(re.escape(src) + r"\((" + "|".join(re.escape(k) for k in keys) + r")(?=[.)])")
    return _map_strings(o, lambda x: pat.sub(lambda m: dst + "(" + m.group(1), x))


def set_ptoken(case, tok):
    """The study written for a ParameterGenerator whose parameter token is
    `tok`: EVERY parameter token of the texts (steps, labels, variables) is
    written with it.  The model keeps "$": its input is the same study with the
    tokens written back (a sound reduction: renaming the token character of
    exactly the parameter tokens commutes with substitution as long as no
    other text of the study spells a parameter token in either form)."""
    keys = [p["key"] for p in case["params"]]
    if not keys:
        return
    case["ptoken"] = tok
    for st in case["steps"]:
        st["description"] = retoken(st["description"], keys, "$", tok)
        for k_ in list(st["run"]):
            v_ = st["run"][k_]
            if k_ not in ("cmd", "restart", "pre", "post", "depends") and isinstance(v_, str) \
                    and retoken(v_, keys, "$", tok) != v_:
                # the schema admits only "$(NAME)" in resource keys: no parameter token there
                st["run"][k_] = {"walltime": "00:10:00", "reservation": "debug"}.get(k_, 1)
        st["run"] = retoken(st["run"], keys, "$", tok)
    # environment values keep "$": whether a value is a label depends on the "$"
    # in it, so they do not refer to parameters in these cases
    case["labels"] = retoken(case["labels"], keys, "$", "lit")
    case["variables"] = retoken(case["variables"], keys, "$", "lit")


def build_pgen(case):
    """The ParameterGenerator of a case that is built through the API.  With
    "pgen_ops" it is built in several steps -- [add, key, values, label, name]
    (stale first versions that are overridden later, keys added late) with
    reads in between ([read, kind]) -- and ends as the table case["params"]."""
    from maestrowf.datastructures.core import ParameterGenerator
    parameters = ParameterGenerator(token=case["ptoken"]) if case.get("ptoken") else ParameterGenerator()
    ops = case.get("pgen_ops")
    if not ops:
        for p in case["params"]:
            parameters.add_parameter(p["key"], list(p["values"]), p["label"], p.get("name"))
        return parameters
    for op in ops:
        if op[0] == "add":
            parameters.add_parameter(op[1], list(op[2]), op[3], op[4])
        elif op[1] == "iter":
            for combo in parameters:
                str(combo)
        elif op[1] == "combinations":
            list(parameters.get_combinations())
        elif op[1] == "metadata":
            parameters.get_metadata()
        elif op[1] == "length":
            _ = parameters.length, bool(parameters), dict(parameters.labels), dict(parameters.names)
        elif op[1] == "first":
            next(iter(parameters), None)
    return parameters


def run_impl(case, tag, hash_ws=False):
    """Returns (model_input dict | None, observable).  observable = "Raised" or
    the list of instance dicts.  model_input is None when the study could not
    even be constructed (then the case is outside the model's domain)."""
    import yaml
    from maestrowf.specification.yamlspecification import YAMLSpecification
    from maestrowf.datastructures.core import Study, ParameterGenerator
    from maestrowf.datastructures.environment import Variable

    root = os.path.join(_work("run"), tag)
    shutil.rmtree(root, ignore_errors=True)
    specroot = _work("specroot")
    text = yaml.dump(_plain(spec_dict(case)), sort_keys=False, allow_unicode=True, width=10 ** 6)
    spec = YAMLSpecification.load_specification_from_stream(io.StringIO(text))
    environment = spec.get_study_environment()
    steps = spec.get_study_steps()
    api = bool(case.get("api"))
    if not api:
        # maestro.py's run_study; with "api" the Study is built from the
        # specification's own environment only (library use: no variable is
        # guaranteed to exist, the environment may hold dependencies only)
        environment.remove("OUTPUT_PATH")
        environment.add(Variable("OUTPUT_PATH", root))
        environment.add(Variable("SPECROOT", os.path.abspath(specroot)))
    if needs_pgen(case):
        parameters = build_pgen(case)
    else:
        parameters = spec.get_parameters()

    # ---- the model's input, taken from the specification side only ----------
    env_ops = []
    doc_env = spec.environment
    for k, v in (doc_env.get("variables") or {}).items():
        env_ops.append(["var", k, str(v), isinstance(v, str)])
    for k, v in (doc_env.get("labels") or {}).items():
        env_ops.append(["var", k, str(v), isinstance(v, str)])
    for p in ((doc_env.get("dependencies") or {}).get("paths") or []):
        env_ops.append(["dep", p["name"], os.path.abspath(p["path"])])
    if not api:
        env_ops.append(["rm", "OUTPUT_PATH"])
        env_ops.append(["var", "OUTPUT_PATH", root, True])
        env_ops.append(["var", "SPECROOT", os.path.abspath(specroot), True])
    m_params = []
    for p in case.get("params", []):
        lab = p["label"]
        m_params.append({"key": p["key"], "name": p.get("name") or "",
                         "values": [str(v) for v in p["values"]],
                         "label": [str(x) for x in lab] if isinstance(lab, list) else (lab or "")})
    import copy
    m_steps = [{"name": st._name, "description": st.description, "run": copy.deepcopy(st.run)} for st in steps]
    batch = {"type": "local"}
    if spec.batch:
        batch = dict(spec.batch)
        batch.setdefault("type", "local")
    if case.get("ptoken"):
        # the model's token is "$": write the parameter tokens back
        keys = [p["key"] for p in case["params"]]
        m_steps = retoken(m_steps, keys, case["ptoken"], "$")
        env_ops = [[retoken(x, keys, case["ptoken"], "$") if isinstance(x, str) else x for x in op] for op in env_ops]
    model = {"root": root, "shell": batch.get("shell", "/bin/bash"), "env": env_ops,
             "params": m_params, "steps": m_steps, "order": None}

    try:
        study = Study(spec.name, spec.description, studyenv=environment,
                      parameters=parameters, steps=steps, out_path=root)
    except Exception as e:
        # add_step applies the environment: a substitution that raises is the
        # observable "Raised"; the order comes from an environment-free build
        from maestrowf.datastructures.core import StudyEnvironment
        bare = Study(spec.name, spec.description, studyenv=StudyEnvironment(),
                     parameters=parameters, steps=spec.get_study_steps(), out_path=root)
        names = [st["name"] for st in m_steps]
        model["order"] = [names.index(n) for n in bare.topological_sort() if n != SOURCE]
        model["exc"] = "Study(): %s: %s" % (type(e).__name__, str(e)[:200])
        return model, "Raised"
    study.setup_workspace()
    study.configure_study(throttle=0, submission_attempts=1, restart_limit=1,
                          use_tmp=False, hash_ws=hash_ws, dry_run=True)
    study.setup_environment()
    names = [st["name"] for st in m_steps]
    model["order"] = [names.index(n) for n in study.topological_sort() if n != SOURCE]
    try:
        _, dag = study.stage()
        dag.set_adapter(batch)
        dag.generate_scripts()
        obs = []
        model["_ws"] = {}
        for name, rec in dag.values.items():
            if name == SOURCE:
                continue
            model["_ws"][name] = rec.workspace.value
            with open(rec.script, encoding="utf-8") as f:
                script = f.read()
            rscript = None
            if rec.restart_script:
                with open(rec.restart_script, encoding="utf-8") as f:
                    rscript = f.read()
            obs.append({"name": name, "description": rec.step.description,
                        "run": copy.deepcopy(rec.step.run), "script": script, "rscript": rscript})
        if case.get("ptoken"):
            # the renaming back, on the result: what is left of tok(KEY.xxx) (an
            # undefined suffix is not substituted) reads $(KEY.xxx) in the model
            obs = retoken(obs, [p["key"] for p in case["params"]], case["ptoken"], "$")
    except Exception as e:  # any staging failure is the observable "Raised"
        obs = "Raised"
        model["exc"] = "%s: %s" % (type(e).__name__, str(e)[:200])
    finally:
        shutil.rmtree(root, ignore_errors=True)
    return model, obs


def _map_strings(o, f):
    if isinstance(o, str):
        return f(o)
    if isinstance(o, list):
        return [_map_strings(x, f) for x in o]
    if isinstance(o, dict):
        return type(o)((k, _map_strings(v, f)) for k, v in o.items())
    return o


def erase_digests(obs, ws_hashed, ws_plain):
    """Canonicalisation of a hash_ws=True run: the directory recorded on the
    staged graph for instance X (record.workspace.value, root/step/<md5 of the
    combination string>) is renamed, everywhere in the observable, to the
    directory the hash_ws=False run records for the SAME instance X.  A path
    that is no instance's workspace is not renamed -- a reference that does not
    resolve to exactly the recorded workspace of an instance stays visible."""
    if not isinstance(obs, list):
        return obs
    pairs = sorted(((h, ws_plain[n]) for n, h in ws_hashed.items() if n in ws_plain and h != ws_plain[n]),
                   key=lambda hp: -len(hp[0]))

    def f(x):
        for h, pl in pairs:
            x = x.replace(h, pl)
        return x
    return [_map_strings(i, f) for i in obs]


def observe(case, tag):
    """Never lets an exception of the implementation escape."""
    try:
        if case.get("hash_ws"):
            # the model has no digest: stage once without hashing (for the
            # instance -> directory map) and once with, erase the digests
            model, obs0 = run_impl(case, tag)
            model1, obs1 = run_impl(case, tag, hash_ws=True)
            if model is None or model1 is None:
                return model1 if model is not None else model, obs1
            if isinstance(obs0, list) != isinstance(obs1, list):
                model["exc"] = "hash_ws changes whether staging raises"
                return model, ("Raised" if isinstance(obs0, list) else [])
            return model, erase_digests(obs1, model1.get("_ws", {}), model.get("_ws", {}))
        return run_impl(case, tag)
    except Exception as e:
        return None, "EXC:%s:%s" % (type(e).__name__, str(e)[:300])


# ----------------------------------------------------------------------------
# Generators
# ----------------------------------------------------------------------------
VAR_NAMES = ["BASE", "VAR1", "OUT_DIR", "N_PROCS", "WALL", "CODE", "X"]
LABEL_NAMES = ["LBL1", "RUN_DIR", "TAG"]
DEP_NAMES = ["DEP1", "INPUTS"]
PARAM_KEYS = ["P", "SIZE", "SIZEX", "ITER", "TRIAL", "P2"]
STEP_NAMES = ["setup", "run-sim", "post.proc", "collect", "s1", "make", "verify_all", "s1x"]
# legal step names with characters of the WSREGEX class that make_safe_path deletes
ODD_NAMES = ["run:sim", "post+proc", "a,b", "k=v", "x~1", "s!", "pct%", "c^2", "a&b", "p|q", "{grp}", "[idx]",
             "semi;", "<in>", "q?", "b`t", "v1.0:rc+2", "n=1,m=2"]
# ... and with characters outside the class (known finding K4c)
UNSCANNED_NAMES = ["run sim", "it's", "at@h", "n#1", "my step 2"]


def _dir_guess(name):
    """Generator-side only (keeps two steps from sharing a directory, which is
    C10's K1): the expected directories come from the SafePath model in Coq."""
    return "".join(ch for ch in name if ch.isascii() and (ch.isalnum() or ch in "-_.() ")).replace(" ", "_")
WORDS = ["echo", "hello", "-n", "4", "out.dat", "./a.out", "--flag", "x=1", "done", "|", "tee", "log.txt",
         "&&", "sleep", "1", "'q'", "#c", "a,b", "[x]", "{y}", "100%", "~/bin", "@host", "a\\b"]
NONASCII = ["héllo", "日本", "→", "naïve", "✓ok"]
SHELLISH = ["$(date +%s)", "$(echo hi)", "$HOME", "${USER}", "$((1 + 2))", "$?", "$1", "$$", "$(ls | wc -l)",
            "$( pwd )", "`date`"]
UNDEFINED = ["$(UNDEF)", "$(NOPE.label)", "$(OUTPUT)", "$(workspace)", "$(WORK SPACE)"]


def _value(rng, kind=None):
    kind = kind or rng.choice(["int", "float", "str", "str", "bool", "word"])
    if kind == "int":
        return rng.choice([0, 1, 2, 7, 10, 128, -3])
    if kind == "float":
        return rng.choice([0.5, 1.0, 2.25, 1e-05, 3.14159, -0.75, 1e+20])
    if kind == "bool":
        return rng.choice([True, False])
    if kind == "word":
        return rng.choice(["a", "b", "abc", "x1", "v_2", "A.B", "k-9", "big value", "café"])
    return rng.choice(["alpha", "beta", "gamma", "1", "2", "x y", "m.n", "z-1", "UP", "lo_w"])


ENV_SHAPES = [(v, l, d) for v in (False, True) for l in (False, True) for d in (False, True)]


def gen_case(rng, exotic=None, shape=None, api=False):
    """A structured, mostly valid specification.  `exotic` names a deviation.
    `shape` = (variables?, labels?, dependencies?) fixes which kinds of
    environment objects exist (every subset, the empty one included) and puts a
    token of every defined kind into cmd AND restart; `api` builds the Study
    from the specification's environment alone (no OUTPUT_PATH / SPECROOT)."""
    case = {"stream": "valid" if not exotic else "exotic:" + exotic}
    if api:
        case["api"] = True
    if shape is not None:
        case["shape"] = "".join(c for c, on in zip("VLD", shape) if on) or "empty"
    # ---- environment --------------------------------------------------------
    nvar = rng.choice([0, 1, 2, 2, 3, 4])
    if shape is not None:
        nvar = rng.choice([1, 2, 3]) if shape[0] else 0
    variables = OrderedDict()
    vnames = rng.sample(VAR_NAMES, nvar)
    plain_vars = []
    for k, n in enumerate(vnames):
        if k > 0 and plain_vars and rng.random() < 0.25:
            # a variable that references an earlier one: classified as a label by add()
            variables[n] = "$(%s)/%s" % (rng.choice(plain_vars), rng.choice(["sub", "d1", "x y"]))
        else:
            v = rng.choice(["/usr/local/bin", "data", "4", "00:10:00", "my code", "v1.2", "résumé",
                            "a/b/c", 3, 16, 2.5, "x",
                            # backslash sequences: a value is data, never a regex template
                            "a\\nb", "t\\tab", "C:\\\\dir", "\\1st", "pre\\g<0>post", "x\\"])
            variables[n] = v
            plain_vars.append(n)
    if rng.random() < 0.3 and (shape is None or shape[0]):
        variables["OUTPUT_PATH"] = rng.choice(["./out", "/ignored/by/harness"])
        # position matters for the label classification: shuffle it in
        items = list(variables.items())
        rng.shuffle(items)
        # keep every referencing variable after at least one plain variable
        items.sort(key=lambda kv: 1 if (isinstance(kv[1], str) and "$" in kv[1]) else 0)
        variables = OrderedDict(items)
    case["variables"] = variables
    paths = rng.sample(DEP_NAMES, rng.choice([0, 0, 1, 2]))
    if shape is not None:
        paths = rng.sample(DEP_NAMES, rng.choice([1, 2])) if shape[2] else []
    case["paths"] = paths
    # how each path is written: half of them not absolute-and-normalised
    case["path_forms"] = {n: (rng.choice(PATH_FORMS[1:]) if rng.random() < 0.6 else "abs") for n in paths}
    # parameters
    npar = rng.choice([0, 1, 1, 2, 2, 3, 4])
    if shape is not None and shape[1] and not shape[0] and npar == 0:
        npar = 1          # labels need something to refer to
    nrow = rng.choice([1, 2, 2, 3, 3, 4, 5])
    pkeys = rng.sample(PARAM_KEYS, npar)
    params = []
    for k in pkeys:
        kind = rng.choice(["int", "float", "str", "bool", "word"])
        vals = [_value(rng, kind) for _ in range(nrow)]
        if rng.random() < 0.3 and nrow > 1:
            vals[rng.randrange(nrow)] = vals[0]      # repeated value
        lab = rng.choice(["%s.%%%%" % k, "%s.%%%%" % k, "%%", "%s_%%%%" % k.lower(), "v%%x", "L%%.%%"])
        p = {"key": k, "values": vals, "label": lab}
        r = rng.random()
        if r < 0.2:
            p["label"] = ["%s%d" % (k.lower(), i) for i in range(nrow)]   # explicit label list (pgen route)
        elif r < 0.3:
            p["name"] = rng.choice(["The %s" % k, k.lower(), "n-%s" % k])
        params.append(p)
    case["params"] = params
    labels = OrderedDict()
    nlab = rng.choice([0, 1, 1, 2])
    if shape is not None:
        nlab = rng.choice([1, 2]) if shape[1] else 0
    if plain_vars or pkeys or paths:
        for n in rng.sample(LABEL_NAMES, nlab):
            refs = []
            for _ in range(rng.choice([1, 1, 2])):
                c = rng.random()
                if shape is not None and not plain_vars and pkeys:
                    c = 0.6       # no variable: a "label" is registered as a substitution and
                    #               runs after the dependencies, so it refers to parameters
                if c < 0.45 and plain_vars:
                    refs.append("$(%s)" % rng.choice(plain_vars))
                elif c < 0.8 and pkeys:
                    refs.append(rng.choice(["$(%s)", "$(%s.label)", "$(%s.name)"]) % rng.choice(pkeys))
                elif paths:
                    refs.append("$(%s)" % rng.choice(paths))
            if not refs:
                continue
            labels[n] = rng.choice(["", "run_", "/tmp/"]) + rng.choice(["/", "_", "-", ".", ""]).join(refs) + \
                rng.choice(["", "/x", ".d"])
    if not variables and labels and shape is None:
        # without a registered substitution add() never classifies a label: keep
        # the documented reading (labels reference variables) by adding one
        variables["BASE"] = "data"
        case["variables"] = variables
    case["labels"] = labels
    label_names = list(labels) + [n for n, v in variables.items() if isinstance(v, str) and "$" in v]
    env_tokens = ["$(%s)" % n for n in list(variables) + list(labels) + paths if n != "OUTPUT_PATH"] + \
        ["$(OUTPUT_PATH)", "$(SPECROOT)"]
    # ---- steps ---------------------------------------------------------------
    nstep = rng.choice([1, 2, 2, 3, 3, 4, 5, 6])
    snames = []
    pool = rng.sample(STEP_NAMES, len(STEP_NAMES))
    if rng.random() < 0.3:
        # names that make_safe_path rewrites, mixed in at the front
        pool = rng.sample(ODD_NAMES, rng.choice([1, 2, 3])) + pool
        rng.shuffle(pool)
    for n in pool:
        if len(snames) == nstep:
            break
        if any(n.startswith(o + "_") or o.startswith(n + "_") for o in snames):
            continue
        if not _dir_guess(n) or any(_dir_guess(n) == _dir_guess(o) for o in snames):
            continue
        snames.append(n)
    steps = []
    ancestors = {}
    for k, name in enumerate(snames):
        deps = []
        anc = set()
        hubs = set()
        if k > 0:
            for p in rng.sample(snames[:k], rng.choice([0, 1, 1, 2]) if k > 1 else rng.choice([0, 1, 1])):
                funnel = rng.random() < 0.35
                deps.append(p + (rng.choice(["_*", "_*", "*"]) if funnel else ""))
                anc |= {p} | ancestors[p]
                if funnel:
                    hubs.add(p)
        ancestors[name] = anc

        def token(allow_ws=True):
            c = rng.random()
            if c < 0.30 and pkeys:
                return rng.choice(["$(%s)", "$(%s)", "$(%s.label)", "$(%s.name)"]) % rng.choice(pkeys)
            if c < 0.55:
                return rng.choice(env_tokens)
            if c < 0.65:
                return "$(WORKSPACE)"
            if c < 0.72:
                return rng.choice(UNDEFINED + (["$(%s.value)" % rng.choice(pkeys)] if pkeys else []))
            if c < 0.82:
                return rng.choice(SHELLISH)
            if c < 0.88:
                return rng.choice(NONASCII)
            if c < 0.93 and plain_vars:
                return "$(echo $(%s))" % rng.choice(plain_vars)          # nested brackets
            return rng.choice(WORDS)

        def ws_word():
            p = rng.choice(sorted(anc))
            return rng.choice(["", "", "--in=", "cd ", "x:"]) + "$(%s.workspace)" % p + \
                rng.choice(["", "/out.dat", "/$(WORKSPACE)" if False else "/sub/f.txt", "/.", ";"])

        def text(nw=None):
            words = []
            for _ in range(nw or rng.choice([1, 2, 3, 4, 5, 6])):
                c = rng.random()
                if c < 0.18 and anc:
                    words.append(ws_word())
                elif c < 0.30:
                    # adjacent tokens / glued material (no workspace token inside)
                    words.append(rng.choice(["", "pre_", "-D"]) + token() + rng.choice(["", "/", "_", "."]) + token())
                elif c < 0.65:
                    words.append(token())
                else:
                    words.append(rng.choice(WORDS))
            return rng.choice([" ", " ", " ", "\n", "  "]).join(words)

        run = OrderedDict()
        run["cmd"] = text()
        if deps:
            run["depends"] = deps
        if rng.random() < 0.3:
            run["restart"] = text()
        for key in ("nodes", "procs", "gpus", "cores per task"):
            if rng.random() < 0.25:
                c = rng.random()
                if c < 0.4:
                    run[key] = rng.choice([1, 2, 4])
                elif c < 0.7 and pkeys:
                    run[key] = "$(%s)" % rng.choice(pkeys)
                elif variables:
                    run[key] = "$(%s)" % rng.choice([n for n in variables if n != "OUTPUT_PATH"] or ["UNDEF"])
                else:
                    run[key] = 1
        if rng.random() < 0.3:
            run["walltime"] = rng.choice(["00:10:00", "$(WALL)", "00:$(ITER):00", 30, "$(%s)" % (pkeys[0] if pkeys else "W")])
        if rng.random() < 0.15:
            run["reservation"] = rng.choice(["debug", "$(VAR1)", "r_$(TRIAL)"])
        if rng.random() < 0.1:
            run["exclusive"] = rng.choice([True, False])
        if rng.random() < 0.1:
            run["pre"] = text(2)
        if rng.random() < 0.1:
            run["post"] = text(2)
        desc = rng.choice(["step %s" % name, "does things", "uses $(%s)" % (rng.choice(pkeys) if pkeys else "NOTHING"),
                           "with $(%s)" % (rng.choice(vnames) if vnames else "BASE"), "décrit"])
        steps.append({"name": name, "description": desc, "run": run})
    if shape is not None:
        # a token of every defined kind in cmd and in restart
        kinds = ["$(%s)" % n for n in list(variables)[:1] + list(labels)[:1] + paths[:1] if n != "OUTPUT_PATH"]
        kinds += ["$(%s)" % n for n in list(variables)[1:2] + paths[1:2] if n != "OUTPUT_PATH"]
        if pkeys:
            kinds.append("$(%s.label)" % pkeys[0])
        for st in [steps[0]] + ([rng.choice(steps)] if len(steps) > 1 else []):
            st["run"]["cmd"] += " " + rng.choice([" ", "/", ":"]).join(kinds + ["$(WORKSPACE)"]) if kinds else " $(WORKSPACE)"
            st["run"]["restart"] = (st["run"].get("restart", "") + " redo " + " ".join(reversed(kinds)) + " $(UNDEF)").strip()
    case["steps"] = steps
    if rng.random() < 0.1:
        case["shell"] = rng.choice(["/bin/sh", "/bin/tcsh", "/usr/bin/env bash"])
    if exotic:
        apply_exotic(rng, case, exotic, ancestors)
    return case


EXOTICS = ["value_token", "value_workspace", "value_param", "label_chain", "junction", "adjacent_ws",
           "param_before_ws", "unknown_ws", "source_ws", "first_var_token", "ws_in_field", "empty_value",
           "dollar_glue"]


def apply_exotic(rng, case, kind, ancestors):
    steps = case["steps"]
    st = rng.choice(steps)
    params = case["params"]
    if kind in ("value_token", "value_workspace", "value_param", "empty_value", "junction", "dollar_glue") and not params:
        params.append({"key": "P", "values": ["a", "b"], "label": ["l1", "l2"]})
    if kind == "value_token":
        # K4b: a parameter value that is itself the text of an environment token
        case["variables"].setdefault("VAR1", "data")
        p = rng.choice(params)
        p["values"][0] = "$(VAR1)"
        if not isinstance(p["label"], list):
            p["label"] = ["l%d" % i for i in range(len(p["values"]))]
        st["run"]["cmd"] += " $(%s)" % p["key"]
    elif kind == "value_workspace":
        p = rng.choice(params)
        p["values"][-1] = "in $(WORKSPACE)"
        if not isinstance(p["label"], list):
            p["label"] = ["l%d" % i for i in range(len(p["values"]))]
        st["run"]["cmd"] += " $(%s)" % p["key"]
    elif kind == "value_param":
        if len(params) < 2:
            params.append({"key": "Q9", "values": ["q"] * len(params[0]["values"]), "label": "Q9.%%"})
        a, b = params[0], params[1]
        a["values"][0] = "$(%s)" % b["key"]
        b["values"][0] = "$(%s.label)" % a["key"]
        for p in (a, b):
            if not isinstance(p["label"], list):
                p["label"] = ["%s%d" % (p["key"].lower(), i) for i in range(len(p["values"]))]
        st["run"]["cmd"] += " $(%s) $(%s)" % (a["key"], b["key"])
    elif kind == "label_chain":
        case["variables"].setdefault("BASE", "data")
        case["labels"]["LA"] = "$(BASE)/a"
        case["labels"]["LB"] = "$(LA)/b"
        case["labels"]["LC"] = "$(BASE)/$(LD)"
        case["labels"]["LD"] = "$(BASE)/d"
        st["run"]["cmd"] += " $(LB) $(LC) $(LD)"
    elif kind == "junction":
        p = params[0]
        k = p["key"]
        p["values"][0] = rng.choice(["", ")", "(%s)" % k, "%s)" % k])
        if not isinstance(p["label"], list):
            p["label"] = ["l%d" % i for i in range(len(p["values"]))]
        st["run"]["cmd"] += rng.choice([" $(%s$(%s))" % (k, k), " $$(%s)" % k, " $(%s.la$(%s)bel)" % (k, k), " $($(%s)" % k])
    elif kind == "dollar_glue":
        k = params[0]["key"]
        st["run"]["cmd"] += rng.choice([" $$(%s)" % k, " $($(%s))" % k, " $(%s)$(%s))" % (k, k), " ($(%s)" % k])
    elif kind == "adjacent_ws":
        # K4a: two workspace tokens in one run of WSREGEX class characters
        if len(steps) < 2:
            steps.insert(0, {"name": "first", "description": "d", "run": OrderedDict(cmd="echo 1")})
            ancestors["first"] = set()
        tgt = steps[-1]
        pars = [s["name"] for s in steps[:-1]]
        deps = list(tgt["run"].get("depends", []))
        for p in pars[:2]:
            if p not in [d.replace("_*", "").replace("*", "") for d in deps]:
                deps.append(p)
        tgt["run"]["depends"] = deps
        a = pars[0]
        b = pars[1] if len(pars) > 1 else pars[0]
        tgt["run"]["cmd"] += " " + rng.choice(["$(%s.workspace)/$(%s.workspace)", "$(%s.workspace):$(%s.workspace)",
                                               "cp $(%s.workspace)/f,$(%s.workspace)/g"]) % (a, b)
    elif kind == "param_before_ws":
        if not params:
            params.append({"key": "P", "values": [1, 2], "label": "P.%%"})
        if len(steps) < 2:
            steps.insert(0, {"name": "first", "description": "d", "run": OrderedDict(cmd="echo 1")})
        tgt = steps[-1]
        a = steps[0]["name"]
        deps = list(tgt["run"].get("depends", []))
        if a not in [d.replace("_*", "").replace("*", "") for d in deps]:
            deps.append(a)
        tgt["run"]["depends"] = deps
        tgt["run"]["cmd"] += " $(%s)/$(%s.workspace)" % (params[0]["key"], a)
    elif kind == "unknown_ws":
        st["run"]["cmd"] += " $(nosuch.workspace)/x"
    elif kind == "source_ws":
        st["run"]["cmd"] += " $(_source.workspace)/x"
    elif kind == "first_var_token":
        v = OrderedDict()
        v["FIRST"] = "$(SECOND)/z"
        v["SECOND"] = "two"
        v.update(case["variables"])
        case["variables"] = v
        st["run"]["cmd"] += " $(FIRST)"
    elif kind == "ws_in_field":
        st["run"]["walltime"] = "$(WORKSPACE)"
        st["description"] = "in $(WORKSPACE)"
    elif kind == "empty_value":
        p = params[0]
        p["values"][0] = ""
        p["label"] = ["e%d" % i for i in range(len(p["values"]))]
        st["run"]["cmd"] += " [$(%s)]" % p["key"]


def core_cases(rng, n):
    """Small-scope check of the core law against Python's own str.replace:
    a table, a text, and the result of sequential replacement in several orders."""
    out = []
    names = ["A", "B", "AB", "A.label", "x"]
    frags = ["$(", ")", "$", "(", "A", "B", ".label", "$(A)", "$(B)", "$(AB)", "$(A.label)", "$(x)", " ", "z", "$(U)"]
    vals = ["", "1", "v w", ")", "(", "$", "$(", "A", "B)", "$(B)", "$(A)", "(A)", "A)", "x", ".label", "é"]
    for _ in range(n):
        k = rng.choice([1, 2, 2, 3])
        T = [("$(%s)" % nm, rng.choice(vals)) for nm in rng.sample(names, k)]
        x = "".join(rng.choice(frags) for _ in range(rng.choice([1, 2, 3, 4, 5, 6, 8])))
        runs = []
        perms = list(itertools.permutations(T))
        rng.shuffle(perms)
        for perm in perms[:4]:
            y = x
            for t, v in perm:
                y = y.replace(t, v)
            runs.append((list(perm), y))
        # once with a repeated entry
        dup = list(T) + [T[0]]
        y = x
        for t, v in dup:
            y = y.replace(t, v)
        runs.append((dup, y))
        out.append((T, x, runs))
    return out


def g_core(c):
    T, x, runs = c
    return "(%s, %s, %s)" % (g_table(T), g_str(x), g_list(["(%s, %s)" % (g_table(l), g_str(y)) for l, y in runs]))


def scan_run(ck, rng, n, dist):
    """re.findall(WSREGEX, text) of the real module against `ws_findall`, on
    texts over an alphabet of regex-relevant fragments (ASCII: the model reads
    \\w as [A-Za-z0-9_], DESIGN section 8)."""
    frags = ["$(", "a", "b-1", ".workspace)", ".workspace", ")", "(", "/", " ", ".", "$", "x.y", "workspace",
             "$(a.workspace)", "$(b-1.workspace)", "_", ":", "'", "#", "\n", "$(P)", "$(WORKSPACE)", ",", "*", "w"]
    texts = [""]
    for k in (1, 2):
        texts += ["".join(c) for c in itertools.product(frags[:14], repeat=k)]
    if ck.tier == "thorough":
        texts += ["".join(c) for c in itertools.product(frags[:9], repeat=3)]
    for _ in range(n):
        texts.append("".join(rng.choice(frags) for _ in range(rng.choice([3, 4, 5, 6, 8, 10]))))
    try:
        from maestrowf.datastructures.core.study import WSREGEX
        found = [[m if isinstance(m, str) else "TUPLE:" + "|".join(m) for m in re.findall(WSREGEX, x)] for x in texts]
        # evidence only: the scanner ws_findall was written against this text; a
        # different but equivalent regex is judged by the comparison below
        ck.notes["wsregex_text_unchanged"] = (
            getattr(WSREGEX, "pattern", None) ==
            r"\$\(([-!\$%\^&\*\(\)_\+\|~=`{}\[\]:;<>\?,\.\/\w]+)\.workspace\)")
    except Exception as e:
        ck.mismatch("WSREGEX could not be evaluated: %s: %s" % (type(e).__name__, e), None)
        return
    lits = ["(%s, %s)" % (g_str(x), g_list([g_str(m) for m in f])) for x, f in zip(texts, found)]
    bad, errs = coq_failing("C09scan", SCAN_HEADER, "str * list str", "scan_chk", lits, shard=400, timeout=900)
    dist["wsregex_scan_cases"] += len(texts)
    dist["wsregex_scan_with_match"] += sum(1 for f in found if f)
    ck.count("scan", nontrivial=False, n=len(texts))
    for i in bad[:5]:
        ck.mismatch("ws_findall (model of re.findall(WSREGEX, .)) disagrees with the implementation's regex",
                    {"text": texts[i], "python": found[i]})
    for e in errs:
        ck.mismatch("coqc failed on scan cases file", None, e[1])


def _nested_value(rng, toks, depth):
    c = rng.random()
    if depth <= 0 or c < 0.35:
        k = rng.random()
        if k < 0.6:
            return " ".join(rng.choice(toks + WORDS[:6]) for _ in range(rng.choice([1, 1, 2, 3])))
        return rng.choice(["", 0, 1, 7, 2.5, 0.0, True, False, None, (1, "$(P)"), "x"])
    if c < 0.7:
        return [_nested_value(rng, toks, depth - 1) for _ in range(rng.choice([0, 1, 2, 3]))]
    return dict((rng.choice(["k", "cmd", "$(P)", "n"]) + str(i), _nested_value(rng, toks, depth - 1))
                for i in range(rng.choice([0, 1, 2, 3])))


def nested_one(rows, v):
    """(literal, v, out, rows) or an error text."""
    import copy
    try:
        from maestrowf.utils import apply_function
        from maestrowf.datastructures.core.parameters import Combination
        combo = Combination()
        for k, nm, val, lab in rows:
            combo.add(k, nm or k, val, lab)
        out = apply_function(copy.deepcopy(v), combo.apply)
    except Exception as e:
        return "%s: %s" % (type(e).__name__, str(e)[:200])
    ps = g_list(["P_ %s %s %s (LList [%s])" % (g_str(k), g_str(nm), g_list([g_str(str(val))]), g_str(lab))
                 for k, nm, val, lab in rows])
    return ("(%s, %s, %s)" % (ps, g_pyval(v), g_pyval(out)), v, out, [list(r) for r in rows])


def nested_run(ck, rng, n, dist):
    """utils.apply_function with the real Combination.apply on nested lists /
    dicts (C09_recursion): result, skeleton and visited strings."""
    import copy
    cases = []
    try:
        from maestrowf.utils import apply_function
        from maestrowf.datastructures.core.parameters import Combination
    except Exception as e:
        ck.mismatch("apply_function / Combination could not be imported: %r" % (e,), None)
        return
    for _ in range(n):
        keys = rng.sample(["P", "SIZE", "SIZEX", "IT"], rng.choice([1, 2, 3]))
        rows = [(k, rng.choice(["", "nm " + k]), rng.choice([1, 2.5, "v w", "é", True]), rng.choice(["%s.1" % k, "L"])) for k in keys]
        toks = [f % k for k in keys for f in ("$(%s)", "$(%s.label)", "$(%s.name)")] + ["$(U)", "$(date)", "$"]
        v = _nested_value(rng, toks, rng.choice([1, 2, 3, 4]))
        one = nested_one(rows, v)
        if isinstance(one, str):
            ck.mismatch("apply_function raised " + one, {"stream": "nested", "apply_function_input": repr(v)})
            continue
        cases.append(one)
        dist["nested_depth:%d" % _depth(v)] += 1
    bad, errs = coq_failing("C09nest", NESTED_HEADER, "list param * pyval * pyval", "nested_chk",
                                   [c[0] for c in cases], shard=400, timeout=900)
    ck.count("nested", nontrivial=False, n=len(cases))
    if bad:
        bad2, e2 = coq_failing("C09nestm", NESTED_HEADER, "list param * pyval * pyval", "nested_mon",
                                      [cases[i][0] for i in bad], shard=400, timeout=900)
        errs = errs + e2
        monbad = {bad[j] for j in bad2}
        for i in bad[:8]:
            cj = {"stream": "nested", "apply_function_input": repr(cases[i][1]), "table": repr(cases[i][3]),
                  "apply_function_output": repr(cases[i][2])}
            if i in monbad:
                ck.violation("utils.apply_function does not map exactly the strings of a nested value "
                             "(C09_recursion is false on the implementation's result)", cj)
            else:
                ck.mismatch("apply_function (model) disagrees with utils.apply_function", cj)
    for e in errs:
        ck.mismatch("coqc failed on nested cases file", None, e[1])


def _depth(v):
    if isinstance(v, list):
        return 1 + max([_depth(x) for x in v] or [0])
    if isinstance(v, dict):
        return 1 + max([_depth(x) for x in v.values()] or [0])
    return 0


LAUNCHER = os.path.join(common.VERIF, "harness", "e2e_launcher.py")


def gen_cli_case(rng, k):
    """A generated study that the YAML route can express, with OUTPUT_PATH and
    SPECROOT used directly in cmd / restart and through a variable and a label
    whose values mention them; run through the literal command line."""
    for _ in range(50):
        c = gen_case(rng)
        if not needs_pgen(c):
            break
    else:
        c["params"] = []
    c["stream"] = "cli"
    c["cli"] = {"out": k % 3 != 2, "spec_output_path": k % 2 == 0}
    v = OrderedDict()
    v["BASE0"] = "data"                       # a plain variable first: what follows with "$" is a label
    for n, val in c["variables"].items():
        if n != "OUTPUT_PATH":
            v[n] = val
    if c["cli"]["spec_output_path"]:
        v["OUTPUT_PATH"] = "./outs"
    v["RESULTS"] = "$(OUTPUT_PATH)/results"   # variable whose value mentions OUTPUT_PATH (-> label)
    c["variables"] = v
    c["labels"]["INDIR"] = "$(SPECROOT)/inputs/$(BASE0)"
    if not c["paths"]:
        c["paths"] = ["DEP1"]
    c["path_forms"] = {n: PATH_FORMS[(k + j) % len(PATH_FORMS)] for j, n in enumerate(c["paths"])}
    st = rng.choice(c["steps"])
    deps = " ".join("$(%s)/deck" % n for n in c["paths"])
    st["run"]["cmd"] += " --out=$(OUTPUT_PATH)/a.txt --in $(SPECROOT)/b.txt $(RESULTS) $(INDIR) " + deps
    st["run"]["restart"] = (st["run"].get("restart", "") + " resume $(RESULTS)/r $(OUTPUT_PATH):$(SPECROOT) $(INDIR) " + deps).strip()
    return c


def cli_one(case, tag):
    """(model, observable) of `maestro run -y -fg --dry [-o OUT] spec.yaml` in a
    sub-process; the scripts are the ones found on the pickled graph of the
    output directory.  The model is the one of the in-process build with
    OUTPUT_PATH |-> the actual output directory and SPECROOT |-> the spec's
    directory (what run_study is documented to add)."""
    import copy
    import subprocess
    import yaml
    base = os.path.join(_work("cli"), tag)
    shutil.rmtree(base, ignore_errors=True)
    specdir = os.path.join(base, "spec")
    cwd = os.path.join(base, "cwd")
    os.makedirs(specdir)
    os.makedirs(cwd)
    try:
        # the model: the in-process build with absolute paths; the dependency
        # entries then get abspath(text as written) at the sub-process' cwd
        model, _ = run_impl(dict(case, path_forms={}), "cli-" + tag)
        if model is None or model.get("order") is None:
            return None, "EXC:model"
        depbase = os.path.join(specdir, "deps")
        doc = spec_dict(case, base=depbase, cwd=cwd)
        written = {p_["name"]: p_["path"] for p_ in ((doc.get("env") or {}).get("dependencies") or {}).get("paths", [])}
        for op in model["env"]:
            if op[0] == "dep" and op[1] in written:
                op[2] = os.path.normpath(os.path.join(cwd, written[op[1]]))
        text = yaml.dump(_plain(doc), sort_keys=False, allow_unicode=True, width=10 ** 6)
        spec_path = os.path.join(specdir, "spec.yaml")
        with open(spec_path, "w", encoding="utf-8") as f:
            f.write(text)
        argv = ["/venv/bin/python", LAUNCHER, "maestro", "run", "-y", "-fg", "--dry"]
        out = None
        if case["cli"]["out"]:
            out = os.path.join(base, "OUT dir")
            argv += ["-o", out]
        argv.append(spec_path)
        env = dict(os.environ, PYTHONPATH=common.REPO + os.pathsep + common.VERIF, E2E_MAX_POLLS="200")
        p = subprocess.run(argv, cwd=cwd, env=env, stdout=subprocess.PIPE, stderr=subprocess.STDOUT,
                           timeout=300, text=True, errors="replace")
        if out is None:
            # the timestamped default directory: below the spec's OUTPUT_PATH
            # (relative to the cwd) or the cwd itself
            parent = os.path.join(cwd, "outs") if case["cli"]["spec_output_path"] else cwd
            found = [d for d in (os.listdir(parent) if os.path.isdir(parent) else [])
                     if d.startswith("c09_study_") and os.path.isdir(os.path.join(parent, d))]
            if len(found) != 1:
                return model, "EXC:no unique output directory (rc %s): %s" % (p.returncode, p.stdout[-300:])
            out = os.path.join(parent, found[0])
        pk = [f for f in (os.listdir(out) if os.path.isdir(out) else [])
              if f.endswith(".pkl") and not f.endswith(".study.pkl")]
        old_root = model["root"]
        model["root"] = out
        for op in model["env"]:
            if op[0] == "var" and op[1] == "OUTPUT_PATH" and op[2] == old_root:
                op[2] = out
            if op[0] == "var" and op[1] == "SPECROOT":
                op[2] = specdir
        if not pk:
            if p.returncode != 0:
                model["exc"] = "maestro run exited %s: %s" % (p.returncode, p.stdout[-300:])
                return model, "Raised"
            return model, "EXC:no graph pickle: " + p.stdout[-300:]
        from maestrowf.datastructures.core import ExecutionGraph
        dag = ExecutionGraph.unpickle(os.path.join(out, pk[0]))
        obs = []
        for name, rec in dag.values.items():
            if name == SOURCE:
                continue
            with open(rec.script, encoding="utf-8") as f:
                script = f.read()
            rscript = None
            if rec.restart_script:
                with open(rec.restart_script, encoding="utf-8") as f:
                    rscript = f.read()
            obs.append({"name": name, "description": rec.step.description,
                        "run": copy.deepcopy(rec.step.run), "script": script, "rscript": rscript})
        return model, obs
    except Exception as e:
        return None, "EXC:%s:%s" % (type(e).__name__, str(e)[:300])
    finally:
        shutil.rmtree(base, ignore_errors=True)


def cli_rows(ck, cases, tag):
    from concurrent.futures import ThreadPoolExecutor
    with ThreadPoolExecutor(max_workers=common.NCPU) as ex:
        res = list(ex.map(lambda kc: cli_one(kc[1], "%s%d" % (tag, kc[0])), enumerate(cases)))
    return [{"case": c, "model": m, "obs": o} for c, (m, o) in zip(cases, res)]


# ----------------------------------------------------------------------------
# Decoding Coq's answer (debug output for replay files)
# ----------------------------------------------------------------------------
def decode_coq(text):
    def rep(m):
        nums = re.findall(r"(\d+)%N", m.group(0))
        try:
            return json.dumps("".join(chr(int(n)) for n in nums), ensure_ascii=False)
        except ValueError:
            return m.group(0)
    text = re.sub(r"\[\s*\d+%N(?:\s*;\s*\d+%N)*\s*\]", rep, text)
    return re.sub(r"\s+", " ", text)


def model_text(model, mode="Model"):
    out = common.coq_eval("C09dbg", HEADER, "stage %s (%s)" % (mode, g_case(model)), timeout=300)
    return decode_coq(out)[:6000]


# ----------------------------------------------------------------------------
# run / replay
# ----------------------------------------------------------------------------
def load_corpus():
    res = []
    for p in sorted(glob.glob(os.path.join(common.CORPUS, PID, "*.json"))):
        try:
            d = json.load(open(p))
        except (OSError, ValueError):
            continue
        c = d.get("case", d)
        c["_file"] = os.path.relpath(p, common.VERIF)
        c.setdefault("stream", "corpus")
        res.append(c)
    return res


def add_pgen_ops(rng, case):
    """Build the (final) parameter table of the case through an API sequence."""
    params = case["params"]
    if not params:
        return
    reads = ["iter", "combinations", "metadata", "length", "first"]
    nrow = len(params[0]["values"])
    ops, late, stale = [], [], []
    for k, p in enumerate(params):
        final = ["add", p["key"], list(p["values"]), p["label"], p.get("name")]
        c = rng.random()
        if c < 0.4:
            # a first version that is overridden after the generator was read
            vals = [rng.choice(["old", 0, "stale v", 99]) for _ in range(nrow)]
            lab = ["old%d" % i for i in range(nrow)] if rng.random() < 0.4 else "%s_old.%%%%" % p["key"]
            ops.append(["add", p["key"], vals, lab, rng.choice([None, "old name"])])
            stale.append(final)
        elif c < 0.8 and k > 0:
            late.append(final)          # the key itself arrives late (order of keys = order of first add)
            continue
        else:
            ops.append(final)
        if rng.random() < 0.7:
            ops.append(["read", rng.choice(reads)])
    # the order of first insertion decides the dict order: late keys go last
    order = [o[1] for o in ops if o[0] == "add"] + [o[1] for o in late]
    case["params"] = sorted(params, key=lambda p: order.index(p["key"]))
    ops.append(["read", rng.choice(reads)])
    tail = stale + late
    rng.shuffle(tail)
    # keep late keys in their relative order (it is the dict order)
    lk = [o for o in tail if o in late]
    it = iter(sorted(lk, key=lambda o: order.index(o[1])))
    tail = [next(it) if o in late else o for o in tail]
    for o in tail:
        ops.append(o)
        if rng.random() < 0.5:
            ops.append(["read", rng.choice(reads)])
    case["pgen_ops"] = ops
    case["seq"] = "override" if stale else ("late" if late else "plain")


def add_odd_funnel(rng, case, names=None):
    """A parent whose NAME make_safe_path rewrites, funnelled into an
    un-parameterised and a parameterised consumer that refer to its workspace
    in cmd and restart, plus an ordinary (same-combination) consumer."""
    params, steps = case["params"], case["steps"]
    if not params:
        params.append({"key": "P", "values": [1, 2], "label": "P.%%"})
    k1 = params[0]["key"]
    taken = [s["name"] for s in steps]
    cand = [n for n in (names or ODD_NAMES)
            if n not in taken and _dir_guess(n) and all(_dir_guess(n) != _dir_guess(o) for o in taken)
            and not any(n.startswith(o + "_") or o.startswith(n + "_") for o in taken)]
    par = rng.choice(cand)
    parameterised = rng.random() < 0.8
    steps.append({"name": par, "description": "oddly named parent",
                  "run": OrderedDict([("cmd", "sim %s > $(WORKSPACE)/o" % ("$(%s)" % k1 if parameterised else "1"))])})
    tok = "$(%s.workspace)" % par
    steps.append({"name": "gather-all", "description": "un-parameterised funnel consumer",
                  "run": OrderedDict([("cmd", "ls %s %s/sub" % (tok, tok)), ("depends", [par + rng.choice(["_*", "*"])]),
                                      ("restart", "ls -l %s" % tok)])})
    steps.append({"name": "contrast", "description": "parameterised funnel consumer",
                  "run": OrderedDict([("cmd", "cmp $(%s) %s" % (k1, tok)), ("depends", [par + "_*"]),
                                      ("restart", "cmp -r $(%s.label) %s/x" % (k1, tok))])})
    steps.append({"name": "follow.on", "description": "ordinary consumer",
                  "run": OrderedDict([("cmd", "cat %s/o" % tok), ("depends", [par]),
                                      ("restart", "cat %s/o # again" % tok)])})
    case["odd_funnel"] = par


def add_superset_child(rng, case):
    """A child that uses strictly more parameters than its ordinary,
    parameterised parent and refers to the parent's workspace in cmd and
    restart (the shape on which hashed workspaces of parent and child differ)."""
    params, steps = case["params"], case["steps"]
    while len(params) < 2:
        k = [x for x in PARAM_KEYS if x not in [p["key"] for p in params]][0]
        n = len(params[0]["values"]) if params else 3
        params.append({"key": k, "values": [rng.choice(["a", "b", 1, 2, 0.5]) for _ in range(n)], "label": "%s.%%%%" % k})
    if len(params[0]["values"]) < 2:
        for p in params:
            p["values"] = list(p["values"]) + [rng.choice(["z", 7])]
            if isinstance(p["label"], list):
                p["label"] = list(p["label"]) + ["%s_last" % p["key"].lower()]
    k1, k2 = params[0]["key"], params[1]["key"]
    parent = steps[0]
    parent["run"]["cmd"] += " --p=$(%s)" % k1
    child = {"name": "child-x", "description": "superset child",
             "run": OrderedDict([("cmd", "cat $(%s.workspace)/out $(%s) > $(WORKSPACE)/o" % (parent["name"], k2)),
                                 ("depends", [parent["name"]]),
                                 ("restart", "cp $(%s.workspace)/out . # $(%s.label)" % (parent["name"], k2))])}
    steps.append(child)


def generate(rng, n_valid, n_exotic):
    # a third of the valid stream walks through every shape of environment
    # (only variables / labels / dependencies, every mix, empty), half of those
    # built the library way (no OUTPUT_PATH / SPECROOT variable)
    cases = []
    for k in range(n_valid):
        if k % 3 == 0:
            j = k // 3
            cases.append(gen_case(rng, shape=ENV_SHAPES[j % 8], api=(j // 8) % 2 == 0))
        else:
            c = gen_case(rng)
            if k % 6 == 1:
                add_pgen_ops(rng, c)                  # "API sequence" stream
                if k % 12 == 1:
                    set_ptoken(c, ["@", "P", "%%", "#"][(k // 12) % 4])   # non-default parameter token
            elif k % 6 == 2:
                if k % 12 == 2:
                    add_superset_child(rng, c)
                c["hash_ws"] = True                   # hashed workspaces
            elif k % 6 == 4:
                add_odd_funnel(rng, c)                # funnel on a name make_safe_path rewrites
            cases.append(c)
    for k in range(n_exotic):
        cases.append(gen_case(rng, exotic=EXOTICS[k % len(EXOTICS)]))
    for k in range(max(2, n_exotic // 13)):
        # names with a character outside the WSREGEX class (K4c)
        c = gen_case(rng)
        c["stream"] = "exotic:unscanned_name"
        add_odd_funnel(rng, c, names=UNSCANNED_NAMES)
        cases.append(c)
    return cases


def evaluate(ck, cases, tag, shard):
    """Run implementation + in-Coq model/monitor.  Returns list of per-case
    dicts {case, model, obs, flags...}."""
    rows = []
    for k, c in enumerate(cases):
        if c.get("cli"):
            continue
        model, obs = observe(c, "%s-%d" % (tag, k))
        rows.append({"case": c, "model": model, "obs": obs})
    rows += cli_rows(ck, [c for c in cases if c.get("cli")], tag + "c")
    ok_rows = [r for r in rows if r["model"] is not None and r["model"]["order"] is not None
               and not (isinstance(r["obs"], str) and r["obs"].startswith("EXC:"))]
    lits = ["(%s, %s)" % (g_case(r["model"]), g_obs(r["obs"])) for r in ok_rows]
    # one pass: correspondence && monitor && hygiene; the flagged cases are then
    # looked at conjunct by conjunct
    flagged, errs = coq_failing("C09" + tag, HEADER, "case * outcome", "chk_all", lits, shard=shard, timeout=1500)
    for r in ok_rows:
        r["bad"], r["hyg"] = False, True
    frows = [ok_rows[i] for i in flagged]
    errs2 = []
    if frows:
        flits = [lits[i] for i in flagged]
        keys = ("chk", "chk_hyg", "chk_valid", "chk_corr", "chk_mon", "chk_notK4a", "chk_notK4c")
        from concurrent.futures import ThreadPoolExecutor
        with ThreadPoolExecutor(max_workers=len(keys)) as ex:
            res = list(ex.map(lambda key: coq_failing("C09d_%s%s" % (key, tag), HEADER, "case * outcome", key,
                                                             flits, shard=max(8, shard // 2), timeout=1500), keys))
        for key, (f, e) in zip(keys, res):
            errs2 = errs2 + e
            for r in frows:
                r[key] = True
            for i in f:
                frows[i][key] = False
        for r in frows:
            r["bad"] = not r["chk"]
            r["hyg"] = r["chk_hyg"]
    return rows, errs + errs2


def _case_json(c):
    return {k: v for k, v in c.items() if not k.startswith("_")}


def drift(ck, dist, kind, cj):
    """Model and implementation disagree on an input OUTSIDE the hygiene
    hypothesis (where neither the theorems nor the model's claim apply, e.g.
    the result depends on dict iteration order): evidence only, no alarm."""
    dist["drift_outside_hypothesis:" + kind] += 1
    ck.notes.setdefault("drift_outside_hypothesis", [])
    if len(ck.notes["drift_outside_hypothesis"]) < 5:
        ck.notes["drift_outside_hypothesis"].append({"kind": kind, "case": cj})


def classify(ck, rows, errs, dist):
    known_ids = {k.get("id") for k in ck.known}
    for r in rows:
        c = r["case"]
        stream = c.get("stream", "?")
        dist["stream:" + stream.split(":")[0]] += 1
        if r["model"] is None or (isinstance(r["obs"], str) and r["obs"].startswith("EXC:")):
            # the study could not be constructed by run_study's own steps
            dist["construct_failed"] += 1
            if stream in ("valid", "cli"):
                ck.mismatch("%s-stream case could not be run: %s" % (stream, r["obs"]), _case_json(c))
            ck.count(json.dumps(_case_json(c), sort_keys=True, default=str), nontrivial=False)
            continue
        obs = r["obs"]
        ninst = 0 if obs == "Raised" else len(obs)
        dist["instances:%s" % ("raised" if obs == "Raised" else min(ninst, 12))] += 1
        dist["hyg:%s" % r.get("hyg")] += 1
        dist["hyg:%s:%s" % (stream.split(":")[0], r.get("hyg"))] += 1
        for n_, f_ in (c.get("path_forms") or {}).items():
            dist["dep_path:%s:%s" % ("cli" if c.get("cli") else "api", f_)] += 1
        if c.get("ptoken"):
            dist["parameter_token:" + c["ptoken"]] += 1
        if c.get("odd_funnel"):
            dist["odd_name_funnel:%s" % ("unscanned" if c["odd_funnel"] in UNSCANNED_NAMES else "rewritten")] += 1
        if any(st["name"] in ODD_NAMES for st in c["steps"]):
            dist["uses:step_name_rewritten_by_make_safe_path"] += 1
        if c.get("cli"):
            dist["cli:%s:%s" % ("-o" if c["cli"]["out"] else "default_dir",
                                "spec_has_OUTPUT_PATH" if c["cli"]["spec_output_path"] else "no_OUTPUT_PATH")] += 1
        if c.get("pgen_ops"):
            dist["pgen_sequence:" + c.get("seq", "?")] += 1
        if c.get("hash_ws"):
            dist["hash_ws:%s" % ("superset_child" if any(s["name"] == "child-x" for s in c["steps"]) else "random")] += 1
        if c.get("shape"):
            dist["env_shape:%s:%s" % (c["shape"], "api" if c.get("api") else "cli")] += 1
        blob = json.dumps([st["run"] for st in c["steps"]], default=str)
        for kind, pat in (("param_value", r"\$\((?:%s)\)" % "|".join(PARAM_KEYS)), ("param_label", r"\.label\)"),
                          ("param_name", r"\.name\)"), ("step_workspace", r"\.workspace\)"),
                          ("own_workspace", r"\$\(WORKSPACE\)"), ("funnel_dep", r"\*"),
                          ("env_token", r"\$\((?:%s|OUTPUT_PATH|SPECROOT)\)" % "|".join(VAR_NAMES + LABEL_NAMES + DEP_NAMES)),
                          ("shell_subst", r"\$\((?:date|echo|ls|\s)"), ("restart", r'"restart": "[^"]')):
            if re.search(pat, blob):
                dist["uses:" + kind] += 1
        nontrivial = obs != "Raised" and any("$(" in json.dumps(st["run"], default=str) for st in c["steps"])
        ck.count(json.dumps(_case_json(c), sort_keys=True, default=str), nontrivial=nontrivial)
        ck.cov["traces_validated_against_impl"] += 1
        ck.sample({"case": _case_json(c), "observable": obs if obs == "Raised" else obs[:2]})
        if not r.get("bad"):
            continue
        cj = _case_json(c)
        if not r.get("chk_valid", True):
            ck.mismatch("generated case is outside the model's validity domain (generator defect)", cj)
            continue
        if not r.get("chk_mon", True):
            if not r.get("chk_notK4a", True) and "K4a" in known_ids:
                ck.known_hit("K4a", "adjacent workspace tokens are scanned as one workspace name by WSREGEX; "
                                    "staging raises instead of substituting (stream %s)" % stream)
                dist["known:K4a"] += 1
                if not r.get("chk_corr", True):
                    drift(ck, dist, "K4a", cj)
                continue
            if not r.get("chk_notK4c", True) and "K4c" in known_ids:
                ck.known_hit("K4c", "the workspace token of a step whose name has a character outside the WSREGEX "
                                    "class (blank, quote, @, #) is never recognised and survives in the scripts")
                dist["known:K4c"] += 1
                if not r.get("chk_corr", True):
                    drift(ck, dist, "K4c", cj)
                continue
            if not r.get("hyg", True) and "K4b" in known_ids:
                ck.known_hit("K4b", "token text that arises from substituted values (inside a value or at a "
                                    "junction) is substituted again by a later replace or survives (stream %s)" % stream)
                dist["known:K4b"] += 1
                if not r.get("chk_corr", True):
                    drift(ck, dist, "K4b", cj)
                continue
            ck.violation("C09_ok is false on the implementation's texts (no listed known-finding signature)", cj)
            continue
        if not r.get("chk_corr", True) and not r.get("hyg", True):
            drift(ck, dist, "non-hygienic", cj)
        elif not r.get("chk_corr", True):
            ck.mismatch("model and implementation disagree", cj,
                        "model: " + model_text(r["model"]) + "\nimpl: " + json.dumps(obs, default=str)[:3000])
    for e in errs:
        ck.mismatch("coqc failed on cases file " + os.path.relpath(e[0], common.WORK), None, e[1])


def core_run(ck, rng, n, dist):
    cs = core_cases(rng, n)
    bad, errs = coq_failing("C09core", CORE_HEADER, "table * str * list (table * str)", "core_chk",
                                   [g_core(c) for c in cs], shard=400, timeout=900)
    dist["core_law_cases"] += len(cs)
    ck.count("core", nontrivial=False, n=len(cs))
    for i in bad:
        T, x, runs = cs[i]
        ck.mismatch("PyStr.replace / seq / sim disagree with Python's str.replace",
                    {"table": T, "text": x, "python": runs})
    for e in errs:
        ck.mismatch("coqc failed on core cases file", None, e[1])


def run(ck):
    import time
    t0 = time.time()
    marks = {}
    ck.build_proofs(extra_targets=["theories/Expand/SubstGenProofs.vo"])
    marks["build_proofs_s"] = round(time.time() - t0, 1)
    rng = random.Random(ck.seed * 7919 + 9)
    quick = ck.tier != "thorough"
    n_valid, n_exotic, n_core = (140, 39, 400) if quick else (2600, 520, 6000)
    dist = Counter()
    corpus = load_corpus()
    cases = corpus + generate(rng, n_valid, n_exotic)
    rng_cli = random.Random(ck.seed * 104729 + 17)
    cases += [gen_cli_case(rng_cli, k) for k in range(12 if quick else 200)]
    rows, errs = evaluate(ck, cases, "", shard=(12 if quick else 100))
    marks["stage_stream_s"] = round(time.time() - t0, 1)
    classify(ck, rows, errs, dist)
    marks["classify_s"] = round(time.time() - t0, 1)
    core_run(ck, rng, n_core, dist)
    scan_run(ck, rng, 300 if quick else 4000, dist)
    nested_run(ck, rng, 200 if quick else 3000, dist)
    marks["small_streams_s"] = round(time.time() - t0, 1)
    ck.notes["cumulative_wall"] = marks
    # known-finding witnesses must be present in the corpus
    for kn in ck.known:
        w = kn.get("witness", "")
        if w and not os.path.exists(os.path.join(common.VERIF, w)):
            ck.mismatch("known-finding witness missing: " + w, None)
    ck.cov["rule"] = ("specifications generated in the documented domain (variables, labels referencing variables and "
                      "parameters, path dependencies, 0-4 parameters x 1-5 rows of int/float/str/bool with custom "
                      "labels, label lists and names, 1-6 steps with ordinary and _* dependencies, tokens in cmd / "
                      "restart / resource keys / description, adjacent and undefined tokens, $(shell), $VAR, ${VAR}, "
                      "nested brackets, workspace references to ordinary and funnel ancestors, non-ASCII data) plus "
                      "parameter tables built through an API sequence (add_parameter with overrides and late keys, reads "
                      "in between; the model gets the FINAL table), hash_ws=True studies (the model has no digest: the "
                      "directory recorded on the staged graph for an instance, record.workspace.value, is renamed to the "
                      "one the hash_ws=False run records for the same instance -- implementation to implementation for "
                      "the directory names -- then C09_ok is evaluated as usual; a reference that is not exactly a "
                      "recorded workspace stays un-renamed and fails), "
                      "the parameter token is the default \"$\": the T-code tie (translate/tcode_subst.py) reads "
                      "ParameterGenerator.get_combinations' `Combination(self.token)` as `Combination()` under the "
                      "hypothesis pg_token = \"$\"; generators with a non-default parameter token are compared through "
                      "T-corr only: a share of the API-built cases uses the parameter token @ / P / %%%% / #, every "
                      "parameter token of the study written with it, and the model gets the same study with those tokens "
                      "written back to $ (a sound reduction: no other text spells a parameter token in either form), "
                      "step names with characters make_safe_path deletes (: + , = ~ ! %% ^ & | { } [ ] ; < > ? `), as "
                      "ordinary and funnel parents referenced through $(<step>.workspace) in cmd and restart by "
                      "un-parameterised and parameterised consumers -- the expected directory is the model's msp, i.e. "
                      "SafePath.sanitize with the alphabet regenerated from utils.py; names with a character outside the "
                      "WSREGEX class (blank, quote, @, #) form the exotic stream of known finding K4c; non-ASCII step "
                      "names are not generated inside workspace tokens (the model reads \\w as ASCII), "
                      "path dependencies written as absolute / relative / ./-prefixed / ..-containing / trailing-slash / "
                      "doubled-slash texts of existing directories (the model's table maps $(NAME) to "
                      "os.path.abspath(text) at the cwd of the loading process, which is what the unchanged tree does at "
                      "PathDependency construction; Study built in run_study's order environment -> add steps -> "
                      "setup_environment -> stage), "
                      "a CLI stream (generated studies using $(OUTPUT_PATH) / $(SPECROOT) directly and through a variable "
                      "and a label, written as YAML and run through the literal `maestro run -y -fg --dry [-o OUT]` in a "
                      "sub-process; scripts read back from the pickled graph of the output directory, judged by the same "
                      "C09_ok against the model with OUTPUT_PATH |-> the actual output directory, SPECROOT |-> the spec's "
                      "directory), "
                      "an exotic stream (%s) and a small-scope stream for the core law against Python's own "
                      "str.replace; a case is distinct by its JSON, non-trivial when it stages and carries tokens" %
                      ", ".join(EXOTICS))
    ck.cov["input_distribution"] = dict(sorted(dist.items()))

    def search():
        rng2 = random.Random(ck.seed + 424243)
        for rnd in range(3):
            more = generate(rng2, 300, 0)
            rows2, _ = evaluate(ck, more, "s%d" % rnd, shard=40)
            for r in rows2:
                if r.get("bad") and r.get("chk_valid", True) and not r.get("chk_mon", True) \
                        and r.get("chk_notK4a", True) and r.get("chk_notK4c", True) and r.get("hyg", True):
                    return ("C09_ok is false on the implementation's texts (found by search)", _case_json(r["case"]))
        return None

    return ck.finish(search=search)


def replay(ck, path):
    d = json.load(open(path))
    c = d.get("case", d)
    if isinstance(c, dict) and c.get("stream") == "nested":
        import ast
        one = nested_one([tuple(r) for r in ast.literal_eval(c["table"])], ast.literal_eval(c["apply_function_input"]))
        print("case:", json.dumps(c, default=str, ensure_ascii=False))
        if isinstance(one, str):
            print("implementation raised:", one)
            print("VIOLATION property=C09 replay=%s" % path)
            return 1
        print("implementation:", repr(one[2]))
        res = {}
        for key in ("nested_chk", "nested_mon"):
            f, e = coq_failing("C09replay", NESTED_HEADER, "list param * pyval * pyval", key, [one[0]])
            res[key] = (not f) and not e
        print("verdict:", res)
        if res["nested_chk"]:
            print("OK")
            return 0
        print("VIOLATION property=C09 replay=%s" % path)
        return 1
    if not isinstance(c, dict) or "steps" not in c:
        print("replay file holds no specification case:", json.dumps(d, default=str)[:2000])
        return 1
    model, obs = cli_one(c, "replay") if c.get("cli") else observe(c, "replay")
    print("case:", json.dumps(_case_json(c), default=str, ensure_ascii=False))
    print("implementation:", json.dumps(obs, default=str, ensure_ascii=False)[:8000])
    if model is None or model.get("order") is None:
        print("verdict: the study could not be constructed")
        return 1
    print("model:", model_text(model))
    print("spec:", model_text(model, "Spec"))
    lit = ["(%s, %s)" % (g_case(model), g_obs(obs))]
    res = {}
    for key in ("chk", "chk_valid", "chk_corr", "chk_mon", "chk_hyg", "chk_notK4a", "chk_notK4c"):
        f, e = coq_failing("C09replay", HEADER, "case * outcome", key, lit)
        res[key] = (not f) and not e
    print("verdict:", res)
    if res["chk"]:
        print("OK")
        return 0
    if not res["chk_mon"] and (not res["chk_notK4a"] or not res["chk_notK4c"] or not res["chk_hyg"]):
        print("KNOWN-FINDING: property=C09 %s" % ("K4a" if not res["chk_notK4a"] else
                                                   "K4c" if not res["chk_notK4c"] else "K4b"))
        return 0 if res["chk_corr"] else 1
    print("VIOLATION property=C09 replay=%s" % path)
    return 1

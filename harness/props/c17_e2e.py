"""C17 end-to-end: a dry run generates everything and executes nothing --
through the real command line.

`run_e2e(ck)` (called from harness/props/c17.py) adds violations / mismatches /
counts to the Check it is given and returns nothing.

Generated studies (parameterised steps, ordinary and funnel `_*` dependencies,
restart commands, scheduled (`procs: 1`) and local steps) are run twice by
harness/e2e_launcher.py with the SCRIPTED scheduler adapter registered
(batch type `scripted`; every write_script / submit / check_jobs / cancel_jobs
call is logged, with the directory, file names and command texts written):

    maestro run --dry -fg -y -s 7919 [--hashws] [--usetmp] -t T -a A -r R -o <dir>/dry  spec.yaml
    maestro run       -fg -y -s 7919 [--hashws] [--usetmp] -t T -a A -r R -o <dir>/real spec.yaml

over the option matrix {--hashws} x {--usetmp} x throttle {0,1,2} x attempts {1,2,3}.
Every step command appends a line to a marker file, so an executed step is
seen on the file system.  Clauses (each one a VIOLATION when the dry run's own
observables break it):
  (a) the dry run logs NO submit, NO check_jobs (and no cancel_jobs) call, and the
      marker file stays absent;
  (b) it exits 0 within (instances + 1) polls and every row of the final
      status.csv -- and of the final snapshot -- is DRYRUN;
  (c) for every instance the dry run's write_script call equals the FIRST
      write_script call of the real run for that instance: directory relative
      to the output root / temp root (masked), script and restart-script file
      names, command and restart texts, scheduled flag; without --usetmp also
      the *.sh files on disk (relative path + bytes, roots masked);
  (d) the directory tree below the study output path (every step instance's
      workspace, their parent directories, meta/, logs/) of the dry run equals
      the real run's -- for {--usetmp} x {--hashws} (with --usetmp the scripts
      go to the temp directory, the workspaces must exist all the same) -- and
      every directory and every *.sh file present in both carries the same
      permission bits (stat.S_IMODE): a script is as executable after a dry run
      as after a real run.
Inside Coq (ExecCases.both_ok 17, cfg dry = true): the Exec model's trace (EGen
events per poll, rows, status) = the dry run's, and monitor family 17 silent.
"""
import glob
import json
import os
import random
import shutil
from collections import Counter

from harness import common
from harness import e2e
from harness import exec_harness as H

QUICK_N, THOROUGH_N = 24, 320
MATRIX = [(h, u, t, a) for h in (False, True) for u in (False, True) for t in (0, 1, 2) for a in (1, 2, 3)]


def gen_dry_study(rng, i):
    shape = [None, "chain", "funnel", "diamond", "layered", "fanout"][i % 6]
    case = e2e.gen_local_study(rng, shape=shape, scenario="allok")
    if not case["params"] and rng.random() < 0.8:              # most studies parameterised
        case["params"] = [{"key": "P", "values": rng.sample([1, 2, 3, "lo", "hi"], rng.randint(1, 3))}]
        for st in case["steps"]:
            if rng.random() < 0.5:
                st["use"] = ["P"]
            st["deps"] = [dd + ("_*" if not dd.endswith("_*") and rng.random() < 0.3 else "") for dd in st["deps"]]
    for st in case["steps"]:
        st["scheduled"] = rng.random() < 0.5
        st["restart"] = rng.random() < 0.45
    h, u, t, a = MATRIX[(i * 7) % len(MATRIX)]
    case.update({"hashws": h, "usetmp": u, "throttle": t, "attempts": a, "rlimit": rng.choice([0, 1, 2]),
                 "kind": "dry", "ospell": e2e.pick_ospell(rng)})
    # confirmation flags x launch path: on the unchanged tree --dry implies "launch" whatever -y / -n say
    conf, det = [(c, dd) for c in ("-y", "", "-n") for dd in (False, True)][(i + i // 6) % 6]
    case.update({"conf": conf, "detached": det})
    return case


def spec_text(case, d):
    import yaml
    ran = os.path.join(d, "ran.log")
    study = []
    for st in case["steps"]:
        uses = "".join(" %s=$(%s)" % (k, k) for k in st["use"])
        run = {"cmd": "echo \"RAN %s%s `pwd`\" >> %s\necho out-%s > $(WORKSPACE)/result.txt\n" % (st["name"], uses, ran, st["name"])}
        if st["scheduled"]:
            run["procs"] = 1
        if st["deps"]:
            run["depends"] = list(st["deps"])
        if st["restart"]:
            run["restart"] = "echo \"RESTART %s%s\" >> %s\n" % (st["name"], uses, ran)
        study.append({"name": st["name"], "description": "step %s" % st["name"], "run": run})
    spec = {"description": {"name": e2e.STUDY, "description": "generated study for the dry-run check"},
            "batch": {"type": "scripted", "host": "h", "bank": "b", "queue": "q"}, "study": study}
    if case["params"]:
        spec["global.parameters"] = {p["key"]: {"values": list(p["values"]), "label": "%s.%%%%" % p["key"]}
                                     for p in case["params"]}
    return yaml.safe_dump(spec, default_flow_style=False, sort_keys=False)


def run_pair(job):
    case, d = job
    shutil.rmtree(d, ignore_errors=True)
    os.makedirs(d)
    with open(os.path.join(d, "spec.yaml"), "w") as f:
        f.write(spec_text(case, d))
    res = {}
    for which in ("dry", "real"):
        out = os.path.join(d, which)
        alog = os.path.join(d, which + ".adapter.log")
        with open(os.path.join(d, which + ".script.json"), "w") as f:
            json.dump({"log": alog, "default": "FINISHED"}, f)
        env = {"E2E_MARK_LOG": os.path.join(d, which + ".marks.log"), # run_study drives the sleeptime of a dry run down to 1, whatever -s says
               "E2E_POLL_SLEEP": "1" if which == "dry" else str(e2e.POLL_SLEEP),
               "E2E_STUDY_DIR": out, "E2E_SNAP_DIR": os.path.join(d, which + ".snap"),
               "E2E_MAX_POLLS": "60", "E2E_SCRIPTED": os.path.join(d, which + ".script.json")}
        conf = case.get("conf", "-y") if which == "dry" else "-y"
        argv = ["run"] + (["--dry"] if which == "dry" else []) + \
               ["-fg"] + ([conf] if conf else []) + ["-s", e2e.POLL_SLEEP, "--attempts", case["attempts"], "--rlimit", case["rlimit"],
                "--throttle", case["throttle"]]
        oarg, sarg, cwd = e2e.spell_out(case, d, sub=which)      # -o / spec possibly relative, cwd accordingly
        argv += ["-o", oarg]
        if case["hashws"]:
            argv.append("--hashws")
        if case["usetmp"]:
            argv.append("--usetmp")
        argv.append(sarg)
        if which == "real":
            try:
                os.rename(os.path.join(d, "ran.log"), os.path.join(d, "ran.dry.log"))   # what the DRY run executed
            except OSError:
                pass
        if which == "dry" and case.get("detached"):
            # the DETACHED path: `maestro run --dry -y` (no -fg) stores the study and starts
            # `nohup conductor ...` -- here a stub found first on PATH -- and the real conductor entry
            # point is then run on the stored study in a sub-process of its own
            bind = os.path.join(d, "bin")
            os.makedirs(bind, exist_ok=True)
            with open(os.path.join(bind, "conductor"), "w") as f:
                f.write("#!/bin/sh\necho stub-conductor \"$@\" >> %s\nexit 0\n" % os.path.join(d, "stub.log"))
            os.chmod(os.path.join(bind, "conductor"), 0o755)
            argv0 = [a for a in argv if a != "-fg"]
            rc0, tail0 = e2e.launch("maestro", argv0, cwd, {"PATH": bind + os.pathsep + os.environ.get("PATH", ""),
                                                         "E2E_SCRIPTED": env["E2E_SCRIPTED"]},
                                    stdin_text="", logfile=os.path.join(d, "run.log"))
            import time
            for _ in range(50):                   # start_process does not wait for the shell it starts
                if rc0 != 0 or os.path.exists(os.path.join(d, "stub.log")):
                    break
                time.sleep(0.1)
            if rc0 != 0:
                rc, tail = rc0, "maestro run --dry -y: " + tail0
            elif not os.path.exists(os.path.join(d, "stub.log")):
                rc, tail = 98, "maestro run --dry -y did not launch a conductor: " + tail0
            else:
                rc, tail = e2e.launch("conductor", ["-t", 1, oarg], cwd, env, logfile=os.path.join(d, "run.log"))
        else:
            rc, tail = e2e.launch("maestro", argv, cwd, env, stdin_text="", logfile=os.path.join(d, "run.log"))
        res[which] = {"rc": rc, "tail": tail[-1200:]}
    return res


def read_log(path):
    try:
        return [json.loads(ln) for ln in open(path).read().split("\n") if ln]
    except Exception:
        return None


def mask(path, out):
    tmp = os.path.join(common.WORK, "tmp")
    p = os.path.realpath(path)
    if p == os.path.realpath(out) or p.startswith(os.path.realpath(out) + os.sep):
        return "<OUT>" + p[len(os.path.realpath(out)):]
    if p.startswith(os.path.realpath(tmp) + os.sep):
        rest = p[len(os.path.realpath(tmp)) + 1:].split(os.sep)
        return "<TMP>/" + "/".join(rest[1:])          # drop the mkdtemp component
    return p


def resolver(inst):
    """write_script log entry -> index of the instance it was made for.  Under --hashws the step's
    own name is the digest of its parameter combination (shared by several instances), so the
    instance is recognised by the directory: its workspace, or <tmp>/md5(instance name) with --usetmp."""
    from hashlib import md5
    by_ws = {nd["ws"]: i for i, nd in enumerate(inst)}
    by_md5 = {md5(nd["name"].encode("utf-8")).hexdigest(): i for i, nd in enumerate(inst)}

    def res(e):
        d = os.path.realpath(e["dir"])
        if d in by_ws:
            return by_ws[d]
        return by_md5.get(os.path.basename(d))
    return res


def gen_records(entries, out, inst):
    """first write_script call per instance -> comparable record"""
    first = {}
    res = resolver(inst)
    for e in entries:
        if e.get("call") != "write_script":
            continue
        x = res(e)
        key = inst[x]["name"] if x is not None else "?" + e["inst"] + "@" + e["dir"]
        if key not in first:
            first[key] = {"step_name": e["inst"], "dir": mask(e["dir"], out), "script": e["script"], "cmd": e["cmd"].replace(os.path.realpath(out), "<OUT>").replace(out, "<OUT>"),
                                "restart_script": e["restart_script"],
                                "restart": (e["restart"] or "").replace(os.path.realpath(out), "<OUT>").replace(out, "<OUT>"),
                                "scheduled": e["scheduled"]}
    return first


def disk_scripts(out):
    res = {}
    for p in glob.glob(os.path.join(out, "**", "*.sh"), recursive=True):
        try:
            res[os.path.relpath(p, out)] = open(p).read().replace(os.path.realpath(out), "<OUT>").replace(out, "<OUT>")
        except OSError:
            res[os.path.relpath(p, out)] = None
    return res


def dir_tree(out):
    """every directory below the study output path, relative (step workspaces, their parents, meta/, logs/)"""
    res = set()
    for base, dirs, _files in os.walk(out):
        for x in dirs:
            res.add(os.path.relpath(os.path.join(base, x), out))
    return res


def mode_map(out):
    """permission bits (stat.S_IMODE) of every directory and every generated *.sh below the study output path"""
    import stat
    res = {}
    for base, dirs, files in os.walk(out):
        for x in dirs + [f for f in files if f.endswith(".sh")]:
            p = os.path.join(base, x)
            try:
                res[os.path.relpath(p, out)] = stat.S_IMODE(os.lstat(p).st_mode)
            except OSError:
                res[os.path.relpath(p, out)] = None
    return res


def tree_clause(case, dry_out, real_out):
    """clause (d): the directory tree of the dry run = the real run's, and every directory and every generated
    *.sh present in both carries the same permission bits -> violation text or None"""
    td, tr = dir_tree(dry_out), dir_tree(real_out)
    flags = (" --usetmp" if case.get("usetmp") else "") + (" --hashws" if case.get("hashws") else "")
    if td != tr:
        return ("directory tree below the study output path differs%s: the real run created %d directories, the dry run %d; "
                "missing in the dry run: %r; only in the dry run: %r"
                % (flags, len(tr), len(td), sorted(tr - td)[:6], sorted(td - tr)[:6]))
    md, mr = mode_map(dry_out), mode_map(real_out)
    bad = [k for k in sorted(set(md) & set(mr)) if md[k] != mr[k]]
    if bad:
        k = bad[0]
        fmt = lambda m: "<unreadable>" if m is None else "0%o" % m                      # noqa: E731
        return ("permission bits differ%s: %s is %s after the dry run and %s after the real run (%d of %d directories / "
                "generated scripts differ, e.g. %r)" % (flags, k, fmt(md[k]), fmt(mr[k]), len(bad), len(set(md) & set(mr)), bad[:4]))
    return None


def judge(case, d, res):
    """-> (violations [str], problems [str], ecase or None, info)"""
    viol, prob = [], []
    dry_out, real_out = os.path.join(d, "dry"), os.path.join(d, "real")
    dlog = read_log(os.path.join(d, "dry.adapter.log")) or []
    rlog = read_log(os.path.join(d, "real.adapter.log"))
    info = {"polls": 0, "instances": 0}
    # (a) nothing executed
    calls = Counter(e.get("call") for e in dlog)
    for c in ("submit", "check_jobs", "cancel_jobs"):
        if calls.get(c):
            viol.append("the dry run made %d %s call(s) on the scheduler adapter" % (calls[c], c))
    ran = os.path.join(d, "ran.dry.log")
    if os.path.exists(ran):
        viol.append("the dry run executed step commands: %r" % open(ran).read()[:200])
    # (b) termination, exit code, rows
    npolls = calls.get("poll", 0) + 1
    info["polls"] = npolls
    graphs = []
    try:
        for k in range(npolls - 1):
            graphs.append(e2e.read_graph(os.path.join(d, "dry.snap", "graph.%d.pkl" % k))[0])
        graphs.append(e2e.read_graph(os.path.join(dry_out, e2e.STUDY + ".pkl"))[0])
    except Exception as e:
        if res["dry"]["rc"] == 0:
            prob.append("dry run: snapshot unreadable: %s: %s" % (type(e).__name__, str(e)[:200]))
    n = len(graphs[0]) if graphs else 0
    info["instances"] = n
    rc = res["dry"]["rc"]
    if rc == 99:
        viol.append("the dry run did not terminate (stopped by the harness after %d polls; %d instances)" % (npolls, n))
    elif rc != 0:
        viol.append("the dry run exited %r, not 0; output tail: %s" % (rc, res["dry"]["tail"][-500:]))
    elif n and npolls > n + 1:
        viol.append("the dry run needed %d polls for %d instances (bound: instances + 1)" % (npolls, n))
    if rc == 0:
        try:
            rows = e2e.parse_status(os.path.join(dry_out, "status.csv"))
            notdry = [(r[0], r[1]) for r in rows if r[1] != "DRYRUN"]
            if notdry or not rows:
                viol.append("dry run finished with status rows that are not DRYRUN: %r" % notdry[:5])
            if graphs and any(nd["state"] != "DRYRUN" for nd in graphs[-1]):
                viol.append("dry run finished with snapshot states %r" % [(nd["name"], nd["state"]) for nd in graphs[-1] if nd["state"] != "DRYRUN"][:5])
        except Exception as e:
            viol.append("dry run exited 0 but left no readable status.csv: %r" % (e,))
    # (c) same scripts as the real run
    if rlog is None or res["real"]["rc"] != 0:
        prob.append("the REAL run of the study did not finish with exit code 0 (rc=%r): %s"
                    % (res["real"]["rc"], res["real"]["tail"][-400:]))
    else:
        try:
            rinst = e2e.read_graph(os.path.join(real_out, e2e.STUDY + ".pkl"))[0]
        except Exception as e:
            rinst = []
            prob.append("real run: snapshot unreadable: %r" % (e,))
        gd, gr = gen_records(dlog, dry_out, graphs[0] if graphs else []), gen_records(rlog, real_out, rinst)
        if (rc == 0 or gd) and rinst:
            for inst in sorted(set(gd) | set(gr)):
                if inst not in gd:
                    viol.append("the dry run generated no script for %s (the real run did)" % inst)
                elif inst not in gr:
                    prob.append("the real run generated no script for %s" % inst)
                elif gd[inst] != gr[inst]:
                    f = next(k for k in gd[inst] if gd[inst][k] != gr[inst][k])
                    viol.append("script generation for %s differs between dry and real run in %s: %r vs %r"
                                % (inst, f, gd[inst][f], gr[inst][f]))
        if not case["usetmp"] and rc == 0:
            sd, sr = disk_scripts(dry_out), disk_scripts(real_out)
            if sd != sr:
                k = next(k for k in sorted(set(sd) | set(sr)) if sd.get(k) != sr.get(k))
                viol.append("script file %s: dry run %r, real run %r" % (k, (sd.get(k) or "<absent>")[:120], (sr.get(k) or "<absent>")[:120]))
        # (d) same directory tree (every step instance's workspace exists), with and without --usetmp / --hashws
        if rc == 0:
            t = tree_clause(case, dry_out, real_out)
            info["tree_dirs"] = len(dir_tree(real_out))
            if t:
                viol.append(t)
    # model trace (only a dry run that behaved like one can be written in the model's vocabulary)
    ecase = None
    if graphs and rc == 0 and not viol and len(graphs) == npolls:
        inst = graphs[0]
        res_ = resolver(inst)
        sched = {}
        for e in dlog:
            if e.get("call") == "write_script" and res_(e) is not None:
                sched.setdefault(res_(e), e["scheduled"])
        nodes = [{"parents": nd["parents"], "children": nd["children"], "scheduled": bool(sched.get(i, True)),
                  "has_restart": nd["has_restart"], "rlimit": nd["rlimit"]} for i, nd in enumerate(inst)]
        polls, cur = [], []
        for e in dlog:
            if e.get("call") == "poll":
                polls.append(cur)
                cur = []
            elif e.get("call") == "write_script":
                if res_(e) is None:
                    prob.append("write_script for unknown instance %s in %s" % (e["inst"], e["dir"]))
                else:
                    cur.append(["gen", res_(e)])
        polls.append(cur)
        if len(polls) == len(graphs) and not prob:
            ecase = {"nodes": nodes, "cfg": {"throttle": case["throttle"], "attempts": case["attempts"], "dry": True},
                     "end": "final",
                     "polls": [{"cancel": False, "q": "OK", "reports": [], "subs": [], "events": ev,
                                "rows": [[nd["state"], [], nd["restarts"]] for nd in g],
                                "status": "RUNNING" if k < len(polls) - 1 else "FINISHED"}
                               for k, (ev, g) in enumerate(zip(polls, graphs))]}
    return viol, prob, ecase, info


def slim(case):
    return {k: case.get(k) for k in ("steps", "params", "attempts", "throttle", "rlimit", "hashws", "usetmp", "shape", "detached", "conf", "ospell")}


def run_cases(ck, cases, tag="C17_e2e"):
    tag = e2e.utag(tag)
    work = os.path.join(common.WORK, tag + "_runs")
    shutil.rmtree(work, ignore_errors=True)
    jobs = [(c, os.path.join(work, "c%d" % i)) for i, c in enumerate(cases)]
    results = e2e.pmap(run_pair, jobs)
    lits, lit_cases = [], []
    dist = Counter()
    for (case, d), res in zip(jobs, results):
        try:
            viol, prob, ecase, info = judge(case, d, res)
        except Exception as e:
            viol, prob, ecase, info = [], ["harness could not interpret the runs: %r" % (e,)], None, {"polls": 0, "instances": 0}
        rec = dict(slim(case), rc_dry=res["dry"]["rc"], rc_real=res["real"]["rc"])
        if viol:
            ck.violation("C17 e2e (maestro run --dry%s%s%s%s -t %d -a %d): %s" % (
                " " + case.get("conf", "-y") if case.get("conf", "-y") else "",
                " [detached: stored, then the conductor entry point]" if case.get("detached") else " -fg",
                " --hashws" if case["hashws"] else "", " --usetmp" if case["usetmp"] else "",
                case["throttle"], case["attempts"], viol[0]), dict(rec, all=viol[:6]))
        elif prob:
            ck.mismatch("C17 e2e: " + prob[0], rec, "")
        if ecase is not None and H.representable(ecase):
            lits.append(H.g_case(ecase))
            lit_cases.append(rec)
        ck.count("c17e2e:" + json.dumps(slim(case), sort_keys=True), nontrivial=info["instances"] >= 2)
        dist["hashws=%s,usetmp=%s" % (case["hashws"], case["usetmp"])] += 1
        dist["path:" + ("detached" if case.get("detached") else "foreground")] += 1
        dist["confirm:" + (case.get("conf", "-y") or "(none)")] += 1
        dist["out_spelled:" + case.get("ospell", "abs")] += 1
        dist["throttle:%d" % case["throttle"]] += 1
        dist["attempts:%d" % case["attempts"]] += 1
        dist["instances:%02d" % min(info["instances"], 20)] += 1
        dist["polls:%02d" % min(info["polls"], 20)] += 1
        dist["params:%d" % len(case["params"])] += 1
        dist["funnel_deps"] += sum(1 for s in case["steps"] for dd in s["deps"] if dd.endswith("_*"))
        dist["restart_cmds"] += sum(1 for s in case["steps"] if s["restart"])
        dist["scheduled_steps"] += sum(1 for s in case["steps"] if s["scheduled"])
        shutil.rmtree(d, ignore_errors=True)
    shutil.rmtree(work, ignore_errors=True)
    bad, errs = common.coq_failing(tag, H.HEADER, "ecase", "both_ok 17", lits)
    for e in errs:
        ck.mismatch("coqc failed on the C17 e2e cases file", None, e[1])
    if bad:
        sub = [lits[i] for i in bad]
        b_impl, _ = common.coq_failing(tag + "_i", H.HEADER, "ecase", "impl_ok 17", sub)
        for k, i in enumerate(bad):
            if k in b_impl:
                codes = common.coq_eval(tag + "_e", H.HEADER, "impl_viol (%s)" % lits[i])
                ck.violation("C17 e2e: monitor codes on the dry run's trace: " + " ".join(codes.split())[-200:], lit_cases[i])
            else:
                mo = common.coq_eval(tag + "_e", H.HEADER, "model_obs (%s)" % lits[i])
                ck.mismatch("C17 e2e: model and dry-run observations differ", lit_cases[i], mo[-2500:])
    dist["model_compared"] = len(lits)
    e2e.sweep()
    return dict(sorted(dist.items()))


def run_e2e(ck):
    rng = random.Random(ck.seed * 7477 + 17)
    n = QUICK_N if ck.tier != "thorough" else THOROUGH_N
    from harness.props import c17_procs
    cases = c17_procs.corpus_cases("e2e") + [gen_dry_study(rng, i) for i in range(n)]      # corpus/C17/e2e/*.json first
    ck.cov["e2e_dry_runs"] = run_cases(ck, cases)
    na = API_QUICK_N if ck.tier != "thorough" else API_THOROUGH_N
    ck.cov["e2e_api"] = run_api_cases(ck, [gen_api_case(rng, i) for i in range(na)])
    ck.cov["e2e_rule"] = ("seeded studies (parameterised steps, funnels, restart commands, scheduled + local steps) through "
                          "`maestro run --dry -fg -y` and a real run of the same study under the launcher's scripted "
                          "adapter over {--hashws} x {--usetmp} x throttle 0-2 x attempts 1-3: no submit/check_jobs, no "
                          "step executed, exit 0 within instances+1 polls, all rows DRYRUN, same generated scripts; "
                          "Exec model trace (dry) = the dry run's, inside Coq")


def is_e2e_case(d):
    """does a replay / corpus object describe an end-to-end dry-run case of this module?"""
    d = d.get("case", d)
    return isinstance(d, dict) and "hashws" in d and "steps" in d


def replay_e2e(ck, d):
    """re-run one stored case (the `case` object of a replay file written for a run_e2e violation)"""
    d = d.get("case", d)
    d.setdefault("shape", "replay")
    if d.get("kind") == "api":
        dist = run_api_cases(ck, [d], tag="C17_api_replay")
    else:
        dist = run_cases(ck, [d], tag="C17_e2e_replay")
    print(json.dumps(dist))
    for w, c in ck.concrete:
        print("VIOLATION:", w, json.dumps(c.get("all", []))[:1500])
    for w, _, det in ck.corr_failures:
        print("MISMATCH:", w, det[-1500:])
    return 1 if (ck.concrete or ck.corr_failures) else 0


# ----------------------------------------------------------------------------
# API level: configure_study called MORE THAN ONCE -- the last call decides
# ----------------------------------------------------------------------------
API_QUICK_N, API_THOROUGH_N = 8, 96


def gen_api_case(rng, i):
    case = gen_dry_study(rng, i)
    flips = [("dry", False, True), ("dry", True, False), ("hashws", False, True), ("usetmp", True, False),
             ("dry", False, True), ("usetmp", False, True), ("hashws", True, False), ("dry", True, False)]
    key, a, b = flips[i % len(flips)]
    first = {"dry": rng.random() < 0.5, "hashws": rng.random() < 0.5, "usetmp": rng.random() < 0.5}
    second = dict(first)
    first[key], second[key] = a, b
    if rng.random() < 0.4:                       # toggle a second setting as well
        k2 = rng.choice([k for k in first if k != key])
        second[k2] = not first[k2]
    case.update({"kind": "api", "first": first, "second": second, "reload": i % 2 == 1,
                 "hashws": second["hashws"], "usetmp": second["usetmp"]})
    return case


def sub_api(d):
    """sub-process: the calls of maestro.run_study with configure_study made twice (optionally with a
    store / load_study in between), then the conductor loop, under the scripted adapter"""
    import harness.e2e_launcher as L          # stubs time.sleep before maestrowf is imported
    import logging
    logging.disable(logging.CRITICAL)
    case = json.load(open(os.path.join(d, "case.json")))
    L._register_scripted(os.path.join(d, "api.script.json"))
    from maestrowf.specification import YAMLSpecification
    from maestrowf.datastructures.core import Study
    from maestrowf.datastructures.environment import Variable
    from maestrowf.conductor import Conductor
    out = os.path.join(d, "api")
    res = {}
    try:
        spec = YAMLSpecification.load_specification(os.path.join(d, "spec.yaml"))
        env = spec.get_study_environment()
        env.remove("OUTPUT_PATH")
        env.add(Variable("OUTPUT_PATH", out))
        env.add(Variable("SPECROOT", d))
        study = Study(spec.name, spec.description, studyenv=env, parameters=spec.get_parameters(),
                      steps=spec.get_study_steps(), out_path=out)
        study.setup_workspace()

        def conf(c):
            study.configure_study(throttle=case["throttle"], submission_attempts=case["attempts"],
                                  restart_limit=case["rlimit"], use_tmp=c["usetmp"], hash_ws=c["hashws"], dry_run=c["dry"])
        conf(case["first"])
        study.setup_environment()
        batch = dict(spec.batch)
        if case["reload"]:
            Conductor.store_study(study)
            Conductor.store_batch(out, batch)
            study = Conductor.load_study(out)
            batch = Conductor.load_batch(out)
        conf(case["second"])
        conductor = Conductor(study)
        conductor.initialize(batch, 1)
        status = conductor.monitor_study()
        conductor.cleanup()
        res["status"] = status.name
    except BaseException as e:
        res["exc"] = "%s: %s" % (type(e).__name__, str(e)[:300])
    json.dump(res, open(os.path.join(d, "api.result.json"), "w"))


def run_api(job):
    case, d = job
    shutil.rmtree(d, ignore_errors=True)
    os.makedirs(d)
    with open(os.path.join(d, "spec.yaml"), "w") as f:
        f.write(spec_text(case, d))
    with open(os.path.join(d, "case.json"), "w") as f:
        json.dump(case, f)
    with open(os.path.join(d, "api.script.json"), "w") as f:
        json.dump({"log": os.path.join(d, "api.adapter.log"), "default": "FINISHED"}, f)
    import subprocess
    env = e2e.base_env({"E2E_POLL_SLEEP": "1", "E2E_MAX_POLLS": "80", "E2E_STUDY_DIR": os.path.join(d, "api"),
                        "E2E_SNAP_DIR": os.path.join(d, "api.snap")})
    try:
        p = subprocess.run([e2e.PY, "-m", "harness.props.c17_e2e", "api", d], cwd=common.VERIF, env=env, text=True,
                           errors="replace", stdout=subprocess.PIPE, stderr=subprocess.STDOUT, timeout=150)
        rc, tail = p.returncode, (p.stdout or "")[-800:]
    except subprocess.TimeoutExpired:
        rc, tail = 124, "timeout"
    try:
        res = json.load(open(os.path.join(d, "api.result.json")))
    except Exception:
        res = {"exc": "no result (rc=%d): %s" % (rc, tail)}
    res["rc"] = rc
    return res


def judge_api(case, d, res):
    viol, prob = [], []
    last = case["second"]
    what = "configure_study(%s) then %sconfigure_study(%s)" % (
        case["first"], "store_study / load_study, " if case["reload"] else "", last)
    if res.get("rc") == 99:
        return ["%s: the study did not terminate" % what], []
    if "exc" in res:
        return ["%s: %s" % (what, res["exc"])], []
    log = read_log(os.path.join(d, "api.adapter.log")) or []
    calls = Counter(e.get("call") for e in log)
    try:
        inst = e2e.read_graph(os.path.join(d, "api", e2e.STUDY + ".pkl"))[0]
    except Exception as e:
        return [], ["%s: snapshot unreadable: %r" % (what, e)]
    states = sorted({nd["state"] for nd in inst})
    ran = os.path.exists(os.path.join(d, "ran.log"))
    if last["dry"]:
        for c in ("submit", "check_jobs"):
            if calls.get(c):
                viol.append("%s: the LAST configuration is a dry run but %d %s call(s) were made" % (what, calls[c], c))
        if ran:
            viol.append("%s: the LAST configuration is a dry run but step commands were executed" % what)
        if states != ["DRYRUN"] or res.get("status") != "FINISHED":
            viol.append("%s: dry run ended %s with states %r" % (what, res.get("status"), states))
    else:
        nsched = sum(1 for nd in inst if any(e.get("call") == "write_script" and e.get("scheduled") for e in log))
        if "DRYRUN" in states:
            viol.append("%s: the LAST configuration is a real run but steps ended DRYRUN" % what)
        elif states != ["FINISHED"] or res.get("status") != "FINISHED":
            viol.append("%s: real run ended %s with states %r" % (what, res.get("status"), states))
        if nsched and not calls.get("submit"):
            viol.append("%s: the LAST configuration is a real run but nothing was submitted" % what)
    hashed = [nd for nd in inst if nd["params"]]
    import re
    for nd in hashed:
        is_hash = bool(re.fullmatch(r"[0-9a-f]{32}", os.path.basename(nd["ws"])))
        if is_hash != bool(last["hashws"]):
            viol.append("%s: workspace of %s is %s" % (what, nd["name"], os.path.basename(nd["ws"])))
            break
    tmp = os.path.realpath(os.path.join(common.WORK, "tmp"))
    for e in log:
        if e.get("call") == "write_script":
            in_tmp = os.path.realpath(e["dir"]).startswith(tmp + os.sep)
            if in_tmp != bool(last["usetmp"]):
                viol.append("%s: script of %s written to %s" % (what, e["inst"], e["dir"]))
                break
    return viol, prob


def run_api_cases(ck, cases, tag="C17_api"):
    tag = e2e.utag(tag)
    work = os.path.join(common.WORK, tag + "_runs")
    shutil.rmtree(work, ignore_errors=True)
    jobs = [(c, os.path.join(work, "a%d" % i)) for i, c in enumerate(cases)]
    dist = Counter()
    for (case, d), res in zip(jobs, e2e.pmap(run_api, jobs)):
        try:
            viol, prob = judge_api(case, d, res)
        except Exception as e:
            viol, prob = [], ["harness could not interpret the API run: %r" % (e,)]
        rec = dict(slim(case), first=case["first"], second=case["second"], reload=case["reload"], kind="api")
        if viol:
            ck.violation("C17 e2e (API): " + viol[0], dict(rec, all=viol[:6]))
        elif prob:
            ck.mismatch("C17 e2e (API): " + prob[0], rec, "")
        ck.count("c17api:" + json.dumps(rec, sort_keys=True), nontrivial=True)
        dist["last:dry=%s" % case["second"]["dry"]] += 1
        dist["toggled:" + ",".join(k for k in case["first"] if case["first"][k] != case["second"][k])] += 1
        dist["reload:%s" % case["reload"]] += 1
        shutil.rmtree(d, ignore_errors=True)
    shutil.rmtree(work, ignore_errors=True)
    e2e.sweep()
    return dict(sorted(dist.items()))


if __name__ == "__main__":
    import sys
    if len(sys.argv) > 2 and sys.argv[1] == "api":
        sub_api(sys.argv[2])

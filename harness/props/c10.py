"""C10 -- every step instance has its own workspace inside the study directory.

Correspondence between the real staging / script-writing code of /repo and the
Gallina model coq/theories/Expand/SafePath.v, plus the monitor `C10_ok` (the
predicate Props/C10.v proves of the model) evaluated on the implementation's
observables.  Everything on the model side runs inside Coq (vm_compute over
generated cases files).

A study case = a generated YAML specification (1..4 steps, 0..3 parameters,
1..4 rows, label templates, ordinary and funnel dependencies, restart
commands) + flags (hashws, usetmp, adapter local/slurm/lsf/flux, dry run or a
real local execution, root with or without a trailing slash).  It is run the
way `maestro run` does it: YAMLSpecification.load_specification_from_stream ->
Study -> setup_workspace/configure_study/setup_environment -> stage() ->
ExecutionGraph.execute_ready_steps() until it stops, with the real adapters
(so scripts are really written).  Observables, relative to the root / the temp
directory: every record's workspace, every path `write_script` opened and
returned, every path `LocalScriptAdapter.submit` opened, whether anything
raised, and the directory tree left behind (os.walk).

Streams:
  corpus   corpus/C10/*.json (known-finding witnesses must still fail)
  valid    values/labels over the characters the sanitiser keeps
  exotic   spaces, slashes, dots, quotes, signs, unicode, "..", strings that
           sanitise to "", exotic step names
  paths    posixpath.join / normpath vs the model: exhaustive over a small
           alphabet up to a length bound + seeded random
  sanit    make_safe_path vs the model on every code point < 0x250 and random
           unicode strings
"""
import glob
import hashlib
import io
import json
import os
import random
import shutil
import sys
import tempfile
import time

from harness import common

PID = "C10"

HEADER = """From Coq Require Import List NArith Bool Strings.Byte.
From MWF Require Import Base.Str Gen.SafePathData Expand.SafePath.
Import ListNotations.
(* ASCII text as a byte-string literal (elaborates 2.5x faster than `s "..."`) *)
Inductive bstr := BS (l : list byte).
Definition bparse (l : list byte) : bstr := BS l.
Definition bprint (x : bstr) : list byte := match x with BS l => l end.
Declare Scope bstr_scope.
Delimit Scope bstr_scope with bstr.
String Notation bstr bparse bprint : bstr_scope.
Definition b (x : bstr) : str := map Byte.to_N (bprint x).
Arguments b x%bstr.
Definition I_ := mkinst.
Definition S_ := mkstudy.
Definition O_ := mkiobs.
Definition B_ := mkobs.
Definition C_ := mkcase.
Definition f_collide (c : ccase) := negb (sig_collide (lookup (c_md5 c)) (c_study c)).
Definition f_slash (c : ccase) := negb (sig_slash (lookup (c_md5 c)) (c_study c)).
Definition f_degenerate (c : ccase) := negb (sig_degenerate (lookup (c_md5 c)) (c_study c)).
"""

# signature predicates of SafePath.v (a `known:` line of KNOWN_FINDINGS.txt names one of
# them; only signatures listed there excuse a failing monitor)
SIGS = ("collide", "slash", "degenerate")


def known_table(ck):
    """{short signature name: (id, what)} for the `known:` lines of this property."""
    res = {}
    for k in (ck.known if ck is not None else common.load_known(PID)):
        sig = k.get("signature", "")
        if sig.startswith("sig_") and sig[4:] in SIGS:
            res[sig[4:]] = (k.get("id", "K?"), k.get("what", sig))
    return res


ROOT = "/R/study"
TMP = "/T/tmpd"
ADAPTERS = {"local": "ALocal", "slurm": "ASlurm", "lsf": "ALsf", "flux": "AFlux"}
NEST = ("n1", "n2", "n3", "n4", "n5", "study")     # real root = scratch/<case>/n1/../study

SAFE_CHARS = "abcxyzABZ019-_.()"
SAFE_CHARS_SP = SAFE_CHARS + " "
EXOTIC_CHARS = " /.'\"+-*%&=:;,!?#@~^<>|[]{}\\\téß中α\U0001f600ab1_"
KEYS = ("P", "Q", "RR", "P2")


# ----------------------------------------------------------------------------
# the implementation side
# ----------------------------------------------------------------------------
_IMPL = {}


def _impl():
    """Import maestrowf once, with sleeping and logging switched off."""
    if _IMPL:
        return _IMPL
    import logging
    logging.disable(logging.CRITICAL)
    import maestrowf.datastructures.core.executiongraph as eg
    eg.sleep = lambda *a, **k: None
    from maestrowf.specification.yamlspecification import YAMLSpecification
    from maestrowf.datastructures.core import Study
    from maestrowf.datastructures.environment import Variable
    from maestrowf.abstracts.enums import StudyStatus
    from maestrowf.abstracts.interfaces.scriptadapter import ScriptAdapter
    from maestrowf.interfaces import ScriptAdapterFactory
    import maestrowf.interfaces.script.localscriptadapter as m_local
    import maestrowf.interfaces.script.slurmscriptadapter as m_slurm
    import maestrowf.interfaces.script.lsfscriptadapter as m_lsf
    import maestrowf.interfaces.script.fluxscriptadapter as m_flux
    import maestrowf.utils as utils
    _IMPL.update(eg=eg, YAMLSpecification=YAMLSpecification, Study=Study, Variable=Variable,
                 StudyStatus=StudyStatus, ScriptAdapter=ScriptAdapter, Factory=ScriptAdapterFactory,
                 mods=(m_local, m_slurm, m_lsf, m_flux), m_local=m_local, m_flux=m_flux, utils=utils)
    return _IMPL


class Hooks:
    """Record what the adapters are asked to write and what they open.  No
    source hooks: class attributes / module names are replaced for the duration
    of one case and restored afterwards."""

    def __init__(self):
        self.events = []
        self.ctx = None
        self._undo = []

    def __enter__(self):
        I = _impl()
        hooks = self
        SA = I["ScriptAdapter"]
        orig_ws = SA.__dict__["write_script"]

        def write_script(self_, ws_path, step):
            prev, hooks.ctx = hooks.ctx, ("write", step.real_name)
            try:
                res = orig_ws(self_, ws_path, step)
                hooks.events.append(("write", step.real_name, ws_path, [res[1], res[2]], None))
                return res
            except Exception as e:
                hooks.events.append(("write", step.real_name, ws_path, None, type(e).__name__))
                raise
            finally:
                hooks.ctx = prev
        SA.write_script = write_script
        self._undo.append(lambda: setattr(SA, "write_script", orig_ws))

        LA = I["m_local"].LocalScriptAdapter
        orig_sub = LA.__dict__["submit"]

        def submit(self_, step, path, cwd, job_map=None, env=None):
            prev, hooks.ctx = hooks.ctx, ("submit", step.real_name)
            hooks.events.append(("submit", step.real_name, path, cwd))
            try:
                return orig_sub(self_, step, path, cwd, job_map=job_map, env=env)
            finally:
                hooks.ctx = prev
        LA.submit = submit
        self._undo.append(lambda: setattr(LA, "submit", orig_sub))

        def rec_open(path, mode="r", *a, **k):
            if any(c in mode for c in "wax+"):
                hooks.events.append(("open", hooks.ctx, path))
            return open(path, mode, *a, **k)
        for m in I["mods"]:
            had = "open" in m.__dict__
            old = m.__dict__.get("open")
            m.open = rec_open
            self._undo.append((lambda m=m, had=had, old=old:
                               setattr(m, "open", old) if had else delattr(m, "open")))

        # The flux python module is absent here: the adapter's constructor stops
        # at its last statement.  Everything _write_script needs is set by then.
        Flux = I["m_flux"].FluxScriptAdapter

        class FluxShim(Flux):
            def __init__(self, **kw):
                try:
                    super(FluxShim, self).__init__(**kw)
                except NameError:
                    self._broker_version = "0.0.0"
        fac = I["Factory"].factories
        old_flux = fac.get("flux")
        fac["flux"] = FluxShim
        self._undo.append(lambda: fac.__setitem__("flux", old_flux))
        return self

    def __exit__(self, *a):
        for u in reversed(self._undo):
            try:
                u()
            except Exception:
                pass
        return False


def spec_doc(case):
    """The YAML document of a case.  Parameter tokens are placed in the
    description (get_used_parameters scans every field of the step), never in a
    command: nothing exotic reaches a shell."""
    steps = []
    for st in case["steps"]:
        desc = "step " + " ".join("$(%s)" % k if i % 2 == 0 else "$(%s.label)" % k
                                  for i, k in enumerate(st["uses"]))
        run = {"cmd": "true"}
        if st.get("depends"):
            run["depends"] = list(st["depends"])
        if st.get("restart"):
            run["restart"] = "true"
        if st.get("sched"):
            run.update({"nodes": 1, "procs": 1, "walltime": "00:01:00"})
            run["cmd"] = "$(LAUNCHER) true"
        steps.append({"name": st["name"], "description": desc, "run": run})
    doc = {"description": {"name": "c10", "description": "generated by the C10 check"}, "study": steps}
    if case["params"]:
        doc["global.parameters"] = {k: {"values": list(p["values"]), "label": p["label"]}
                                    for k, p in case["params"].items()}
    return doc


def expected_instances(case):
    """The instances staging must create (what the model is given): for a step
    whose used parameters U (own tokens, inherited through ordinary
    dependencies) are non-empty, one per distinct combination string
    ".".join(label_k(row) for k in sorted(U)); else the step itself."""
    used, out, seen = {}, [], set()
    params = case["params"]
    nrows = len(next(iter(params.values()))["values"]) if params else 0
    for st in case["steps"]:
        u = set(st["uses"]) & set(params)
        for d in st.get("depends", []):
            if not d.endswith("_*"):
                u |= used[d]
        used[st["name"]] = u
        if not u:
            rows = [None]
        else:
            rows = []
            for r in range(nrows):
                labs = [params[k]["label"].replace("%%", str(params[k]["values"][r])) for k in sorted(u)]
                rows.append(".".join(labs))
        for combo in rows:
            name = st["name"] if combo is None else "%s_%s" % (st["name"], combo)
            if name in seen:
                continue
            seen.add(name)
            out.append({"step": st["name"], "combo": combo, "restart": bool(st.get("restart")), "name": name})
    return out


def _md5(x):
    return hashlib.md5(x.encode("utf-8")).hexdigest()


def _canon(p, real_root, real_tmp):
    if p is None:
        return None
    if real_tmp and p.startswith(real_tmp):
        return TMP + p[len(real_tmp):]
    if p.startswith(real_root):
        return ROOT + p[len(real_root):]
    return p


def _walk(top, kinds):
    res = []
    if not top or not os.path.isdir(top):
        return res
    for d, ds, fs in os.walk(top):
        rel = os.path.relpath(d, top)
        comps = [] if rel == "." else rel.split(os.sep)
        if comps:
            res.append([kinds[0], comps])
        for f in fs:
            res.append([kinds[1], comps + [f]])
    return sorted(res)


def run_study(case, scratch):
    """Run one case against the real code; returns the observation dict."""
    I = _impl()
    base = os.path.join(scratch, "c")
    shutil.rmtree(base, ignore_errors=True)
    real_root = os.path.join(base, *NEST)
    tmp_parent = os.path.join(base, "tmp")
    os.makedirs(tmp_parent)
    out_path = real_root + ("/" if case.get("root_slash") else "")
    obs = {"exc": None, "records": {}, "tree": [], "tmp": "", "sanity": []}
    old_tmp = tempfile.tempdir
    tempfile.tempdir = tmp_parent
    dag = None
    try:
        with Hooks() as hk:
            try:
                import yaml
                text = yaml.safe_dump(spec_doc(case), allow_unicode=True)
                spec = I["YAMLSpecification"].load_specification_from_stream(io.StringIO(text))
                env = spec.get_study_environment()
                steps = spec.get_study_steps()
                env.remove("OUTPUT_PATH")
                env.add(I["Variable"]("OUTPUT_PATH", out_path))
                params = spec.get_parameters()
                study = I["Study"](spec.name, spec.description, studyenv=env, parameters=params,
                                   steps=steps, out_path=out_path)
                study.setup_workspace()
                study.configure_study(throttle=0, submission_attempts=1, restart_limit=1,
                                      use_tmp=bool(case.get("usetmp")), hash_ws=bool(case.get("hashws")),
                                      dry_run=not case.get("exec"))
                study.setup_environment()
                _, dag = study.stage()
                batch = {"type": case["adapter"]}
                if case["adapter"] != "local":
                    batch.update({"host": "h", "bank": "b", "queue": "q"})
                dag.set_adapter(batch)
                obs["tmp"] = dag._tmp_dir or ""
                status = I["StudyStatus"].RUNNING
                polls = 0
                while status == I["StudyStatus"].RUNNING and polls < 40:
                    status = dag.execute_ready_steps()
                    polls += 1
                obs["status"] = getattr(status, "name", str(status))
            except Exception as e:       # anything: mutated trees may raise anything
                obs["exc"] = type(e).__name__
            events = hk.events
        real_tmp = obs["tmp"]
        if dag is not None:
            for key, rec in dag.values.items():
                if rec is None:
                    continue
                try:
                    obs["records"][key] = {
                        "ws": _canon(rec.workspace.value, real_root, real_tmp),
                        "pids": [str(j) for j in rec.jobid],
                        "script": None, "restart": None, "outs": []}
                except Exception as e:
                    obs["exc"] = obs["exc"] or type(e).__name__
        for ev in events:
            if ev[0] == "write":
                _, name, ws_path, res, exc = ev
                r = obs["records"].get(name)
                if r is None:
                    obs["sanity"].append("write_script for unknown record %r" % (name,))
                    continue
                opened = [e[2] for e in events if e[0] == "open" and e[1] == ("write", name)]
                if res is not None:
                    if [p for p in res if p] != opened[-len([p for p in res if p]):]:
                        obs["sanity"].append("write_script returned %r but opened %r" % (res, opened))
                    r["script"] = _canon(res[0], real_root, real_tmp)
                    r["restart"] = _canon(res[1], real_root, real_tmp)
                else:
                    if opened:
                        r["script"] = _canon(opened[0], real_root, real_tmp)
                    if len(opened) > 1:
                        r["restart"] = _canon(opened[1], real_root, real_tmp)
            elif ev[0] == "open" and ev[1] and ev[1][0] == "submit":
                r = obs["records"].get(ev[1][1])
                if r is not None:
                    r["outs"].append(_canon(ev[2], real_root, real_tmp))
            elif ev[0] == "open" and ev[1] is None:
                obs["sanity"].append("adapter module opened %r outside write_script/submit" % (ev[2],))
        obs["tree"] = _walk(real_root, (0, 1)) + _walk(real_tmp, (2, 3))
        obs["tmp_canon"] = TMP if real_tmp else ""
    finally:
        tempfile.tempdir = old_tmp
        try:
            if dag is not None and dag._tmp_dir:
                shutil.rmtree(dag._tmp_dir, ignore_errors=True)
        except Exception:
            pass
        shutil.rmtree(base, ignore_errors=True)
    return obs


# ----------------------------------------------------------------------------
# Gallina literals
# ----------------------------------------------------------------------------
class G:
    g_bool = staticmethod(common.g_bool)
    g_list = staticmethod(common.g_list)
    g_pair = staticmethod(common.g_pair)

    @staticmethod
    def g_str(x):
        """python str -> `str` (list N of code points)."""
        if all(32 <= ord(c) < 127 for c in x):
            return '(b "%s")' % x.replace('"', '""')
        return "[" + "; ".join("%d%%N" % ord(c) for c in x) + "]"


def g_ostr(x):
    return "None" if x is None else "(Some %s)" % G.g_str(x)


def g_strs(xs):
    return G.g_list([G.g_str(x) for x in xs])


def gallina_case(case, obs):
    insts = sorted(expected_instances(case), key=lambda i: i["name"])
    recs = obs["records"]
    root = ROOT + ("/" if case.get("root_slash") else "")
    tmp = obs.get("tmp_canon", "")
    gi = []
    for i in insts:
        pids = recs.get(i["name"], {}).get("pids", [])
        gi.append("I_ %s %s %s %s" % (G.g_str(i["step"]), g_ostr(i["combo"]), G.g_bool(i["restart"]), g_strs(pids)))
    study = "(S_ %s %s %s %s %s)" % (G.g_str(root), G.g_str(tmp), G.g_bool(bool(case.get("hashws"))),
                                      ADAPTERS[case["adapter"]], G.g_list(gi))
    keys = []
    for i in insts:
        if i["combo"] is not None and i["combo"] not in keys:
            keys.append(i["combo"])
    for i in insts:
        if i["name"] not in keys:
            keys.append(i["name"])
    tbl = G.g_list([G.g_pair(G.g_str(k), G.g_str(_md5(k))) for k in keys])
    go = []
    for name in sorted(recs):
        r = recs[name]
        go.append("O_ %s %s %s %s %s" % (G.g_str(name), G.g_str(r["ws"]), g_ostr(r["script"]),
                                         g_ostr(r["restart"]), g_strs(r["outs"])))
    o = "(B_ %s %s %s %s)" % (G.g_str(root), G.g_str(tmp), G.g_bool(obs["exc"] is not None), G.g_list(go))
    tree = G.g_list(["(%d, %s)" % (k, g_strs(c)) for k, c in obs["tree"]])
    return "C_ %s %s %s %s" % (study, tbl, o, tree)


# ----------------------------------------------------------------------------
# generators
# ----------------------------------------------------------------------------
def _word(rng, chars, lo=1, hi=5):
    return "".join(rng.choice(chars) for _ in range(rng.randint(lo, hi)))


def _limit_dots(x):
    """At most two '..' in any generated string: the real root is nested five
    directories below the scratch directory."""
    while x.count("..") > 2:
        x = x.replace("..", ".", 1)
    return x


EXOTIC_VALUES = ["..", ".", "", " ", "/", "a/b", "../x", "a b", "a_b", "a*b", "ab", "%%", "é", "***",
                 "x/../y", "a.b", "c", "a", "b.c", "-1.5e+3", "'q'", "\"dq\"", "a//b", "/abs", "中文",
                 "aé", "aß", "s p a c e", "..", "...", "x/", ". ."]
EXOTIC_LABELS = ["%%", "%%", "K.%%", "%%.%%", "l/%%", "%% %%", "(%%)", "é%%", "..%%", "%%/", "L%%"]
EXOTIC_STEPS = ["a b", "a/b", "a*b", "stép", "..", ".", "x..y", "a_b", "a b", "s'q", "中", "a/../b", "**"]


def gen_study(rng, stream):
    exotic = stream == "exotic"
    nsteps = rng.choice((1, 1, 2, 2, 3, 4))
    nparams = rng.choice((0, 1, 1, 2, 2, 3))
    nrows = rng.choice((1, 2, 2, 3, 4))
    keys = list(KEYS[:nparams])
    params = {}
    for k in keys:
        vals = []
        for _ in range(nrows):
            t = rng.random()
            if exotic and t < 0.6:
                v = rng.choice(EXOTIC_VALUES) if rng.random() < 0.5 else _word(rng, EXOTIC_CHARS, 0, 5)
                if v == "":
                    v = rng.choice(["é", "*", " "])
            elif t < 0.25:
                v = rng.choice([1, 2, 3, 10, -4, 0])
            elif t < 0.4:
                v = rng.choice([0.5, 1.0, 2.25, -1.5, 1e-05, 100.0])
            elif t < 0.55 and vals:
                v = rng.choice(vals)             # repeated value: rows that agree
            else:
                v = _word(rng, SAFE_CHARS_SP if rng.random() < 0.15 else SAFE_CHARS, 1, 5)
            if isinstance(v, str):
                v = _limit_dots(v)
            vals.append(v)
        if exotic and rng.random() < 0.5:
            label = rng.choice(EXOTIC_LABELS)
        else:
            label = rng.choice(["%s.%%%%" % k, "%s.%%%%" % k, "%%", "%s_%%%%" % k.lower(), "v%%x", "%s.%%%%.z" % k])
        params[k] = {"values": vals, "label": _limit_dots(label)}
    steps, names = [], []
    for n in range(nsteps):
        if exotic and rng.random() < 0.25:
            name = rng.choice(EXOTIC_STEPS) if rng.random() < 0.6 else _word(rng, EXOTIC_CHARS.replace("*", ""), 1, 4)
            name = _limit_dots(name).lstrip("/") or "q"
        else:
            name = rng.choice(["s", "step", "run-sim", "post_proc", "a.b", "X1"]) + str(n)
        if name in names or name.endswith("_*") or not name.strip():
            name = "u%d" % n
        uses = [k for k in keys if rng.random() < 0.55]
        deps = []
        for p in steps:
            if "*" in p["name"] or "/" in p["name"] or "_" == p["name"][-1:]:
                continue
            t = rng.random()
            if t < 0.25:
                deps.append(p["name"])
            elif t < 0.4:
                deps.append(p["name"] + "_*")
        steps.append({"name": name, "uses": uses, "depends": deps, "restart": rng.random() < 0.4,
                      "sched": False})
        names.append(name)
    adapter = rng.choice(("local", "local", "local", "slurm", "lsf", "flux"))
    if adapter != "local":
        for st in steps:
            st["sched"] = rng.random() < 0.5
    case = {"stream": stream, "steps": steps, "params": params,
            "hashws": rng.random() < 0.4, "usetmp": rng.random() < 0.3, "adapter": adapter,
            "exec": adapter == "local" and rng.random() < 0.2, "root_slash": rng.random() < 0.1}
    return case


def case_ok_to_run(case):
    """Safety envelope of the harness (not a hypothesis of the property): no
    step name starting with '/', at most two '..' per string."""
    for st in case["steps"]:
        if st["name"].startswith("/") or st["name"].count("..") > 2 or "$" in st["name"]:
            return False
    for p in case["params"].values():
        if "$" in p["label"] or p["label"].count("..") > 2:
            return False
        for v in p["values"]:
            if "$" in str(v) or str(v).count("..") > 2:
                return False
    return True


def gen_path_cases(rng, tier):
    """(a, bs, posixpath.join(a, *bs), posixpath.normpath(of that))"""
    import posixpath
    out = []
    alpha = "/.a"
    bound = 6 if tier == "thorough" else 5

    def words(n):
        if n == 0:
            yield ""
            return
        for w in words(n - 1):
            for c in alpha:
                yield w + c
    allw = [w for n in range(bound + 1) for w in words(n)]
    for w in allw:                                    # normpath, exhaustive
        out.append((w, [], w, posixpath.normpath(w)))
    short = [w for w in allw if len(w) <= (3 if tier == "thorough" else 2)]
    for a in short:                                   # join of two, exhaustive
        for b in short:
            j = posixpath.join(a, b)
            out.append((a, [b], j, posixpath.normpath(j)))
    n = 4000 if tier == "thorough" else 400
    for _ in range(n):
        a = _word(rng, "//..ab é", 0, 8)
        bs = [_word(rng, "//..ab é", 0, 6) for _ in range(rng.randint(0, 3))]
        j = posixpath.join(a, *bs)
        out.append((a, bs, j, posixpath.normpath(j)))
    return out


def gen_sanit_cases(rng, tier):
    """(base, args, make_safe_path(base, *args)) -- the real function."""
    msp = _impl()["utils"].make_safe_path
    out = []
    cps = [chr(c) for c in range(1, 0x250) if not 0xD800 <= c < 0xE000]
    for k in range(0, len(cps), 16):                  # every code point < 0x250
        arg = "".join(cps[k:k + 16])
        out.append(("/r", [arg], msp("/r", arg)))
    n = 3000 if tier == "thorough" else 400
    for _ in range(n):
        base = rng.choice(["/r", "/r/", "", "rel", "/", "//x"])
        args = [_word(rng, EXOTIC_CHARS + SAFE_CHARS_SP, 0, 8) for _ in range(rng.randint(0, 3))]
        out.append((base, args, msp(base, *args)))
    return out


# ----------------------------------------------------------------------------
# the "submit" stream: where each back-end starts the job of an instance
# ----------------------------------------------------------------------------
# For every back-end the REAL adapter writes the script of a generated step
# (real header) into its workspace and `submit(step, script, workspace)` is
# called with the process layer stubbed (Slurm / LSF / local: every door to a
# process records the command line and the cwd= keyword; Flux: an in-memory
# `flux` module records the jobspec).  Observable: the effective working
# directory of the started job and its stdout / stderr paths; monitor:
# SafePath.submit_ok (Props/C10.v: C10_submit_in_workspace).
class _Proc:
    def __init__(self, text, out):
        self.text, self.out, self.pid, self.returncode = text, out, 4242, 0
        self.stdout = self.stderr = None

    def communicate(self, *a, **k):
        return (self.out, "") if self.text else (self.out.encode("utf-8"), b"")

    def wait(self, *a, **k):
        return 0

    def poll(self):
        return 0

    def kill(self):
        pass

    terminate = kill

    def __enter__(self):
        return self

    def __exit__(self, *a):
        return False


class _JobID(int):
    @property
    def f58(self):
        return "f%d" % int(self)

    @property
    def dec(self):
        return str(int(self))


class _Jobspec:
    def __init__(self, how, command, kw):
        self.how, self.command, self.kw, self.attrs = how, command, kw, {}
        self.cwd = self.environment = self.duration = self.stdout = self.stderr = None

    @classmethod
    def from_command(cls, command, **kw):
        return cls("command", command, kw)

    @classmethod
    def from_nest_command(cls, command, **kw):
        return cls("nest", command, kw)

    @classmethod
    def from_batch_command(cls, *a, **kw):
        return cls("batch", a, kw)

    def setattr(self, k, v):
        self.attrs[k] = v

    def setattr_shell_option(self, k, v):
        self.attrs["shell." + k] = v


class SubmitStubs:
    """Process layer + flux module replaced while one adapter's submit runs."""

    PROC_SPOTS = ("maestrowf.utils", "maestrowf.interfaces.script.slurmscriptadapter",
                  "maestrowf.interfaces.script.lsfscriptadapter",
                  "maestrowf.interfaces.script.localscriptadapter",
                  "maestrowf.interfaces.script.fluxscriptadapter")

    def __init__(self):
        self.procs, self.jobspecs, self.opened, self._undo = [], [], [], []

    def _set(self, obj, attr, val):
        missing = object()
        old = obj.__dict__.get(attr, missing) if hasattr(obj, "__dict__") else getattr(obj, attr, missing)
        self._undo.append((obj, attr, old, missing))
        setattr(obj, attr, val)

    def __enter__(self):
        import importlib
        import subprocess
        import types
        me = self

        def launch(cmd, text, k):
            cwd = k.get("cwd")
            if cwd is not None and not os.path.isdir(cwd):       # what the real Popen does
                raise FileNotFoundError(2, "No such file or directory", str(cwd))
            me.procs.append((cmd, cwd, bool(k.get("shell"))))
            line = cmd if isinstance(cmd, str) else " ".join(str(c) for c in cmd)
            out = "Job <4711> is submitted to queue <q>.\n" if "bsub" in line else "Submitted batch job 4711\n"
            return _Proc(text, out)

        def start_process(cmd, cwd=None, env=None, shell=True, **k):
            return launch(cmd, True, {"cwd": cwd, "shell": shell and not isinstance(cmd, list)})

        def popen(cmd, *a, **k):
            return launch(cmd, bool(k.get("universal_newlines") or k.get("text") or k.get("encoding")), k)

        def rec_open(path, mode="r", *a, **k):
            if any(c in mode for c in "wax+"):
                me.opened.append(path)
            return open(path, mode, *a, **k)

        for name in self.PROC_SPOTS:
            try:
                m = importlib.import_module(name)
            except Exception:
                continue
            for attr, fn in (("start_process", start_process), ("Popen", popen)):
                if attr in m.__dict__:
                    self._set(m, attr, fn)
        self._set(subprocess, "Popen", popen)
        try:
            self._set(importlib.import_module("maestrowf.interfaces.script.localscriptadapter"), "open", rec_open)
        except Exception:
            pass
        # ---- the in-memory flux module
        flux = types.ModuleType("flux")
        job = types.ModuleType("flux.job")
        const = types.ModuleType("flux.constants")

        class Flux:
            def __init__(self, *a, **k):
                pass

            def attr_get(self, name):
                return "0.49.0" if name == "version" else ""

        def submit(handle, jobspec, *a, **k):
            me.jobspecs.append(jobspec)
            return _JobID(4711)
        flux.Flux, flux.job, flux.constants = Flux, job, const
        job.JobspecV1, job.submit, job.JobID = _Jobspec, submit, _JobID
        const.FLUX_JOB_PENDING, const.FLUX_JOB_RUNNING, const.FLUX_JOB_INACTIVE = 6, 24, 32
        mods = {"flux": flux, "flux.job": job, "flux.constants": const}
        for k, v in mods.items():
            self._undo.append((sys.modules, k, sys.modules.get(k), None))
            sys.modules[k] = v
        targets = ["maestrowf.abstracts.interfaces.flux"]
        for f in sorted(glob.glob(os.path.join(common.REPO, "maestrowf/interfaces/script/_flux", "*.py"))):
            if os.path.basename(f) != "__init__.py":
                targets.append("maestrowf.interfaces.script._flux." + os.path.basename(f)[:-3])
        for name in targets:
            try:
                m = importlib.import_module(name)
            except Exception:
                continue
            for attr, modname in (("flux", "flux"), ("flux_job", "flux.job"), ("flux_constants", "flux.constants")):
                self._set(m, attr, mods[modname])
            for v in list(vars(m).values()):
                if isinstance(v, type) and "flux_handle" in vars(v):
                    self._set(v, "flux_handle", None)
        return self

    def __exit__(self, *a):
        for obj, attr, old, missing in reversed(self._undo):
            try:
                if isinstance(obj, dict):
                    if old is None:
                        obj.pop(attr, None)
                    else:
                        obj[attr] = old
                elif old is missing:
                    delattr(obj, attr)
                else:
                    setattr(obj, attr, old)
            except Exception:
                pass
        return False


def submit_backends():
    try:
        from maestrowf.interfaces.script import FluxFactory
        vers = sorted(FluxFactory.factories.keys(), reverse=True)
    except Exception:
        vers = []
    direct = []          # interface modules the factory did not register: driven directly
    for f in sorted(glob.glob(os.path.join(common.REPO, "maestrowf/interfaces/script/_flux", "flux*.py"))):
        b = os.path.basename(f)[:-3]
        if b.replace("flux", "").replace("_", ".") not in vers:
            direct.append("fluxif:" + b)
    return ["local", "slurm", "lsf"] + ["flux:" + v for v in vers] + direct


SUB_BATCH = {"host": "h", "bank": "b", "queue": "q", "nodes": "1"}
SUB_CHOICES = {
    "reservation": (None, None, "", "res1"),
    "walltime": (None, 0, "0", "inf", "", "00:10:00", "01:00:00", 5, "30"),
    "qos": (None, None, "", "high"),
    "exclusive": (None, None, False, True),
    "gpus": (None, None, "", "2", 1),
    "nodes": (None, "", 1, "2"),
    "procs": (None, "", 1, "4"),
    "cores per task": (None, None, "", 2),
    "priority": (None, None, "high", "low"),
    "nested": (None, None, True),
    "bank": (None, None, "otherbank"),
    "queue": (None, None, "otherq"),
    "restart": ("", "", "true"),
}
_MD5 = "0a1b2c3d4e5f60718293a4b5c6d7e8f9"
# (step, combination string, nickname): plain; characters make_safe_path keeps that a shell treats
# specially, blanks (sanitised to '_' in the workspace, kept in the file names); raw labels with
# '/', "..", blanks under --hashws (workspace and file names come from the digest)
SUB_NAMES = (("run", None, None), ("run", "X.1", None), ("post-proc", "SIZE.10.ITER.3", None),
             ("run", "FUNC.f(x)", None), ("f(x)", None, None), ("run", "a b", None), ("my step", None, None),
             ("run", "X.1", _MD5), ("run", "train/a", _MD5), ("run", "../shared", _MD5),
             ("run", "a b.c d", _MD5), ("run", "f(x)/..", _MD5))
# last component of the (real) study directory: blanks, quotes, $ & ; ( ) are legal in OUTPUT_PATH
SUB_ROOTS = ("study", "study", "my study", "st'udy", 'st"udy', "st$udy", "a&b", "a;b", "st(1)", "a b$HOME;c")


def gen_submit_cases(rng, tier):
    """Every back-end x {reservation absent / own} x {walltime absent, 0, "inf", h:m:s}
    exhaustively (the rest of the run keys random), plus fully random ones."""
    out = []
    n_rand = 300 if tier == "thorough" else 24
    for be in submit_backends():
        combos = [(r, w) for r in (None, "res1") for w in (None, 0, "inf", "00:10:00")]
        combos += [None] * n_rand
        for fixed in combos:
            run = {}
            for k, vals in SUB_CHOICES.items():
                v = rng.choice(vals)
                if v is not None:
                    run[k] = v
            if fixed is not None:
                for k, v in zip(("reservation", "walltime"), fixed):
                    run.pop(k, None)
                    if v is not None:
                        run[k] = v
            step, combo, nick = rng.choice(SUB_NAMES)
            out.append({"kind": "submit", "backend": be, "run": run, "step": step, "combo": combo, "nick": nick,
                        "root": rng.choice(SUB_ROOTS),
                        "batch_reservation": rng.choice((None, None, "batchres")),
                        "launcher": rng.random() < 0.5})
    return out


def shell_words(cmd):
    """The words a POSIX shell makes of a simple command line, or None when the
    line is not a simple command with literal words: an unquoted ( ) ; & | ` $ * ?
    [ ] { } ~ # ! > or a $ / ` inside double quotes, or an unterminated quote.
    `<` (bsub reads the script from stdin) is returned as a word of its own."""
    words, cur, has, i, n = [], "", False, 0, len(cmd)
    while i < n:
        c = cmd[i]
        if c in " \t\n":
            if has:
                words.append(cur)
            cur, has = "", False
        elif c == "'":
            j = cmd.find("'", i + 1)
            if j < 0:
                return None
            cur, has, i = cur + cmd[i + 1:j], True, j
        elif c == '"':
            i += 1
            while i < n and cmd[i] != '"':
                if cmd[i] in "$`":
                    return None
                if cmd[i] == "\\" and i + 1 < n and cmd[i + 1] in '"\\$`':
                    i += 1
                cur += cmd[i]
                i += 1
            if i >= n:
                return None
            has = True
        elif c == "\\":
            if i + 1 >= n:
                return None
            cur, has, i = cur + cmd[i + 1], True, i + 1
        elif c == "<":
            if has:
                words.append(cur)
            words.append("<")
            cur, has = "", False
        elif c in "();&|`$*?[]{}~#!>":
            return None
        else:
            cur, has = cur + c, True
        i += 1
    if has:
        words.append(cur)
    return words


def _opt_values(tokens, shorts, longs):
    """values of `-o X`, `--opt X`, `--opt=X` among shell tokens"""
    res, i = [], 0
    while i < len(tokens):
        t_ = tokens[i]
        if t_ in shorts or t_ in longs:
            if i + 1 < len(tokens):
                res.append(tokens[i + 1])
            i += 2
            continue
        for l_ in longs:
            if t_.startswith(l_ + "="):
                res.append(t_[len(l_) + 1:])
        i += 1
    return res


def _header_tokens(script, tag):
    import shlex
    toks = []
    try:
        for line in open(script, errors="replace"):
            if line.startswith(tag):
                try:
                    toks += shlex.split(line[len(tag):])
                except ValueError:
                    toks += line[len(tag):].split()
    except OSError:
        pass
    return toks


def run_submit(case, scratch):
    """One submit case against the real adapter; returns the observation."""
    I = _impl()
    base = os.path.join(scratch, "s")
    shutil.rmtree(base, ignore_errors=True)
    root = os.path.join(base, *(NEST[:-1] + (case.get("root") or "study",)))
    obs = {"exc": None, "phase": None, "ws": None, "cwd": None, "outs": [], "started": 0, "where": None,
           "script": None, "script_real": None}
    ws = script = None
    try:
        with SubmitStubs() as stubs:
            phase = "setup"
            try:
                from maestrowf.datastructures.core import StudyStep
                parts = [case["step"]] + ([case["nick"] or case["combo"]] if case["combo"] else [])
                ws = I["utils"].make_safe_path(root, *parts)
                os.makedirs(ws)
                step = StudyStep()
                step.name = case["step"] + ("_" + case["combo"] if case["combo"] else "")
                if case["nick"]:
                    step.nickname = case["nick"]
                step.description = "generated by the C10 check"
                step.run.update(case["run"])
                step.run["cmd"] = ("$(LAUNCHER) true" if case.get("launcher") and case["backend"] != "local" and
                                   (step.run.get("procs") or step.run.get("nodes")) else "true")
                be = case["backend"]
                batch = dict(SUB_BATCH)
                if case.get("batch_reservation"):
                    batch["reservation"] = case["batch_reservation"]
                if be == "local":
                    adapter = I["Factory"].get_adapter("local")()
                elif be.startswith("flux:"):
                    adapter = I["Factory"].get_adapter("flux")(version=be[5:], **batch)
                elif be.startswith("fluxif:"):
                    adapter = None
                else:
                    adapter = I["Factory"].get_adapter(be)(**batch)
                if adapter is None:
                    # an interface class the factory does not offer here: call its submit the way
                    # FluxScriptAdapter.submit does (nodes, procs, cores per task, path, cwd, walltime seconds)
                    import importlib
                    m = importlib.import_module("maestrowf.interfaces.script._flux." + be[7:])
                    cls = [v for v in vars(m).values() if isinstance(v, type) and "submit" in vars(v) and
                           getattr(v, "__module__", "") == m.__name__][0]
                    script = os.path.join(ws, step.name + ".flux.sh")
                    open(script, "w").write("#!/bin/bash\ntrue\n")
                    wt = step.run.get("walltime")
                    secs = 600 if isinstance(wt, str) and ":" in wt else (int(float(wt) * 60) if str(wt).isdigit() else 0)
                    phase = "submit"
                    cls.submit(int(step.run.get("nodes") or 1), int(step.run.get("procs") or 1), 1, script, ws, secs,
                               ngpus=int(step.run.get("gpus") or 0), job_name=step.name,
                               force_broker=bool(step.run.get("nested")), waitable=False)
                else:
                    phase = "write_script"
                    _, script, _ = adapter.write_script(ws, step)
                    del stubs.procs[:], stubs.jobspecs[:], stubs.opened[:]
                    phase = "submit"
                    adapter.submit(step, script, ws)
            except Exception as e:
                obs["exc"], obs["phase"] = "%s: %s" % (type(e).__name__, str(e)[:120].replace(root, ROOT)), phase
            procs, jobspecs, opened = list(stubs.procs), list(stubs.jobspecs), list(stubs.opened)
        canon = lambda p: p if p is None else _canon(str(p), root, "")     # noqa: E731
        obs["ws"], obs["script_real"] = canon(ws), canon(script)
        obs["started"] = len(procs) + len(jobspecs)
        if jobspecs:
            js = jobspecs[-1]
            obs["where"] = "jobspec.cwd"
            obs["cwd"] = canon(js.cwd)
            obs["outs"] = [canon(str(x).replace("{{id}}", "4711")) for x in (js.stdout, js.stderr) if x]
            cmdl = list(js.command) if isinstance(js.command, (list, tuple)) else [js.command]
            obs["script"] = canon(cmdl[-1]) if cmdl else None
        elif procs:
            cmd, kw_cwd, shell = procs[-1]
            if isinstance(cmd, (list, tuple)):
                toks = [str(c) for c in cmd]
            elif shell:
                toks = shell_words(cmd)          # None: a shell does not read this line as literal words
            else:
                toks = [cmd]                     # shell=False with a string: the program path itself
            obs["cmd"] = (cmd if isinstance(cmd, str) else " ".join(map(str, cmd))).replace(root, ROOT)[:300]
            obs["shell"] = shell
            if toks:
                prog = os.path.basename(toks[0])
                dirs, outs = [], []
                if prog == "sbatch":
                    htoks = _header_tokens(script, "#SBATCH") if script else []
                    dirs = _opt_values(htoks, ("-D",), ("--chdir", "--workdir")) + \
                        _opt_values(toks, ("-D",), ("--chdir", "--workdir"))
                    outs = _opt_values(htoks + toks, ("-o", "-e"), ("--output", "--error"))
                    pos = _positional_words(toks[1:], ("-D", "--chdir", "--workdir", "--reservation", "-o", "-e",
                                                       "--output", "--error"))
                    obs["script"] = canon(pos[0]) if pos else None
                elif prog == "bsub":
                    htoks = _header_tokens(script, "#BSUB") if script else []
                    dirs = _opt_values(htoks, ("-cwd",), ()) + _opt_values(toks, ("-cwd",), ())
                    outs = _opt_values(htoks + [x for x in toks if x != "<"], ("-o", "-e", "-oo", "-eo"), ())
                    obs["script"] = canon(toks[toks.index("<") + 1]) if "<" in toks[:-1] else None
                else:
                    obs["script"] = canon(toks[0])
                if dirs:                     # the command line wins over the header, the last option wins
                    d = dirs[-1]
                    obs["where"] = "directory option"
                    obs["cwd"] = canon(d if os.path.isabs(d) or kw_cwd is None else os.path.join(kw_cwd, d))
                    if not os.path.isabs(d) and kw_cwd is None:
                        obs["cwd"] = None
                else:
                    obs["where"] = "cwd keyword"
                    obs["cwd"] = canon(kw_cwd)
                obs["outs"] = [canon(o.replace("%J", "4711").replace("%j", "4711")) for o in outs] + \
                    [canon(o) for o in opened]
            else:
                obs["where"] = "unreadable shell command line"
                obs["cwd"] = canon(kw_cwd)
    except Exception as e:               # the stubs themselves against a mutated tree
        obs["exc"], obs["phase"] = obs["exc"] or ("harness:" + type(e).__name__), obs["phase"] or "harness"
    finally:
        shutil.rmtree(base, ignore_errors=True)
    return obs


def _positional_words(tokens, with_value):
    res, i = [], 0
    while i < len(tokens):
        t_ = tokens[i]
        if t_ in with_value:
            i += 2
        elif t_.startswith("-"):
            i += 1
        else:
            res.append(t_)
            i += 1
    return res


def submit_judged(o):
    """A case is judged when the workspace and the script exist and submit was reached
    (it started something or raised); set-up / header problems belong to other properties."""
    return bool(o["ws"] and o["script_real"] and (o["started"] or o["phase"] == "submit"))


def gallina_submit(obs):
    raised = obs["phase"] == "submit" and obs["exc"] is not None
    return "mksobs %s %s %s %s %s %s" % (G.g_str(obs["ws"] or ""), G.g_bool(raised), g_ostr(obs["cwd"]),
                                         g_strs(obs["outs"]), g_ostr(obs["script"]), G.g_str(obs["script_real"] or ""))


def run_submit_stream(ck, rng, hist, corpus=()):
    """Returns the number of cases; reports violations through ck."""
    cases = [strip(c) for c in corpus] + gen_submit_cases(rng, ck.tier)
    scratch = os.path.join(common.WORK, "C10_submit_run")
    shutil.rmtree(scratch, ignore_errors=True)
    os.makedirs(scratch)
    try:
        obss = [run_submit(c, scratch) for c in cases]
    finally:
        shutil.rmtree(scratch, ignore_errors=True)
    judged = [(c, o) for c, o in zip(cases, obss) if submit_judged(o)]
    for c, o in zip(cases, obss):
        key = "submit:%s:%s" % (c["backend"], "raised in %s: %s" % (o["phase"], (o["exc"] or "").split(":")[0])
                                 if o["exc"] and not o["started"] else "started via " + str(o["where"]))
        hist[key] = hist.get(key, 0) + 1
        key = "submit-name:%s%s" % ("hashed " if c["nick"] else "", c["combo"] if c["combo"] else c["step"])
        hist[key] = hist.get(key, 0) + 1
        key = "submit-root:" + str(c.get("root"))
        hist[key] = hist.get(key, 0) + 1
        ck.count("submit|" + json.dumps([c["backend"], sorted(c["run"].items(), key=str), c["nick"] is not None],
                                        default=str), nontrivial=bool(o["started"]))
    lits = [gallina_submit(o) for _, o in judged]
    bad, errs = common.coq_failing("C10_submit", HEADER, "sobs", "submit_ok", lits)
    for i in bad:
        c, o = judged[i]
        ck.violation("submit of %s for instance %r (workspace %r, run keys %s): %s" %
                     (c["backend"], c["step"] + ("_" + c["combo"] if c["combo"] else ""), o["ws"],
                      json.dumps(c["run"], sort_keys=True, default=str),
                      ("raised " + o["exc"]) if o["exc"] and o["phase"] == "submit" else
                      "job not started in the workspace (effective working directory %r via %s), or a stdout/stderr "
                      "target %r is not a file directly in it, or the launcher is pointed at %r instead of the script" %
                      (o["cwd"], o["where"], o["outs"], o["script"])),
                     dict(c, observed=o))
    for e in errs:
        ck.mismatch("coqc failed on cases file " + os.path.basename(e[0]), None, e[1])
    never = sorted({c["backend"] for c in cases} - {c["backend"] for c, _ in judged})
    for be in never:
        ck.mismatch("submit stream: no job of back-end %s was ever started (all raised)" % be,
                    None, json.dumps([o["exc"] for c, o in zip(cases, obss) if c["backend"] == be][:8]))
    hist["submit_cases"] = len(cases)
    hist["submit_judged"] = len(judged)
    for c, o in judged[:2]:
        ck.sample({"submit_case": c, "observed": o}, limit=5)
    return len(cases)


# ----------------------------------------------------------------------------
# evaluation
# ----------------------------------------------------------------------------
def load_corpus():
    res = []
    for p in sorted(glob.glob(os.path.join(common.CORPUS, PID, "*.json"))):
        j = json.load(open(p))
        j["_file"] = os.path.relpath(p, common.VERIF)
        res.append(j)
    return res


def strip(case):
    return {k: v for k, v in case.items() if not k.startswith("_")}


def describe(case, obs):
    insts = expected_instances(case)
    return "%d steps, %d instances, hashws=%s usetmp=%s adapter=%s exc=%s" % (
        len(case["steps"]), len(insts), bool(case.get("hashws")), bool(case.get("usetmp")),
        case["adapter"], obs.get("exc"))


FNS = ["case_fine", "case_wf", "case_agree", "case_tree", "case_monitor", "case_h10",
       "f_collide", "f_slash", "f_degenerate"]


def coq_failing_multi(tag, ty, fns, lits, shard):
    """Like common.coq_failing, but several boolean functions over the same
    cases in one pass (elaborating the literals dominates the cost).  Returns
    ({fn: set(bad indices)}, errors)."""
    import re
    d = os.path.join(common.WORK, tag)
    shutil.rmtree(d, ignore_errors=True)
    os.makedirs(d)
    files = []
    for k in range(0, len(lits), shard):
        path = os.path.join(d, "cases_%d.v" % (k // shard))
        with open(path, "w") as f:
            f.write(HEADER + "\nFrom MWF Require Import Base.Util.\n")
            f.write("Definition the_cases : list (%s) := [\n" % ty)
            f.write(";\n".join("  " + c for c in lits[k:k + shard]))
            f.write("\n].\n")
            for fn in fns:
                f.write("Eval vm_compute in (failing (%s) the_cases).\n" % fn)
        files.append((k, path))
    from concurrent.futures import ThreadPoolExecutor
    with ThreadPoolExecutor(max_workers=common.NCPU) as ex:
        outs = list(ex.map(lambda kp: common.coqc_file(kp[1], timeout=900), files))
    bad = {fn: set() for fn in fns}
    errors = []
    for (k, path), (rc, out) in zip(files, outs):
        blocks = re.findall(r"=\s*(\[[^\]]*\]|nil)\s*:\s*list nat", out, re.S) if rc == 0 else []
        if len(blocks) != len(fns):
            errors.append((path, out[-3000:]))
            continue
        for fn, body in zip(fns, blocks):
            body = body.strip()
            if body == "nil":
                continue
            body = body[1:-1].strip()
            if body:
                bad[fn].update(k + int(x) for x in re.split(r"\s*;\s*", body))
    return bad, errors


def evaluate_studies(tag, cases, obss, shard=40):
    """One pass inside Coq.  Returns (indices that are not fine, {index: {fn: holds?}}, errors)."""
    lits = [gallina_case(c, o) for c, o in zip(cases, obss)]
    bad, errs = coq_failing_multi(tag, "ccase", FNS, lits, shard)
    notfine = sorted(bad["case_fine"])
    detail = {i: {fn: i not in bad[fn] for fn in FNS} for i in notfine}
    return notfine, detail, errs


def model_text(case, obs):
    lit = gallina_case(case, obs)
    return common.coq_eval("C10_model", HEADER,
                           "let c := %s in (o_insts (model_obs (lookup (c_md5 c)) (c_study c)), "
                           "tree_of (model_obs (lookup (c_md5 c)) (c_study c)))" % lit)[-6000:]


def classify(ck, case, obs, d, report=True, known=None):
    """Verdict for one case that is not fine.  Returns 'known', 'violation' or 'mismatch'.
    A failing monitor is excused only by a signature that holds of the case AND
    is listed in KNOWN_FINDINGS.txt."""
    known = known_table(ck) if known is None else known
    cj = dict(strip(case), observed=obs)
    sigs = [k for k in SIGS if not d["f_" + k] and k in known]
    if not d["case_wf"]:
        if report:
            ck.mismatch("harness generated a case that is not well-formed (wf_study false)", cj)
        return "mismatch"
    if not d["case_monitor"]:
        if sigs:
            if report:
                for k in sigs:
                    ck.known_hit(*known[k])
                if not d["case_agree"]:
                    ck.mismatch("known-finding case, but model and implementation disagree on the paths: " +
                                describe(case, obs), cj, model_text(case, obs))
            return "known" if d["case_agree"] else "mismatch"
        if report:
            ck.violation("C10_ok false on the implementation's paths, no known-finding signature: " +
                         describe(case, obs), cj)
        return "violation"
    if report:
        what = "model and implementation disagree on " + ("the paths" if not d["case_agree"] else "the directory tree")
        ck.mismatch(what + ": " + describe(case, obs), cj, model_text(case, obs))
    return "mismatch"


def shape_key(case):
    insts = expected_instances(case)
    return json.dumps([[(i["step"], i["combo"]) for i in insts], case.get("hashws"), case.get("usetmp"),
                       case["adapter"], case.get("exec"), case.get("root_slash")], sort_keys=True, default=str)


def generate(ck, rng, tier, hist):
    n_valid, n_exotic = (4500, 2500) if tier == "thorough" else (260, 140)
    cases = []
    for stream, n in (("valid", n_valid), ("exotic", n_exotic)):
        k = 0
        while k < n:
            c = gen_study(rng, stream)
            if not case_ok_to_run(c):
                continue
            cases.append(c)
            k += 1
    return cases


def account(ck, cases, obss, hist):
    for c, o in zip(cases, obss):
        insts = expected_instances(c)
        ck.count(shape_key(c), nontrivial=len(insts) >= 2)
        for key in ("stream:" + c.get("stream", "?"), "adapter:" + c["adapter"],
                    "hashws:%s" % bool(c.get("hashws")), "usetmp:%s" % bool(c.get("usetmp")),
                    "exec:%s" % bool(c.get("exec")), "instances:%d" % min(len(insts), 9),
                    "raised:%s" % (o.get("exc") or "no")):
            hist[key] = hist.get(key, 0) + 1


def run_cases(cases, tag):
    scratch = os.path.join(common.WORK, tag)
    shutil.rmtree(scratch, ignore_errors=True)
    os.makedirs(scratch)
    try:
        return [run_study(c, scratch) for c in cases]
    finally:
        shutil.rmtree(scratch, ignore_errors=True)


def run(ck):
    built = ck.build_proofs(extra_targets=["theories/Expand/PathGenProofs.vo"])
    if not built:
        # the model itself has no proofs in it: keep the correspondence running
        common.coq_make(["theories/Expand/SafePath.vo"])
    rng = random.Random(ck.seed)
    hist = {}
    t0 = time.time()
    corpus_all = load_corpus()
    corpus = [c for c in corpus_all if c.get("kind") != "submit"]
    gen = generate(ck, rng, ck.tier, hist)
    cases = corpus + gen
    obss = run_cases(cases, "C10_run")
    ck.notes["impl_seconds"] = round(time.time() - t0, 1)
    account(ck, cases, obss, hist)
    for c, o in zip(cases, obss):
        for s_ in o["sanity"]:
            ck.mismatch("harness sanity: " + s_, dict(strip(c), observed=o))
    t1 = time.time()
    bad, detail, errs = evaluate_studies("C10_cases", cases, obss)
    seen_known = {}
    for i in bad:
        v = classify(ck, cases[i], obss[i], detail[i])
        if v == "known":
            for k in SIGS:
                if not detail[i]["f_" + k]:
                    seen_known[k] = seen_known.get(k, 0) + 1
    # corpus expectations: a known-finding witness that no longer fails is only noted
    for i, c in enumerate(corpus):
        exp = c.get("_expect", "pass")
        failed = i in detail
        if exp.startswith("known") and not failed:
            ck.notes.setdefault("witness_no_longer_fails", []).append(c["_file"])
    hist["known_finding_cases"] = seen_known
    for c, o in list(zip(cases, obss))[len(corpus):]:
        if len(expected_instances(c)) >= 3:
            ck.sample({"case": strip(c), "workspaces": {k: r["ws"] for k, r in o["records"].items()},
                       "scripts": {k: r["script"] for k, r in o["records"].items()}}, limit=3)
    # path functions and the sanitiser itself
    pc = gen_path_cases(rng, ck.tier)
    lits = ["(%s, %s, %s, %s)" % (G.g_str(a), g_strs(bs), G.g_str(j), G.g_str(n)) for a, bs, j, n in pc]
    badp, e2 = common.coq_failing("C10_paths", HEADER, "str * list str * str * str", "pathcase_fine", lits)
    for i in badp[:5]:
        a, bs, j, n = pc[i]
        ck.mismatch("posixpath.join/normpath differ from the model", {"a": a, "bs": bs, "join": j, "normpath": n})
    sc = gen_sanit_cases(rng, ck.tier)
    lits = ["(%s, %s, %s)" % (G.g_str(a), g_strs(bs), G.g_str(r)) for a, bs, r in sc]
    bads, e3 = common.coq_failing("C10_sanit", HEADER, "str * list str * str", "sancase_fine", lits)
    for i in bads[:5]:
        a, bs, r = sc[i]
        ck.mismatch("make_safe_path differs from the model", {"base": a, "args": bs, "result": r})
    n_submit = run_submit_stream(ck, rng, hist, [c for c in corpus_all if c.get("kind") == "submit"])
    for k in range(len(pc)):
        ck.count("p%d" % k, nontrivial=False)
    for k in range(len(sc)):
        ck.count("s%d" % k, nontrivial=False)
    hist["path_cases"] = len(pc)
    hist["sanitiser_cases"] = len(sc)
    for e in errs + e2 + e3:
        ck.mismatch("coqc failed on cases file " + os.path.basename(e[0]), None, e[1])
    ck.notes["coq_seconds"] = round(time.time() - t1, 1)
    from translate import regen
    ck.notes["tdata"] = regen.status().get("tdata_misc")
    try:       # structural facts the hand-written model hard-wires that the source no longer shows (advisory)
        ck.notes["tdata_advisory"] = json.load(open(os.path.join(common.WORK, "tdata_misc_notes.json")))
    except (OSError, ValueError):
        ck.notes["tdata_advisory"] = None
    ck.notes["known_signatures"] = {k: v[0] for k, v in known_table(ck).items()}
    ck.cov["rule"] = (
        "corpus; seeded studies built from YAML like `maestro run` does (1-4 steps, 0-3 parameters x 1-4 rows, label "
        "templates, ordinary/funnel dependencies, restart commands; hashws/usetmp/adapter local|slurm|lsf|flux, dry run or "
        "real local execution, root with/without trailing slash), valid stream over the characters the sanitiser keeps, "
        "exotic stream with spaces, slashes, dots, quotes, signs, unicode, '..', empty-sanitising strings and exotic step "
        "names; staged and executed with the real adapters.  Compared with the model inside Coq: every workspace, every "
        "script/restart path write_script opened and returned, every .out/.err path submit opened, the directory tree; "
        "C10_ok evaluated on the implementation's paths; a failing monitor is excused only by a signature predicate "
        "(sig_collide / sig_slash / sig_degenerate, evaluated in Coq) that is listed in KNOWN_FINDINGS.txt.  Plus posixpath.join/normpath (exhaustive over {/,.,a} up to the "
        "bound, and random) and make_safe_path (every code point < 0x250, random unicode) against the model.  "
        "distinct = (instances, flags); non-trivial = at least two instances")
    ck.cov["rule"] += (
        "  Submit stream: for every back-end (local, slurm, lsf, each flux interface version) the real adapter writes "
        "the script of a generated step and submit(step, script, workspace) runs with the process layer / flux module "
        "stubbed; every optional run key varies (reservation, walltime absent/0/inf/h:m:s, qos, exclusive, gpus, "
        "nodes, procs, cores per task, priority, nested, bank/queue, restart; batch reservation), instance names with "
        "( ) and blanks, raw labels with '/', '..', blanks under --hashws, study directories with blanks, quotes, $ & ; "
        "( ); the stubbed Popen raises FileNotFoundError for a cwd= that is no directory; submit_ok evaluated in Coq: "
        "submit does not raise, the effective working directory (directory option of sbatch/bsub as a POSIX shell reads "
        "the command line, else cwd= keyword; jobspec.cwd) is the workspace, every declared stdout/stderr target is a "
        "file directly in it, the launcher is pointed at the written script")
    ck.cov["traces_validated_against_impl"] = len(cases) + n_submit
    ck.cov["input_distribution"] = hist

    def search():
        r2 = random.Random(ck.seed + 7919)
        more = []
        while len(more) < (1500 if ck.tier == "quick" else 3000):
            c = gen_study(r2, "exotic" if len(more) % 2 else "valid")
            if case_ok_to_run(c):
                more.append(c)
        o2 = run_cases(more, "C10_search")
        b2, d2, _ = evaluate_studies("C10_search_cases", more, o2)
        cands = [i for i in b2 if classify(ck, more[i], o2[i], d2[i], report=False) == "violation"]
        if not cands:
            return None
        i = min(cands, key=lambda i: len(json.dumps(strip(more[i]), default=str)))
        c = shrink(more[i])
        o = run_cases([c], "C10_search_one")[0]
        return ("C10_ok false on the implementation's paths, no known-finding signature: " + describe(c, o),
                dict(strip(c), observed=o))

    return ck.finish(search=search)


def is_violation(case):
    if not case_ok_to_run(case):
        return False
    try:
        expected_instances(case)
    except Exception:
        return False
    o = run_cases([case], "C10_shrink")[0]
    b, d, e = evaluate_studies("C10_shrink_cases", [case], [o])
    return bool(b) and not e and classify(None, case, o, d[0], report=False) == "violation"


def shrink(case):
    """Greedy: drop steps, parameters, rows, flags while it stays a violation."""
    cur = json.loads(json.dumps(strip(case), default=str))
    budget = 25
    changed = True
    while changed and budget > 0:
        changed = False
        cands = []
        for k in range(len(cur["steps"])):
            if len(cur["steps"]) > 1:
                c = json.loads(json.dumps(cur))
                gone = c["steps"].pop(k)["name"]
                for st in c["steps"]:
                    st["depends"] = [d for d in st.get("depends", []) if d not in (gone, gone + "_*")]
                cands.append(c)
        for key in list(cur["params"]):
            c = json.loads(json.dumps(cur))
            del c["params"][key]
            for st in c["steps"]:
                st["uses"] = [u for u in st["uses"] if u != key]
            cands.append(c)
        nrows = len(next(iter(cur["params"].values()))["values"]) if cur["params"] else 0
        for r in range(nrows):
            if nrows > 1:
                c = json.loads(json.dumps(cur))
                for p in c["params"].values():
                    p["values"].pop(r)
                cands.append(c)
        for flag in ("usetmp", "hashws", "exec", "root_slash"):
            if cur.get(flag):
                c = json.loads(json.dumps(cur))
                c[flag] = False
                cands.append(c)
        for c in cands:
            if budget <= 0:
                break
            budget -= 1
            if is_violation(c):
                cur, changed = c, True
                break
    return cur


def replay(ck, path):
    j = json.load(open(path))
    j = j.get("case", j)
    if j is not None and j.get("kind") == "submit":
        case = {k: v for k, v in j.items() if k != "observed"}
        scratch = os.path.join(common.WORK, "C10_replay_submit")
        os.makedirs(scratch, exist_ok=True)
        o = run_submit(case, scratch)
        shutil.rmtree(scratch, ignore_errors=True)
        print("implementation:")
        print(json.dumps(o, indent=1, default=str))
        bad, errs = common.coq_failing("C10_replay_submit_cases", HEADER, "sobs", "submit_ok", [gallina_submit(o)])
        if errs or bad or not submit_judged(o):
            print("VIOLATION property=C10 replay=%s%s" % (path, "" if bad else " no-failing-input-found"))
            return 1
        print("C10 ok (replay): the job is started in the workspace, stdout/stderr stay inside it")
        return 0
    if j is None or "steps" not in j:
        print("replay file holds no study input (broken proof or correspondence without a failing input):")
        print(json.dumps(json.load(open(path)), indent=1)[:4000])
        return 1
    case = {k: v for k, v in j.items() if k != "observed"}
    o = run_cases([case], "C10_replay")[0]
    print("implementation:")
    print(json.dumps(o, indent=1, default=str)[:6000])
    bad, detail, errs = evaluate_studies("C10_replay_cases", [case], [o])
    print("model:")
    print(model_text(case, o))
    for e in errs:
        print("coqc error:", e[1])
    if errs:
        print("VIOLATION property=C10 replay=%s no-failing-input-found" % path)
        return 1
    if not bad:
        print("C10 ok (replay): model agrees, C10_ok holds on the implementation's paths")
        return 0
    d = detail[0]
    print("verdicts:", json.dumps(d))
    v = classify(ck, case, o, d, report=False)
    if v == "known":
        kt = known_table(ck)
        for k in SIGS:
            if not d["f_" + k] and k in kt:
                print("KNOWN-FINDING: property=C10 %s %s" % kt[k])
        return 0
    if v == "violation":
        print("VIOLATION property=C10 replay=%s" % path)
        return 1
    print("VIOLATION property=C10 replay=%s no-failing-input-found" % path)
    return 1

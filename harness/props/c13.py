"""C13 -- malformed specifications are rejected cleanly; accepted ones are usable.

Correspondence between the real front end of maestrowf (/repo)

    YAMLSpecification.load_specification_from_stream (verify inside)
    -> get_study_environment / get_study_steps / get_parameters
    -> (run_study's reserved OUTPUT_PATH / SPECROOT variables)
    -> Study(...) (add_step per step) -> setup + stage() under /verif/_work

and the Gallina model coq/theories/Spec/Verify.v (`verify_and_build`), plus the
monitor `C13_ok` (the predicate Props/C13.v proves of the model) evaluated on
the implementation's outcome.  Everything on the model side runs inside Coq.

A document is a tree (None/bool/int/Flt/str/list/Obj); `Obj` is an association
list and MAY repeat keys (YAML can say that; the loader merges them).  It is
written out as flow-style YAML text with every string and key quoted, so the
text means exactly the tree.

Observable of a case = outcome class + step names:
    A  accepted: keys of Study.values (without _source), in order
    D  clean rejection: jsonschema.ValidationError, ValueError, or a bare
       `Exception(msg)` raised on purpose
    I  internal error: anything else (KeyError, TypeError, AttributeError, ...)
plus, separately, jsonschema.Draft7Validator(schema).is_valid(section) for the
description, env, every step and every parameter (validates the Gallina schema
interpreter `Schema.valid` on the regenerated schema, same stream).

Streams:
  corpus     corpus/C13/*.json (always first): witnesses of the repaired
             defects and of the known finding
  samples    /repo/samples/**/*.yaml and tests/specification/test_specs/*
  valid      generated valid specifications over the full range of values the
             schema admits per key (every priority string of the schema's enum,
             numbers in [0,1], ints / "$(VAR)" for the resource keys, ...)
  exh        EVERY single-point mutation of a small full-featured document:
             at every node: delete, replace by every value of the pool
             (retype), empty string, repeat the key; add an unknown key to
             every mapping; repeat every list item
  mut        seeded structural mutations (1-2 per document) of samples and of
             generated valid documents: delete / rename / retype / duplicate a
             key or item at a random depth, plus the semantic ones (self /
             undefined / forward dependency, duplicate step, value-list length,
             label list, duplicate dependency / variable-label names, reserved
             names)
  exotic     top level not a mapping, odd-but-typed values, unicode
  interp     random values against every sub-schema (interpreter vs jsonschema)
  rawkey     YAML texts with ONE key that is not a string (1 / true / null / 1.5
             / ON) at every key position of the small documents, and added to
             every mapping: outside the model's document type, Python-side part
             of the monitor only (never Internal; accepted => the text's steps)
  cli        a sample of the documents above (every corpus witness, accepted
             ones inside the staging hygiene domain, rejected ones round-robin
             over every kind of diagnostic seen: exception type x phase x message
             stem) written to disk and run through the REAL command line in a
             sub-process: `maestro run -y -fg --dry -o OUT spec.yaml` via
             harness/e2e_launcher.py (maestrowf.maestro.main, time.sleep
             stubbed).  Outcome from the process: A = exit 0 and the study was
             staged; D = non-zero exit and every traceback on stderr is a
             ValidationError / ValueError / bare Exception (or none at all);
             I = a traceback of any other exception type.  Compared with the
             model's class (= the library's class, the case having passed the
             correspondence); I where the model says Diag = VIOLATION; D where the
             model accepts = VIOLATION (an accepted spec that cannot be staged).
  reserved   accepted-by-design documents with OUTPUT_PATH (and SPECROOT,
             WORKSPACE, LAUNCHER) in every admissible place and form: first /
             later variable, value mentioning $(OTHER) (classified as a label),
             number, under env.labels, both, a path dependency, absent; through
             the library AND through the command line with and without -o.
  shape      every kind of line the schema admits at the free-text places of the
             environment (env.sources entries, label / variable values, path
             dependency name / path, git url / path): starting with . / [ $( ~ a
             blank, a tab, a quote, a non-ASCII symbol, -, (, {, #; without any
             word character; empty.  Library + model, and the accepted ones
             inside the hygiene domain through the command line.
  alias      two steps (or two parameters) sharing ONE mapping through a YAML
             anchor / alias (the loader returns the same dict for both).
  desc       the description block with extra keys of every type (int, float,
             bool, null, list, mapping, empty / unicode / multi-line string; as raw
             texts also date, timestamp, hex, inf, nan, binary, set), each under
             every logging configuration.
  Logging is a dimension of every case: "default" (quiet library use), "info"
  (what `maestro run` sets up by default, -d 2) and "debug" (-d 1): root and
  maestrowf loggers at that level with a formatting handler on a sink.  The
  configuration alternates over the cases (a tag ending @log=<level> fixes it),
  is stored in the case and honoured by --replay.
  On every document the three accessors are called TWICE on the loaded
  specification and must answer the same (non-destructive), env.sources must
  come back verbatim and in order, and every step of the built Study must have
  exactly the parents its `depends` names (_source when none); a difference is
  reported as the internal-error class with the reason in the detail.
  enums      every priority string of the schema (and others) through the real
             StepPriority.from_str and FluxInterface_0490.get_flux_urgency;
             numbers n/d in [0,1] through the numeric branch
"""
import collections
import copy
import decimal
import glob
import io
import json
import os
import random
import shutil
import sys
import time

from harness import common

PID = "C13"
WORKDIR = os.path.join(common.WORK, "c13")
CORPUS = os.path.join(common.CORPUS, PID)

HEADER = """From Coq Require Import List ZArith NArith Bool Arith.
From MWF Require Import Base.Str Spec.Json Spec.Schema Gen.SpecData Spec.Verify.
Import ListNotations.
Definition A_ := Accept.
Definition D_ := Reject (Diag DTop).
Definition I_ := Reject Internal.
Definition O_ := JObj.
Definition L_ := JArr.
Definition S_ := JStr.
Definition Z_ := JInt.
Definition F_ := JFlt.
Definition T_ := JBool true.
Definition B_ := JBool false.
Definition N_ := JNull.
Fixpoint bools_eqb (a b : list bool) : bool :=
  match a, b with
  | [], [] => true
  | x :: a', y :: b' => Bool.eqb x y && bools_eqb a' b'
  | _, _ => false
  end.
(* what jsonschema is asked about, section by section *)
Definition schema_bits (doc : jv) : list bool :=
  match yaml_load doc with
  | JObj l =>
      [valid DESCRIPTION (getd (s "description") (JObj []) l);
       valid ENV (getd (s "env") default_env l)] ++
      map (valid STUDY_STEP) (arr_items (getd (s "study") (JArr []) l)) ++
      map (fun kv => valid PARAM (snd kv)) (obj_items (getd (s "global.parameters") (JObj []) l))
  | _ => []
  end.
(* sig_K5 (Verify.v): signature of the known finding K5 *)
(* a case: document, implementation outcome, (jsonschema bits, compare-with-model?) *)
Definition case_ok (c : jv * result * (list bool * bool)) : bool :=
  let '(doc, obs, (js, cmp)) := c in
  (negb cmp || result_eqb (verify_and_build doc) obs) &&
  C13_ok doc obs &&
  bools_eqb (schema_bits doc) js.
Definition case_corr (c : jv * result * (list bool * bool)) : bool :=
  let '(doc, obs, (js, cmp)) := c in
  (negb cmp || result_eqb (verify_and_build doc) obs) && bools_eqb (schema_bits doc) js.
Definition case_mon (c : jv * result * (list bool * bool)) : bool :=
  let '(doc, obs, _) := c in C13_ok doc obs.
Definition case_notk5 (c : jv * result * (list bool * bool)) : bool :=
  let '(doc, obs, _) := c in negb (sig_K5 doc obs).
Definition case_model_rejects (c : jv * result * (list bool * bool)) : bool :=
  let '(doc, _, _) := c in match verify_and_build doc with Accept _ => false | _ => true end.
Definition case_detail (c : jv * result * (list bool * bool)) :=
  let '(doc, obs, (js, cmp)) := c in
  (verify_and_build doc, (C13_ok doc obs, sig_K5 doc obs), schema_bits doc).
Definition section (i : nat) : schema :=
  match i with 0 => DESCRIPTION | 1 => PARAM | 2 => STUDY_STEP | _ => ENV end.
(* interpreter case: section, path into the schema, value, jsonschema's verdict *)
Definition interp_ok (c : nat * path * jv * bool) : bool :=
  let '(i, p, v, js) := c in
  match schema_at (section i) p with
  | Some sc => Bool.eqb (valid sc v) js
  | None => false
  end.
Definition K_ := PKey.
Definition X_ := PIdx.
"""

SECTION_IDX = {"DESCRIPTION": 0, "PARAM": 1, "STUDY_STEP": 2, "ENV": 3}


# ----------------------------------------------------------------------------
# documents
# ----------------------------------------------------------------------------
class Obj(object):
    __slots__ = ("kv",)

    def __init__(self, kv=()):
        self.kv = [(k, v) for k, v in kv]

    def get(self, k, d=None):
        r = d
        for k2, v in self.kv:
            if k2 == k:
                r = v
        return r

    def keys(self):
        return [k for k, _ in self.kv]

    def set(self, k, v):
        """replace every occurrence, append if absent"""
        hit = False
        for i, (k2, _) in enumerate(self.kv):
            if k2 == k:
                self.kv[i] = (k, v)
                hit = True
        if not hit:
            self.kv.append((k, v))

    def delete(self, k):
        self.kv = [(a, b) for a, b in self.kv if a != k]

    def __repr__(self):
        return "Obj(%r)" % (self.kv,)


Flt = collections.namedtuple("Flt", "m e")       # m / 10**e


class Raw(str):
    """a mapping key written WITHOUT quotes (1, true, null, 1.5): YAML makes it
    an int / bool / None / float key.  Outside the model's document type (keys
    are strings there): only for the raw-text stream."""
    __slots__ = ()


def O(**kw):
    return Obj(list(kw.items()))


def shared_objs(d):
    """ids of the Obj nodes that occur more than once in the tree (one Python
    object in several places = a YAML anchor and its aliases)"""
    seen, rep = set(), set()

    def walk(x):
        if isinstance(x, Obj):
            if id(x) in seen:
                rep.add(id(x))
                return
            seen.add(id(x))
            for _, v in x.kv:
                walk(v)
        elif isinstance(x, list):
            for v in x:
                walk(v)
    walk(d)
    return rep


def to_json(d, _rep=None, _num=None):
    if _rep is None:
        _rep, _num = shared_objs(d), {}
    if isinstance(d, Obj):
        if id(d) in _num:
            return {"$ref": _num[id(d)]}
        j = {}
        if id(d) in _rep:
            _num[id(d)] = len(_num)
            j["$id"] = _num[id(d)]
        j["$obj"] = [[k, to_json(v, _rep, _num)] for k, v in d.kv]
        return j
    if isinstance(d, Flt):
        return {"$flt": [d.m, d.e]}
    if isinstance(d, list):
        return [to_json(x, _rep, _num) for x in d]
    return d


def from_json(j, _ids=None):
    if _ids is None:
        _ids = {}
    if isinstance(j, dict):
        if "$ref" in j:
            return _ids[j["$ref"]]
        if "$obj" in j:
            o = Obj()
            if "$id" in j:
                _ids[j["$id"]] = o
            o.kv = [(k, from_json(v, _ids)) for k, v in j["$obj"]]
            return o
        if "$flt" in j:
            return Flt(int(j["$flt"][0]), int(j["$flt"][1]))
        raise ValueError("bad document encoding")
    if isinstance(j, list):
        return [from_json(x, _ids) for x in j]
    return j


class Unsupported(Exception):
    pass


def from_python(x):
    """a yaml-loaded python value as a document tree"""
    if x is None or isinstance(x, (bool, str)):
        return x
    if isinstance(x, int):
        return x
    if isinstance(x, float):
        if x != x or x in (float("inf"), float("-inf")):
            raise Unsupported("non-finite float")
        d = decimal.Decimal(repr(x))
        sign, digits, exp = d.as_tuple()
        m = int("".join(map(str, digits)) or "0") * (-1 if sign else 1)
        if exp > 0:
            m, exp = m * 10 ** exp, 0
        if -exp > 300:
            raise Unsupported("tiny float")
        return Flt(m, -exp)
    if isinstance(x, list):
        return [from_python(i) for i in x]
    if isinstance(x, dict):
        if not all(isinstance(k, str) for k in x):
            raise Unsupported("non-string key")
        return Obj([(k, from_python(v)) for k, v in x.items()])
    raise Unsupported("type %s" % type(x).__name__)


def y_str(s):
    out = ['"']
    for c in s:
        o = ord(c)
        if c == '"':
            out.append('\\"')
        elif c == "\\":
            out.append("\\\\")
        elif 32 <= o < 127:
            out.append(c)
        elif o < 256:
            out.append("\\x%02x" % o)
        elif o < 65536:
            out.append("\\u%04x" % o)
        else:
            out.append("\\U%08x" % o)
    out.append('"')
    return "".join(out)


def flt_text(f):
    m, e = f
    sign = "-" if m < 0 else ""
    digits = str(abs(m))
    if e == 0:
        return sign + digits + ".0"
    digits = digits.rjust(e + 1, "0")
    return sign + digits[:-e] + "." + digits[-e:]


def to_yaml(d, _rep=None, _num=None):
    """flow-style YAML; an Obj occurring several times in the tree is written
    once with an anchor and then as aliases (the loader returns ONE dict)"""
    if _rep is None:
        _rep, _num = shared_objs(d), {}
    if d is None:
        return "null"
    if d is True:
        return "true"
    if d is False:
        return "false"
    if isinstance(d, int):
        return str(d)
    if isinstance(d, Flt):
        return flt_text(d)
    if isinstance(d, str):
        return y_str(d)
    if isinstance(d, list):
        return "[" + ", ".join(to_yaml(x, _rep, _num) for x in d) + "]"
    if isinstance(d, Obj):
        if id(d) in _num:
            return "*a%d " % _num[id(d)]
        pre = ""
        if id(d) in _rep:
            _num[id(d)] = len(_num)
            pre = "&a%d " % _num[id(d)]
        return pre + "{" + ", ".join("%s: %s" % (str(k) if isinstance(k, Raw) else y_str(k), to_yaml(v, _rep, _num))
                                     for k, v in d.kv) + "}"
    raise TypeError(type(d))


def g_s(x):
    if all(32 <= ord(c) < 127 and c != '"' for c in x):
        return '(s "%s")' % x
    # printable runs as literals, the rest as code points
    parts, run = [], []
    for c in x:
        if 32 <= ord(c) < 127 and c != '"':
            run.append(c)
        else:
            if run:
                parts.append('s "%s"' % "".join(run))
                run = []
            parts.append("[%d%%N]" % ord(c))
    if run:
        parts.append('s "%s"' % "".join(run))
    return "(" + " ++ ".join(parts) + ")"


def g_jv(d):
    if d is None:
        return "N_"
    if d is True:
        return "T_"
    if d is False:
        return "B_"
    if isinstance(d, int):
        return "(Z_ (%d)%%Z)" % d
    if isinstance(d, Flt):
        return "(F_ (%d)%%Z %d%%nat)" % (d.m, d.e)
    if isinstance(d, str):
        return "(S_ %s)" % g_s(d)
    if isinstance(d, list):
        return "(L_ [" + "; ".join(g_jv(x) for x in d) + "])"
    if isinstance(d, Obj):
        return "(O_ [" + "; ".join("(%s, %s)" % (g_s(k), g_jv(v)) for k, v in d.kv) + "])"
    raise TypeError(type(d))


def g_result(obs):
    if obs[0] == "A":
        return "(A_ [" + "; ".join(g_s(n) for n in obs[1]) + "])"
    return "D_" if obs[0] == "D" else "I_"


def g_path(p):
    return "[" + "; ".join(("K_ %s" % g_s(x)) if isinstance(x, str) else ("X_ %d" % x) for x in p) + "]"


def all_strings(d):
    if isinstance(d, str):
        yield d
    elif isinstance(d, list):
        for x in d:
            for s in all_strings(x):
                yield s
    elif isinstance(d, Obj):
        for k, v in d.kv:
            yield k
            for s in all_strings(v):
                yield s


def loaded(d):
    """what yaml.load makes of the tree (python dicts: first position, last value)"""
    if isinstance(d, Obj):
        r = {}
        for k, v in d.kv:
            r[k] = loaded(v)
        return r
    if isinstance(d, list):
        return [loaded(x) for x in d]
    if isinstance(d, Flt):
        return float(flt_text(d))
    return d


def h_word(d):
    """hypothesis H_word: every non-ASCII code point of the document is
    non-alphanumeric (the model's \\w -- Json.is_word -- is ASCII; Python's also
    accepts the other Unicode alphanumerics).  Outside it the Gallina schema
    interpreter (pattern ^\\$\\(\\w+\\)$) and `wordy` are not the code's: such
    documents only get the Python-side part of the monitor."""
    for s in all_strings(d):
        for c in s:
            if ord(c) >= 128 and (c.isalnum() or c == "_"):
                return False
            if 0xD800 <= ord(c) <= 0xDFFF:
                return False
    return True


def comparable(d):
    """the model is claimed faithful on this document (see Verify.v header):
    H_word, and no '$' in step names / depends entries (add_step substitutes
    the environment into them)."""
    if not h_word(d):
        return False
    ld = loaded(d)
    if isinstance(ld, dict):
        st = ld.get("study")
        if isinstance(st, list):
            for step in st:
                if isinstance(step, dict):
                    n = step.get("name")
                    if isinstance(n, str) and "$" in n:
                        return False
                    r = step.get("run")
                    if isinstance(r, dict) and isinstance(r.get("depends"), list):
                        for dep in r["depends"]:
                            if isinstance(dep, str) and "$" in dep:
                                return False
    return True


def stage_hygiene(ld):
    """staging is exercised (and must succeed) only inside the hygiene domain
    of C08/C13_stageable: no external dependencies to acquire, plain step
    names and parameter keys, no workspace references."""
    if not isinstance(ld, dict):
        return False
    env = ld.get("env")
    if isinstance(env, dict) and isinstance(env.get("dependencies"), dict):
        deps = env["dependencies"]
        if deps.get("paths") or deps.get("git"):
            return False
    import re
    if not isinstance(ld.get("study"), list):
        return False
    for step in ld.get("study"):
        if not isinstance(step, dict) or not isinstance(step.get("name"), str):
            return False
        if not re.fullmatch(r"[A-Za-z0-9_-]+", step["name"]):
            return False
    g = ld.get("global.parameters")
    if isinstance(g, dict):
        for k, v in g.items():
            if not re.fullmatch(r"[A-Za-z0-9_]+", k):
                return False
            if isinstance(v, dict) and isinstance(v.get("label"), str) and "/" in v["label"]:
                return False
            if isinstance(v, dict) and isinstance(v.get("values"), list):
                if any(isinstance(x, str) and ("/" in x or not x.strip()) for x in v["values"]):
                    return False
                if any(isinstance(x, (list, dict)) or x is None for x in v["values"]):
                    return False
    desc = ld.get("description")
    if isinstance(desc, dict) and any(k in ("self",) for k in desc):
        return False
    text = json.dumps(ld, default=str)
    if "workspace" in text:
        return False
    return True


# ----------------------------------------------------------------------------
# the implementation side
# ----------------------------------------------------------------------------
class Impl(object):
    def __init__(self):
        import logging
        logging.disable(logging.CRITICAL)
        import yaml
        import jsonschema
        from maestrowf.specification.yamlspecification import YAMLSpecification
        from maestrowf.datastructures.core import Study
        from maestrowf.datastructures.environment import Variable
        self.yaml, self.jsonschema = yaml, jsonschema
        self.Spec, self.Study, self.Variable = YAMLSpecification, Study, Variable
        sp = os.path.join(common.REPO, "maestrowf/specification/schemas/yamlspecification.json")
        with open(sp) as f:
            self.schemas = json.load(f)
        self.validators = {k: jsonschema.Draft7Validator(v) for k, v in self.schemas.items()
                           if k in SECTION_IDX}
        self.runs = 0
        self.stage_runs = 0
        os.makedirs(WORKDIR, exist_ok=True)

    def classify(self, e):
        js = self.jsonschema
        if isinstance(e, (js.ValidationError, ValueError)):
            return "D"
        if type(e) is Exception and e.args and isinstance(e.args[0], str) and e.args[0]:
            return "D"
        return "I"

    def run(self, text, do_stage):
        """-> (obs, detail) ; obs = ("A", names) | ("D",) | ("I",)"""
        self.runs += 1
        phase = "load"
        out = None
        try:
            spec = self.Spec.load_specification_from_stream(io.StringIO(text))
            try:
                ld = self.yaml.load(io.StringIO(text), self.yaml.FullLoader)
            except Exception:
                ld = None
            # the three accessors are called TWICE on the loaded specification:
            # they must be non-destructive (same answer both times)
            phase = "environment"
            env = spec.get_study_environment()
            if canon_env(env) != canon_env(spec.get_study_environment()):
                return ("I",), "NonIdempotent in environment: get_study_environment() differs on the second call"
            want_src = expected_sources(ld)
            if want_src is not None and [getattr(x, "source", None) for x in env.sources] != want_src:
                return ("I",), "AlteredSources in environment: %r instead of %r" % (
                    [getattr(x, "source", None) for x in env.sources][:4], want_src[:4])
            phase = "steps"
            steps = spec.get_study_steps()
            if canon_steps(steps) != canon_steps(spec.get_study_steps()):
                return ("I",), ("NonIdempotent in steps: get_study_steps() returns different steps on the second "
                                "call (destructive accessor)")
            phase = "parameters"
            if canon_params(spec.get_parameters()) != canon_params(spec.get_parameters()):
                return ("I",), "NonIdempotent in parameters: get_parameters() differs on the second call"
            phase = "reserved"
            out = os.path.join(WORKDIR, "run-%d-%d" % (os.getpid(), self.runs))
            env.remove("OUTPUT_PATH")
            env.add(self.Variable("OUTPUT_PATH", out))
            env.add(self.Variable("SPECROOT", WORKDIR))
            phase = "parameters"
            params = spec.get_parameters()
            phase = "study"
            study = self.Study(spec.name, spec.description, studyenv=env, parameters=params,
                               steps=steps, out_path=out)
            names = [k for k in study.values if k != "_source"]
            bad_edges = altered_edges(ld, study)
            if bad_edges:
                return ("I",), "AlteredDependencies in study: " + bad_edges
            if do_stage:
                phase = "stage"
                self.stage_runs += 1
                study.setup_workspace()
                study.configure_study()
                study.setup_environment()
                study.stage()
                # a step without a single staged instance was silently lost
                names = [n for n in names if study.step_combos.get(n)]
            if not all(isinstance(n, str) for n in names):
                return ("I",), "non-string step name in Study.values"
            return ("A", names), ""
        except Exception as e:          # anything, on mutated trees too
            return (self.classify(e),), "%s in %s: %s" % (type(e).__name__, phase, str(e)[:160])
        finally:
            if out is not None:
                shutil.rmtree(out, ignore_errors=True)

    def js_bits(self, text):
        """jsonschema's verdict on every section of the loaded text"""
        ld = self.yaml.load(io.StringIO(text), self.yaml.FullLoader)
        if not isinstance(ld, dict):
            return []
        v = self.validators
        bits = [v["DESCRIPTION"].is_valid(ld.get("description", {})),
                v["ENV"].is_valid(ld.get("env", {"variables": {}, "sources": [], "labels": {},
                                                 "dependencies": {}}))]
        st = ld.get("study", [])
        if isinstance(st, list):
            bits += [v["STUDY_STEP"].is_valid(x) for x in st]
        g = ld.get("global.parameters", {})
        if isinstance(g, dict):
            bits += [v["PARAM"].is_valid(x) for x in g.values()]
        return bits


def _canon(x, depth=0):
    """a total canonical text of a python value (never raises; mappings sorted
    by the text of their keys, objects by their attributes)"""
    if depth > 12:
        return "..."
    if isinstance(x, dict):
        return "{" + ",".join(sorted("%r:%s" % (k, _canon(v, depth + 1)) for k, v in x.items())) + "}"
    if isinstance(x, (list, tuple)):
        return "[" + ",".join(_canon(v, depth + 1) for v in x) + "]"
    if isinstance(x, (set, frozenset)):
        return "set[" + ",".join(sorted(_canon(v, depth + 1) for v in x)) + "]"
    if x is None or isinstance(x, (bool, int, float, str, bytes)):
        return repr(x)
    d = getattr(x, "__dict__", None)
    if isinstance(d, dict):
        return type(x).__name__ + _canon({k: v for k, v in d.items() if k != "_is_acquired"}, depth + 1)
    return type(x).__name__


def canon_steps(steps):
    return _canon([[s.name, s.description, dict(s.run)] for s in steps])


def canon_params(p):
    return _canon({k: v for k, v in vars(p).items()})


def canon_env(env):
    return _canon([list(env.substitutions.items()), list(env.labels.items()), list(env.dependencies.items()),
                   list(env.sources)])


def expected_sources(ld):
    """the env.sources lines of the loaded text, when they are all strings"""
    try:
        src = ld.get("env", {}).get("sources", [])
        if isinstance(src, list) and all(isinstance(x, str) for x in src):
            return list(src)
    except Exception:
        pass
    return None


def altered_edges(ld, study):
    """'' when every step of the built Study has exactly the parents its
    `depends` names (_source when it has none); only for token-free names"""
    import re
    try:
        steps = ld["study"]
        parents = {}
        for src, dsts in study.adjacency_table.items():
            for d in dsts:
                parents.setdefault(d, set()).add(src)
        for st in steps:
            name, deps = st["name"], st["run"].get("depends", [])
            if not isinstance(name, str) or "$" in name or not isinstance(deps, list):
                return ""
            if not all(isinstance(d, str) and "$" not in d for d in deps):
                return ""
            want = {re.sub(r"_\*|\*", "", d) for d in deps} or {"_source"}
            if name in study.values and parents.get(name, set()) != want:
                return "step %r has parents %s, its depends names %s" % (name, sorted(parents.get(name, set())),
                                                                          sorted(want))
    except Exception:
        return ""
    return ""


LOG_LEVELS = ("default", "info", "debug")


class _Sink(object):
    n = 0

    def write(self, x):
        _Sink.n += len(x)

    def flush(self):
        pass


class LogLevel(object):
    """the logging configuration is a dimension of every case.  "default": the
    library used quietly (logging disabled, as the rest of the harness runs it).
    "info" / "debug": what `maestro run -d 2` (the command line's default) /
    `-d 1` set up through LoggerUtility.configure -- the root logger and the
    maestrowf logger at that level with a formatting stream handler attached
    (the stream is a sink), so every LOGGER.info/debug argument is rendered
    and every isEnabledFor guard is entered.  Everything is restored on exit."""
    FORMAT = "[%(asctime)s: %(levelname)s] [%(module)s: %(lineno)d] %(message)s"

    def __init__(self, level):
        self.level = level if level in LOG_LEVELS else "default"

    def __enter__(self):
        import logging
        root, mw = logging.getLogger(), logging.getLogger("maestrowf")
        self.saved = (root.manager.disable, root.level, mw.level, mw.propagate, logging.raiseExceptions)
        self.handlers = []
        if self.level == "default":
            logging.disable(logging.CRITICAL)
            return self
        lvl = logging.INFO if self.level == "info" else logging.DEBUG
        logging.disable(logging.NOTSET)
        logging.raiseExceptions = False          # a malformed log message must not spam stderr
        # (module-level logging.debug(...) calls in maestrowf make the logging module install
        # a stderr handler on the root logger: park whatever is attached, put it back on exit)
        self.parked = [(lg, list(lg.handlers)) for lg in (root, mw)]
        for lg, hs in self.parked:
            for h in hs:
                lg.removeHandler(h)
        for lg in (root, mw):
            h = logging.StreamHandler(_Sink())
            h.setLevel(lvl)
            h.setFormatter(logging.Formatter(self.FORMAT))
            lg.addHandler(h)
            lg.setLevel(lvl)
            self.handlers.append((lg, h))
        return self

    def __exit__(self, *a):
        import logging
        root, mw = logging.getLogger(), logging.getLogger("maestrowf")
        for lg, h in self.handlers:
            lg.removeHandler(h)
        for lg, hs in getattr(self, "parked", []):
            for h in list(lg.handlers):
                lg.removeHandler(h)
            for h in hs:
                lg.addHandler(h)
        disable, rl, ml, mp, rex = self.saved
        root.setLevel(rl)
        mw.setLevel(ml)
        mw.propagate = mp
        logging.raiseExceptions = rex
        logging.disable(disable)
        return False


def forced_log(tag):
    """a tag ending in @log=<level> fixes the case's logging configuration"""
    if "@log=" in tag:
        lv = tag.rsplit("@log=", 1)[1]
        if lv in LOG_LEVELS:
            return lv
    return None


def observe(impl, doc, log="default"):
    text = to_yaml(doc)
    ld = impl.yaml.load(io.StringIO(text), impl.yaml.FullLoader)
    if ld != loaded(doc):
        raise RuntimeError("YAML emitter / loader disagree on %r" % (text[:300],))
    with LogLevel(log):
        obs, detail = impl.run(text, stage_hygiene(ld))
    bits = impl.js_bits(text)
    return obs, detail, bits


# ----------------------------------------------------------------------------
# generators
# ----------------------------------------------------------------------------
NAMES = ["a", "b", "c", "make-x", "run_1", "post.proc", "s t", "x" * 12]
WORDS = ["echo hi", "ls -l", "x", "run $(V1) > out.txt\n", "sleep 1; echo \"done\"", "a\tb", "$(LAUNCHER) ./app",
         "echo € →", "#!/bin/bash\necho $(P1)"]
VARREFS = ["$(V1)", "$(NODES)", "$(P1)", "$(x_9)"]
NONWORD_UNI = ["€", "→", "—", "✓", "\U0001F600"]


def sample_docs(impl):
    pats = [os.path.join(common.REPO, "samples", "**", "*.yaml"),
            os.path.join(common.REPO, "samples", "**", "*.yml"),
            os.path.join(common.REPO, "tests", "specification", "test_specs", "*.y*ml")]
    res = []
    for p in pats:
        for fn in sorted(glob.glob(p, recursive=True)):
            try:
                with open(fn) as f:
                    ld = impl.yaml.load(f, impl.yaml.FullLoader)
                res.append((os.path.relpath(fn, common.REPO), from_python(ld)))
            except Unsupported:
                continue
            except Exception:
                continue
    return res


def priority_enum(impl):
    out = []
    try:
        pr = impl.schemas["STUDY_STEP"]["properties"]["run"]["properties"]["priority"]
        for alt in pr.get("anyOf", [pr]):
            out += [x for x in alt.get("enum", []) if isinstance(x, str)]
    except Exception:
        pass
    return out


def rnd_number01(rng):
    k = rng.randrange(6)
    if k == 0:
        return 0
    if k == 1:
        return 1
    if k == 2:
        return Flt(0, 1)
    if k == 3:
        return Flt(10, 1)
    e = rng.randint(1, 4)
    return Flt(rng.randint(0, 10 ** e), e)


def rnd_count(rng, lo=1):
    k = rng.randrange(5)
    if k == 0:
        return rng.choice(VARREFS)
    if k == 1:
        return Flt(rng.randint(lo, 9) * 10, 1)          # 3.0 is an integer for the schema
    if k == 2:
        return lo
    return rng.randint(lo, 64)


def gen_valid(rng, impl, prios):
    nsteps = rng.choice([1, 1, 2, 2, 3, 3, 4, 5])
    names = rng.sample(NAMES, nsteps)
    # environment
    env = Obj()
    if rng.random() < 0.85:
        vs = Obj([("OUTPUT_PATH", "./out")] if rng.random() < 0.6 else [])
        for i in range(rng.randrange(4)):
            vs.kv.append(("V%d" % i, rng.choice(["x", "some value", 3, Flt(25, 1), -2, "$(OUTPUT_PATH)/d",
                                                  "€"])))
        env.kv.append(("variables", vs))
    if rng.random() < 0.4:
        env.kv.append(("labels", Obj([("L%d" % i, rng.choice(["$(V0).txt", "plain", 7, [1], Obj([("q", 1)]), True]))
                                      for i in range(rng.randrange(3))])))
    if rng.random() < 0.3:
        env.kv.append(("sources", [rng.choice(["source /etc/profile", "module load x", "a", ". /opt/setup.sh",
                                               "/opt/bin/activate", "[ -f x ] && source x", "$(V0)/setup.sh",
                                               "  export A=1", "'quoted' line", "€ source y", "~/.rc"])
                                   for _ in range(rng.randrange(3))]))
    if rng.random() < 0.35:
        deps = Obj()
        if rng.random() < 0.7:
            deps.kv.append(("paths", [Obj([("name", "PD%d" % i), ("path", rng.choice(["/tmp", "./rel", "-"]))])
                                      for i in range(rng.randrange(3))]))
        if rng.random() < 0.5:
            gl = []
            for i in range(rng.randrange(3)):
                g = Obj([("name", "GD%d" % i), ("path", "$(OUTPUT_PATH)"), ("url", "https://x.invalid/r.git")])
                if rng.random() < 0.6:
                    g.kv.append((rng.choice(["tag", "hash", "branch"]), rng.choice(["v1", "abc123", "main"])))
                gl.append(g)
            deps.kv.append(("git", gl))
        if rng.random() < 0.15:
            deps.kv.append(("spack", Obj([("type", "x"), ("package_name", "y"), ("name", "z")])))
        if rng.random() < 0.1:
            deps.kv.append(("path", rng.choice([5, [1], "x"])))     # not a schema key: ignored
        env.kv.append(("dependencies", deps))
    # steps
    steps = []
    for i, n in enumerate(names):
        run = Obj([("cmd", rng.choice(WORDS))])
        if i > 0 and rng.random() < 0.7:
            ds = []
            for p in rng.sample(names[:i], rng.randint(1, min(i, 2))):
                ds.append(p + rng.choice(["", "", "_*"]))
            if rng.random() < 0.1:
                ds.append("_source")
            run.kv.append(("depends", ds))
        elif rng.random() < 0.2:
            run.kv.append(("depends", []))
        for key, mk in (("pre", lambda: "pre"), ("post", lambda: "post"), ("restart", lambda: rng.choice(WORDS)),
                        ("nodes", lambda: rnd_count(rng)), ("procs", lambda: rnd_count(rng)),
                        ("gpus", lambda: rnd_count(rng, 0)), ("cores per task", lambda: rnd_count(rng)),
                        ("tasks per rs", lambda: rnd_count(rng)), ("rs per node", lambda: rnd_count(rng)),
                        ("cpus per rs", lambda: rnd_count(rng)),
                        ("bind", lambda: rng.choice(["rs", "$(B)", "x y"])),
                        ("bind gpus", lambda: rng.choice(["on", "$(B)"])),
                        ("walltime", lambda: rng.choice(["00:10:00", 0, 30, "$(W)", "1", Flt(50, 1)])),
                        ("reservation", lambda: "res1"),
                        ("exclusive", lambda: rng.choice([True, False, "$(E)"])),
                        ("nested", lambda: rng.choice([True, False])),
                        ("waitable", lambda: rng.choice([True, False])),
                        ("priority", lambda: rng.choice(prios) if prios and rng.random() < 0.6
                         else rnd_number01(rng)),
                        ("qos", lambda: "normal")):
            if rng.random() < 0.18:
                run.kv.append((key, mk()))
        steps.append(Obj([("name", n), ("description", rng.choice(["d", "does things", "✓ ok"])), ("run", run)]))
    doc = Obj([("description", Obj([("name", rng.choice(["study", "my study", "s-1"])),
                                    ("description", "a generated study")]))])
    if rng.random() < 0.2:
        doc.kv[0][1].kv.append((rng.choice(["extra", "version", "date"]),
                                rng.choice(["x", 1, [1], Flt(25, 1), True, None, Obj([("a", 1)]), "", "\u20ac"])))
    if env.kv or rng.random() < 0.5:
        doc.kv.append(("env", env))
    if rng.random() < 0.3:
        doc.kv.append(("batch", Obj([("type", "local")])))
    doc.kv.append(("study", steps))
    if rng.random() < 0.5:
        n = rng.randint(1, 4)
        ps = Obj()
        for i in range(rng.randint(1, 3)):
            vals = [rng.choice([1, 2, 3, "a", "b", Flt(15, 1), True]) for _ in range(n)]
            ps.kv.append(("P%d" % (i + 1), Obj([("values", vals), ("label", "P%d.%%%%" % (i + 1))])))
        doc.kv.append(("global.parameters", ps))
    if rng.random() < 0.1:
        doc.kv.append(("unknown_top", 1))
    return doc


def small_full_doc():
    """the base of the exhaustive single-mutation stream: one of everything"""
    return Obj([
        ("description", Obj([("name", "n"), ("description", "d")])),
        ("env", Obj([
            ("variables", Obj([("V", "x")])),
            ("labels", Obj([("L", "$(V).t")])),
            ("sources", ["src a"]),
            ("dependencies", Obj([
                ("paths", [Obj([("name", "PD"), ("path", "/tmp")])]),
                ("git", [Obj([("name", "GD"), ("path", "p"), ("url", "u"), ("tag", "t")])])]))])),
        ("study", [
            Obj([("name", "a"), ("description", "da"), ("run", Obj([("cmd", "echo a"), ("nodes", 2)]))]),
            Obj([("name", "b"), ("description", "db"),
                 ("run", Obj([("cmd", "echo b"), ("depends", ["a"]), ("priority", "high")]))])]),
        ("global.parameters", Obj([("P", Obj([("values", [1, 2]), ("label", "P.%%")])),
                                   ("Q", Obj([("values", ["x", "y"]), ("label", "Q.%%")]))])),
    ])


def tiny_doc():
    return Obj([
        ("description", Obj([("name", "n"), ("description", "d")])),
        ("env", Obj([("variables", Obj([("V", "x")]))])),
        ("study", [
            Obj([("name", "a"), ("description", "da"), ("run", Obj([("cmd", "echo a")]))]),
            Obj([("name", "b"), ("description", "db"), ("run", Obj([("cmd", "echo b"), ("depends", ["a"])]))])]),
        ("global.parameters", Obj([("P", Obj([("values", [1]), ("label", "P.%%")]))])),
    ])


def reserved_docs():
    """accepted-by-design documents in which a reserved / common name
    (OUTPUT_PATH above all: run_study removes and re-adds it) sits in every
    admissible place and form of the environment"""
    def doc(env):
        d = Obj([("description", Obj([("name", "n"), ("description", "d")]))])
        if env is not None:
            d.kv.append(("env", env))
        d.kv.append(("study", [
            Obj([("name", "a"), ("description", "da"), ("run", Obj([("cmd", "echo $(OUTPUT_PATH) $(V)")]))]),
            Obj([("name", "b"), ("description", "db"), ("run", Obj([("cmd", "echo b"), ("depends", ["a"])]))])]))
        return d

    def places(n):
        V = ("V", "x")
        return [
            ("var-first", Obj([("variables", Obj([(n, "./out")]))])),
            ("var-first-then-other", Obj([("variables", Obj([(n, "./out"), V]))])),
            ("var-later", Obj([("variables", Obj([V, (n, "./out")]))])),
            ("var-later-mentions-other", Obj([("variables", Obj([V, (n, "$(V)/out")]))])),
            ("var-first-mentions-later", Obj([("variables", Obj([(n, "$(V)/out"), V]))])),
            ("var-number", Obj([("variables", Obj([V, (n, 3)]))])),
            ("label", Obj([("variables", Obj([V])), ("labels", Obj([(n, "./out")]))])),
            ("label-mentions-var", Obj([("variables", Obj([V])), ("labels", Obj([(n, "$(V)/out")]))])),
            ("label-only", Obj([("labels", Obj([(n, "out")]))])),
            ("var-and-label", Obj([("variables", Obj([(n, "./out")])), ("labels", Obj([(n, "./o2")]))])),
            ("path-dependency", Obj([("variables", Obj([V])),
                                     ("dependencies", Obj([("paths", [Obj([("name", n), ("path", ".")])])]))])),
        ]
    out = [("reserved:none:no-env", doc(None)), ("reserved:none:empty-env", doc(Obj()))]
    for n, keep in (("OUTPUT_PATH", None), ("SPECROOT", ("var-first", "var-later-mentions-other", "label")),
                    ("WORKSPACE", ("var-first", "var-later-mentions-other", "label")),
                    ("LAUNCHER", ("var-first", "label"))):
        for pl, env in places(n):
            if keep is None or pl in keep:
                out.append(("reserved:%s:%s" % (n, pl), doc(env)))
    return out


LINE_SHAPES = [". /opt/site/setup.sh", "/opt/site/bin/activate", "[ -f ~/.rc ] && source ~/.rc", "$(V)/setup.sh",
               "  leading blanks", "\tsource tabbed", "'single quoted'", "\"double quoted\"", "~/.studyrc", "€ then word",
               "-x", "(cd /x; . y)", "{ . x; }", "# comment", "source x", "x", "", "--", ". /", "€", " ", ":"]


def shape_docs():
    """every kind of line / value the schema admits at the free-text places of
    the environment: env.sources entries, label and variable values, path
    dependency name / path, git dependency url / path.  Most are accepted; the
    ones without a word character are what the consumers refuse (a ValueError
    before anything is staged), the empty string is what the schema refuses."""
    def doc(env):
        return Obj([("description", Obj([("name", "n"), ("description", "d")])), ("env", env),
                    ("study", [Obj([("name", "a"), ("description", "da"), ("run", Obj([("cmd", "echo $(V)")]))]),
                               Obj([("name", "b"), ("description", "db"),
                                    ("run", Obj([("cmd", "echo b"), ("depends", ["a"])]))])])])
    out = []
    V = ("variables", Obj([("V", "x")]))
    for k, x in enumerate(LINE_SHAPES):
        out.append(("shape:sources:%d" % k, doc(Obj([V, ("sources", [x])]))))
        out.append(("shape:sources-second:%d" % k, doc(Obj([V, ("sources", ["module load a", x, "export B=1"])]))))
        out.append(("shape:label:%d" % k, doc(Obj([V, ("labels", Obj([("L", x)]))]))))
        out.append(("shape:variable:%d" % k, doc(Obj([("variables", Obj([("V", "x"), ("W", x)]))]))))
        out.append(("shape:path-dep-path:%d" % k,
                    doc(Obj([V, ("dependencies", Obj([("paths", [Obj([("name", "PD"), ("path", x)])])]))]))))
        out.append(("shape:path-dep-name:%d" % k,
                    doc(Obj([V, ("dependencies", Obj([("paths", [Obj([("name", x), ("path", ".")])])]))]))))
        out.append(("shape:git-url:%d" % k,
                    doc(Obj([V, ("dependencies", Obj([("git", [Obj([("name", "GD"), ("path", "p"), ("url", x)])])]))]))))
        out.append(("shape:git-path:%d" % k,
                    doc(Obj([V, ("dependencies", Obj([("git", [Obj([("name", "GD"), ("path", x), ("url", "u")])])]))]))))
    return out


DESC_VALUES = [("int", 2), ("zero", 0), ("float", Flt(15, 1)), ("true", True), ("false", False), ("null", None),
               ("list", [1, "two", None]), ("empty-list", []), ("mapping", Obj([("major", 1), ("tags", ["a"])])),
               ("empty-mapping", Obj()), ("empty-string", ""), ("unicode", "\u20ac \u2192 \u2713"),
               ("multi-line", "line one\nline two"), ("percent", "100%s %(x)s {y}"), ("string", "plain")]


def description_docs():
    """the description block with EXTRA keys (the schema only asks for string
    name / description) of every YAML type the document type has, each one
    under every logging configuration"""
    out = []
    for key in ("version", "extra key"):
        for nm, v in DESC_VALUES:
            if key == "extra key" and nm not in ("int", "list", "null", "mapping"):
                continue
            for lg in LOG_LEVELS:
                d = tiny_doc()
                d.get("description").kv.append((key, copy.deepcopy(v)))
                out.append(("desc:%s:%s@log=%s" % (key.replace(" ", "-"), nm, lg), d))
    d = tiny_doc()
    d.get("description").kv += [("version", 2), ("released", False), ("authors", ["x", Obj([("n", 1)])])]
    for lg in LOG_LEVELS:
        out.append(("desc:several@log=%s" % lg, d))
    return out


def description_raw_texts():
    """YAML scalars the document type of the model has no constructor for
    (dates, timestamps, binary, sets): raw texts, Python-side monitor"""
    base = ('{"description": {"name": "n", "description": "d", "extra": %s}, "study": [{"name": "a", '
            '"description": "da", "run": {"cmd": "echo a"}}]}')
    out = []
    for nm, v in (("date", "2024-01-02"), ("timestamp", "2024-01-02 03:04:05"), ("hex", "0x1F"), ("inf", ".inf"),
                  ("nan", ".nan"), ("binary", "!!binary aGk="), ("set", "!!set {a, b}"), ("octal", "017")):
        for lg in LOG_LEVELS:
            out.append(("rawdesc:%s@log=%s" % (nm, lg), base % v))
    return out


def alias_docs(rng, valids, n):
    """documents in which two steps (or two parameters) share ONE mapping
    through a YAML anchor / alias: the loader hands the same dict to both"""
    def chain():
        run = Obj([("cmd", "echo work"), ("depends", ["setup"])])
        return Obj([("description", Obj([("name", "n"), ("description", "d")])),
                    ("study", [Obj([("name", "setup"), ("description", "d0"), ("run", Obj([("cmd", "echo s")]))]),
                               Obj([("name", "left"), ("description", "d1"), ("run", run)]),
                               Obj([("name", "right"), ("description", "d2"), ("run", run)])])])
    out = [("alias:run-of-two-dependent-steps", chain())]
    d = chain()
    pv = Obj([("values", [1, 2]), ("label", "P.%%")])
    d.kv.append(("global.parameters", Obj([("P", pv), ("Q", pv)])))
    out.append(("alias:run-and-parameter-blocks", d))
    cands = [v for v in valids if len(steps_of(v)) >= 2]
    for _ in range(n):
        if not cands:
            break
        d = copy.deepcopy(rng.choice(cands))
        st = steps_of(d)
        i = rng.randrange(len(st) - 1)
        for j in rng.sample(range(i + 1, len(st)), rng.randint(1, min(2, len(st) - 1 - i))):
            st[j].set("run", st[i].get("run"))
        out.append(("alias:shared-run", d))
    return out


def pool():
    return [None, True, False, 0, 1, -1, 2, 40, Flt(5, 1), Flt(20, 1), Flt(-15, 1),
            "", "x", "a", "$(X)", "$(X)\n", "$()", "a b", "--", "€", "high", "SPECROOT", "_source",
            [], ["x"], ["a"], [1], ["x", "x"], [1, Flt(10, 1)], [[]], [Obj([("name", "a")])],
            Obj(), Obj([("x", 1)]), Obj([("name", "n"), ("path", "p")]),
            Obj([("values", [1, 2]), ("label", "l")])]


def nodes_of(d, path=()):
    """every node: (path, parent, key-or-index, occurrence index in parent)"""
    yield path, d
    if isinstance(d, Obj):
        for i, (k, v) in enumerate(d.kv):
            for x in nodes_of(v, path + (("k", i, k),)):
                yield x
    elif isinstance(d, list):
        for i, v in enumerate(d):
            for x in nodes_of(v, path + (("i", i, None),)):
                yield x


def get_at(d, path):
    for kind, i, _ in path:
        d = d.kv[i][1] if kind == "k" else d[i]
    return d


def replace_at(d, path, new):
    """a deep copy of d with the node at path replaced by new (path non-empty)"""
    d = copy.deepcopy(d)
    if not path:
        return copy.deepcopy(new)
    par = get_at(d, path[:-1])
    kind, i, _ = path[-1]
    if kind == "k":
        par.kv[i] = (par.kv[i][0], copy.deepcopy(new))
    else:
        par[i] = copy.deepcopy(new)
    return d


def delete_at(d, path):
    d = copy.deepcopy(d)
    par = get_at(d, path[:-1])
    kind, i, _ = path[-1]
    if kind == "k":
        del par.kv[i]
    else:
        del par[i]
    return d


def path_text(path):
    return "/".join(str(k) if kind == "k" else str(i) for kind, i, k in path)


def kind_of(v):
    if v is None:
        return "null"
    if isinstance(v, bool):
        return "bool"
    if isinstance(v, int):
        return "int"
    if isinstance(v, Flt):
        return "float"
    if isinstance(v, str):
        return "str"
    if isinstance(v, list):
        return "list"
    return "map"


def exhaustive_single(base, tag, rng=None, nset=None):
    """every single-point mutation of base (with rng/nset: only nset seeded
    pool values per node for the retype edit, everything else in full)"""
    P0 = pool()
    out = [(tag + ":base", base)]
    for path, node in nodes_of(base):
        pt = path_text(path)
        if path:
            out.append(("%s:delete@%s" % (tag, pt), delete_at(base, path)))
        P = P0 if rng is None or nset is None else rng.sample(P0, nset)
        for v in P:
            if kind_of(v) == kind_of(node) and v == node:
                continue
            out.append(("%s:set-%s@%s" % (tag, kind_of(v), pt), replace_at(base, path, v)))
        if path and path[-1][0] == "k":
            par = get_at(base, path[:-1])
            k = path[-1][2]
            for v in (node, "other", None):
                d = copy.deepcopy(base)
                get_at(d, path[:-1]).kv.append((k, copy.deepcopy(v)))
                out.append(("%s:dupkey@%s" % (tag, pt), d))
            # rename to an unknown and to a sibling-typed known key
            for k2 in ("bogus", "name", "cmd", "values", "paths"):
                if k2 != k and k2 not in par.keys():
                    d = copy.deepcopy(base)
                    pp = get_at(d, path[:-1])
                    pp.kv[path[-1][1]] = (k2, pp.kv[path[-1][1]][1])
                    out.append(("%s:rename@%s" % (tag, pt), d))
        if path and path[-1][0] == "i":
            d = copy.deepcopy(base)
            get_at(d, path[:-1]).append(copy.deepcopy(node))
            out.append(("%s:dupitem@%s" % (tag, pt), d))
        if isinstance(node, Obj):
            for k2, v2 in (("bogus", 1), ("name", "zz"), ("hash", "h"), ("value", "v"), ("", "e")):
                if k2 not in node.keys():
                    d = copy.deepcopy(base)
                    get_at(d, path).kv.append((k2, v2))
                    out.append(("%s:addkey@%s" % (tag, pt), d))
    return out


def steps_of(d):
    st = d.get("study") if isinstance(d, Obj) else None
    return st if isinstance(st, list) else []


def semantic_mutation(rng, d):
    """the rule-breaking edits the schema cannot see"""
    d = copy.deepcopy(d)
    steps = [s for s in steps_of(d) if isinstance(s, Obj) and isinstance(s.get("run"), Obj)
             and isinstance(s.get("name"), str)]
    k = rng.randrange(12)
    if k == 0 and steps:                      # self dependency
        s = rng.choice(steps)
        deps = s.get("run").get("depends")
        deps = list(deps) if isinstance(deps, list) else []
        deps.append(s.get("name") + rng.choice(["", "_*", "*"]))
        s.get("run").set("depends", deps)
        return "self-dep", d
    if k == 1 and steps:                      # undefined dependency
        s = rng.choice(steps)
        deps = s.get("run").get("depends")
        deps = list(deps) if isinstance(deps, list) else []
        deps.append(rng.choice(["nope", "nope_*", "", "*", "A"]))
        s.get("run").set("depends", deps)
        return "undefined-dep", d
    if k == 2 and len(steps) > 1:             # forward dependency / reversed order
        st = d.get("study")
        st.reverse()
        return "reversed-steps", d
    if k == 3 and steps:                      # duplicate step (same name, maybe other content)
        s = copy.deepcopy(rng.choice(steps))
        if rng.random() < 0.5:
            s.get("run").set("cmd", "other")
        d.get("study").insert(rng.randint(0, len(d.get("study"))), s)
        return "dup-step", d
    if k == 4 and steps:                      # reserved node name
        rng.choice(steps).set("name", "_source")
        return "source-name", d
    g = d.get("global.parameters")
    if k == 5 and isinstance(g, Obj) and g.kv:
        p = rng.choice(g.kv)[1]
        if isinstance(p, Obj) and isinstance(p.get("values"), list):
            vals = list(p.get("values"))
            if rng.random() < 0.5 and vals:
                vals.pop()
            else:
                vals.append("extra")
            p.set("values", vals)
            return "values-length", d
    if k == 6 and isinstance(g, Obj) and g.kv:
        p = rng.choice(g.kv)[1]
        if isinstance(p, Obj) and isinstance(p.get("values"), list):
            n = len(p.get("values")) + rng.choice([0, 0, 1, -1])
            p.set("label", ["l%d" % i for i in range(max(n, 0))])
            return "label-list", d
    env = d.get("env")
    if not isinstance(env, Obj):
        env = Obj()
        d.kv.insert(1, ("env", env))
    if k == 7:                                # variable / label / dependency name clash
        nm = rng.choice(["CLASH", "SPECROOT", "OUTPUT_PATH"])
        kinds = rng.sample(["variables", "labels", "paths", "git"], 2)
        for kd in kinds:
            if kd in ("variables", "labels"):
                o = env.get(kd)
                if not isinstance(o, Obj):
                    o = Obj()
                    env.set(kd, o)
                o.kv.append((nm, "v"))
            else:
                deps = env.get("dependencies")
                if not isinstance(deps, Obj):
                    deps = Obj()
                    env.set("dependencies", deps)
                lst = deps.get(kd)
                lst = list(lst) if isinstance(lst, list) else []
                it = Obj([("name", nm), ("path", "p")])
                if kd == "git":
                    it.kv.append(("url", "u"))
                lst.append(it)
                deps.set(kd, lst)
        return "name-clash", d
    if k == 8:                                # duplicate dependency names inside one list
        deps = env.get("dependencies")
        if not isinstance(deps, Obj):
            deps = Obj()
            env.set("dependencies", deps)
        kd = rng.choice(["paths", "git"])
        it = Obj([("name", "DUP"), ("path", "p")] + ([("url", "u")] if kd == "git" else []))
        lst = deps.get(kd)
        lst = list(lst) if isinstance(lst, list) else []
        deps.set(kd, lst + [it, copy.deepcopy(it)])
        return "dup-dependency", d
    if k == 9:                                # git options
        deps = env.get("dependencies")
        if not isinstance(deps, Obj):
            deps = Obj()
            env.set("dependencies", deps)
        it = Obj([("name", "G9"), ("path", rng.choice(["p", "--"])), ("url", rng.choice(["u", "::"]))])
        for o in rng.sample(["tag", "hash", "branch"], rng.randint(1, 3)):
            it.kv.append((o, rng.choice(["v", "w", "--"])))
        if rng.random() < 0.3:
            it.kv.append((rng.choice(["token", "value", "self", "foo"]), rng.choice(["", "$", 0, "x"])))
        lst = deps.get("git")
        deps.set("git", (list(lst) if isinstance(lst, list) else []) + [it])
        return "git-options", d
    if k == 10:                               # odd sources / labels / variables
        which = rng.randrange(4)
        if which == 0:
            env.set("sources", [rng.choice(["--", "", "ok", 5, None, "€"])])
        elif which == 1:
            env.set("labels", Obj([(rng.choice(["L", "", "V"]), rng.choice([None, "", "x", 0, False]))]))
        elif which == 2:
            o = env.get("variables")
            if not isinstance(o, Obj):
                o = Obj()
                env.set("variables", o)
            o.kv.append((rng.choice(["", "E", "V"]), rng.choice(["", None, True, 0, "ok", Flt(15, 1)])))
        else:
            env.set(rng.choice(["variables", "labels", "sources", "dependencies"]),
                    rng.choice([None, [], Obj(), "x", 0]))
        return "odd-env", d
    # k == 11 or a fall-through: step order / extra empty structures
    tgt = rng.choice(["study", "global.parameters", "env", "description", "batch"])
    d.set(tgt, rng.choice([None, [], Obj(), "", 0, False, "x", [1], Obj([("x", 1)]), Flt(0, 1)]))
    return "odd-section", d


def structural_mutation(rng, d):
    P = pool()
    nodes = [(p, n) for p, n in nodes_of(d) if p]
    if not nodes:
        return "set-root", rng.choice(P)
    # prefer deeper / step-related nodes a little by plain uniform choice over nodes
    path, node = rng.choice(nodes)
    op = rng.choice(["delete", "retype", "retype", "empty", "rename", "dupkey", "dupitem", "addkey", "addkey"])
    if op == "delete":
        return "delete", delete_at(d, path)
    if op == "retype":
        v = rng.choice(P)
        return "retype-" + kind_of(v), replace_at(d, path, v)
    if op == "empty":
        return "empty", replace_at(d, path, "" if isinstance(node, str) else rng.choice(["", [], Obj(), None]))
    if op == "rename" and path[-1][0] == "k":
        d2 = copy.deepcopy(d)
        par = get_at(d2, path[:-1])
        k2 = rng.choice(["bogus", "Name", "name ", "cmd", "depends", "values", "label", "name", "run",
                         "description", "paths", "git", "variables", "nodes", "€"])
        par.kv[path[-1][1]] = (k2, par.kv[path[-1][1]][1])
        return "rename", d2
    if op == "dupkey" and path[-1][0] == "k":
        d2 = copy.deepcopy(d)
        par = get_at(d2, path[:-1])
        par.kv.append((path[-1][2], copy.deepcopy(rng.choice([node, node, rng.choice(P)]))))
        return "dupkey", d2
    if op == "dupitem" and path[-1][0] == "i":
        d2 = copy.deepcopy(d)
        par = get_at(d2, path[:-1])
        par.insert(rng.randint(0, len(par)), copy.deepcopy(node))
        return "dupitem", d2
    # add a key to the nearest mapping
    objs = [(p, n) for p, n in nodes_of(d) if isinstance(n, Obj)]
    if not objs:
        return "set-root", rng.choice(P)
    p, n = rng.choice(objs)
    d2 = copy.deepcopy(d)
    k2 = rng.choice(["bogus", "name", "extra key", "hash", "branch", "value", "token", "", "depends", "label",
                     "priority", "nodes", "spack", "path", "→"])
    get_at(d2, p).kv.append((k2, copy.deepcopy(rng.choice(P))))
    return "addkey", d2


def exotic_docs(rng, prios):
    out = []
    for v in (None, True, 0, 5, Flt(15, 1), "", "just text", [], ["a", "b"], [Obj([("a", 1)])], Obj()):
        out.append(("exotic:top-" + kind_of(v), v))
    base = tiny_doc()
    # every schema-admitted priority value, and near misses
    for p in list(prios) + ["expedite", "Expedite", "urgent", "", "HIGH ", 0, 1, Flt(5, 1), Flt(10, 1), Flt(11, 1),
                            Flt(-1, 1), 2, True, None, ["high"], Flt(0, 2), Flt(100, 2), Flt(9999, 4)]:
        d = copy.deepcopy(base)
        d.get("study")[0].get("run").set("priority", p)
        out.append(("exotic:priority", d))
    # resource keys over ints, floats, references, near misses
    for key in ("nodes", "procs", "gpus", "cores per task", "tasks per rs", "rs per node", "cpus per rs",
                "walltime", "exclusive", "bind", "bind gpus", "nested", "waitable", "reservation", "qos", "pre",
                "post", "restart"):
        for v in (0, 1, -1, 7, Flt(30, 1), Flt(5, 1), Flt(0, 1), "$(N)", "$(N)\n", "$(N) ", " $(N)", "$()", "$(a-b)",
                  "$(€)", "4", "", True, False, None, [1], "€"):
            d = copy.deepcopy(base)
            d.get("study")[0].get("run").set(key, v)
            out.append(("exotic:run-" + key, d))
    # depends shapes
    for deps in ([], ["a"], ["a", "a"], ["a", "a_*"], ["a_*"], ["*a"], ["a*_*"], ["_source"], ["b"], ["b_*"], ["_*b"],
                 [""], ["*"], ["_*"], ["c"], [1], [None], [["a"]], "a", Obj([("a", 1)]), None, 0, [Flt(10, 1), 1],
                 ["A"], ["a "], ["€"]):
        d = copy.deepcopy(base)
        d.get("study")[1].get("run").set("depends", deps)
        out.append(("exotic:depends", d))
    # step names
    for nm in ("_source", "a", "b ", "", "a_*", "*", "€", "x/y", "..", 5, None, ["a"], True, "-"):
        d = copy.deepcopy(base)
        d.get("study")[1].set("name", nm)
        out.append(("exotic:step-name", d))
    # parameters
    for vals, lab in (([], "l"), ([1], ""), ([1], ["a"]), ([1, 2], ["a", "a"]), ([1, 2], "P.%%"), ("ab", "l"),
                      (Obj([("a", 1)]), "l"), (None, "l"), ([1], None), ([[1]], "l"), ([None], "l"), ([1], 5)):
        d = copy.deepcopy(base)
        d.set("global.parameters", Obj([("P", Obj([("values", [1]), ("label", "P.%%")])),
                                        ("Q", Obj([("values", vals), ("label", lab)]))]))
        out.append(("exotic:params", d))
    for g in (Obj([("P", Obj([("values", [1]), ("label", "l"), ("name", "nm")]))]), Obj([("P", 5)]), Obj([("P", None)]),
              Obj([("", Obj([("values", [1]), ("label", "l")]))]), Obj([("P", [])]), Obj([("P", Obj())])):
        d = copy.deepcopy(base)
        d.set("global.parameters", g)
        out.append(("exotic:params", d))
    # unicode that python's \w accepts: monitored, not compared with the model
    for s in ("é", "中", "١"):
        d = copy.deepcopy(base)
        d.get("env").set("sources", [s])
        d.get("study")[0].get("run").set("nodes", "$(%s)" % s)
        out.append(("exotic:unicode-word", d))
    # documents that repeat keys (known finding K5 when accepted)
    d = copy.deepcopy(base)
    d.get("env").get("variables").kv.append(("V", "y"))
    out.append(("exotic:dupkey", d))
    d = copy.deepcopy(base)
    d.kv.append(("study", []))
    out.append(("exotic:dupkey", d))
    return out


def interp_cases(rng, impl, n):
    """random values against every sub-schema reachable through properties /
    items / patternProperties (and the alternatives of anyOf, through the parent)"""
    subs = []      # (section, path, json schema)

    def walk(sec, path, sch):
        subs.append((sec, path, sch))
        for k, v in (sch.get("properties") or {}).items():
            walk(sec, path + (k,), v)
        if isinstance(sch.get("items"), dict):
            walk(sec, path + (0,), sch["items"])
        for _, v in (sch.get("patternProperties") or {}).items():
            walk(sec, path + ("anykey",), v)
    for sec in SECTION_IDX:
        walk(sec, (), impl.schemas[sec])
    P = pool() + [Flt(0, 1), Flt(10, 1), Flt(100, 2), Flt(101, 2), Flt(-1, 3), 31, 10 ** 12, "$(ab_1)", "$(a b)", "$(a)x",
                  "x$(a)", "HIGH", "High", "high", "hIgh", "expedited", [1, True], [0, False], [Flt(10, 1), 1],
                  [Obj([("a", 1), ("b", 2)]), Obj([("b", 2), ("a", 1)])], ["a", "b"], [[1], [1]],
                  [Obj([("a", 1)]), Obj([("a", Flt(10, 1))])], [None, None], ["1", 1]]
    out = []
    for i in range(n):
        sec, path, sch = subs[i % len(subs)] if i < 2 * len(subs) else rng.choice(subs)
        k = rng.random()
        if k < 0.5:
            v = rng.choice(P)
        elif k < 0.75:
            # an object built from the schema's own properties with pool values
            props = list((sch.get("properties") or {}).keys()) or ["x"]
            v = Obj([(p, rng.choice(P)) for p in rng.sample(props, rng.randint(0, min(3, len(props))))])
            if rng.random() < 0.3:
                v.kv.append(("bogus", 1))
        else:
            v = [rng.choice(P) for _ in range(rng.randrange(4))]
        js = jsonschema_valid(impl, sch, v)
        out.append((SECTION_IDX[sec], path, v, js))
    return out


def jsonschema_valid(impl, sch, v):
    return impl.jsonschema.Draft7Validator(sch).is_valid(loaded(v))


# ----------------------------------------------------------------------------
# enums: the real from_str / get_flux_urgency
# ----------------------------------------------------------------------------
def check_enums(ck, impl, prios):
    hdr = HEADER + """
Definition optZ_eqb (a b : option Z) : bool :=
  match a, b with Some x, Some y => Z.eqb x y | None, None => true | _, _ => false end.
(* (string, in the schema's enum?, implementation's urgency or None for an exception) *)
Definition enum_case_ok (c : str * bool * option Z) : bool :=
  let '(x, in_enum, u) := c in
  optZ_eqb (flux_urgency_str x) u &&
  Bool.eqb in_enum (mem_str x priority_enum) &&
  (negb in_enum || match u with Some z => Z.leb 0 z && Z.leb z 31 | None => false end).
(* (n, d, implementation's ceil(float(n/d)*31)) with 0 <= n <= d *)
Definition num_case_ok (c : Z * Z * Z) : bool :=
  let '(n, d, u) := c in Z.eqb (flux_urgency_num n d) u && Z.leb 0 u && Z.leb u 31.
"""
    from_str = flux = None
    how = "imported"
    try:
        from maestrowf.abstracts.enums import StepPriority
        from maestrowf.interfaces.script._flux.flux0_49_0 import FluxInterface_0490
        from_str, flux = StepPriority.from_str, FluxInterface_0490.get_flux_urgency
    except Exception as e:
        ck.mismatch("cannot import StepPriority / FluxInterface_0490: %r" % (e,), None)
        return
    ck.notes["enum_functions"] = how
    strings = list(prios) + ["expedite", "EXPEDITE", "Expedite", "urgent", "", "HIGH ", "hi gh", "hIgH", "lowest",
                             "medium\n", "HELD", "5"]
    seen, cases, raw = set(), [], []
    for x in strings:
        if x in seen:
            continue
        seen.add(x)
        try:
            p = from_str(x)
            u = flux(x)
            if not isinstance(u, int) or isinstance(u, bool):
                u = None
            elif flux(p) != u:
                u = None
        except Exception as e:
            u = None
        cases.append("(%s, %s, %s)" % (g_s(x), common.g_bool(x in prios), common.g_opt(u, common.g_Z)))
        raw.append((x, x in prios, u))
        ck.count(("enum", x), nontrivial=True)
    bad, errs = common.coq_failing("c13_enum", hdr, "str * bool * option Z", "enum_case_ok", cases)
    for i in bad:
        x, inen, u = raw[i]
        if inen and u is None:
            ck.violation("priority %r is admitted by the schema but StepPriority.from_str / "
                         "get_flux_urgency do not understand it" % (x,), {"priority": x})
        else:
            ck.mismatch("priority string %r: implementation urgency %r differs from the model "
                        "(or schema enum membership differs)" % (x, u), {"priority": x, "impl": u, "in_enum": inen})
    for e in errs:
        ck.mismatch("coqc failed on the enum cases", None, e[1])
    nums, rawn = [], []
    rng = random.Random(ck.seed + 77)
    pts = [(0, 1), (1, 1), (1, 2), (1, 31), (30, 31), (1, 10), (9, 10), (5, 10), (1, 1000), (999, 1000)]
    pts += [(rng.randint(0, 10 ** e), 10 ** e) for e in (1, 2, 3, 4) for _ in range(12)]
    for n, d in pts:
        x = Flt(n, len(str(d)) - 1) if str(d).startswith("1") and set(str(d)[1:]) <= {"0"} else None
        val = float(flt_text(x)) if x is not None else n / d
        if x is None and (n * 31) % d != 0 and abs((n * 31 / d) - round(n * 31 / d)) < 1e-9:
            continue
        try:
            u = flux(val)
            ui = flux(n) if d == 1 else u
        except Exception as e:
            ck.violation("get_flux_urgency(%r) raised %r for a priority number the schema admits" % (val, e),
                         {"priority_number": [n, d]})
            continue
        if x is None and d not in (1,):
            # n/d is not a short decimal: only the range is claimed
            if not (isinstance(u, int) and 0 <= u <= 31):
                ck.violation("get_flux_urgency(%r) = %r is outside 0..31" % (val, u), {"priority_number": [n, d]})
            continue
        nums.append("((%d)%%Z, (%d)%%Z, (%d)%%Z)" % (n, d, u))
        rawn.append((n, d, u))
        ck.count(("num", n, d), nontrivial=True)
    bad, errs = common.coq_failing("c13_num", hdr, "Z * Z * Z", "num_case_ok", nums)
    for i in bad:
        n, d, u = rawn[i]
        if not (isinstance(u, int) and 0 <= u <= 31):
            ck.violation("get_flux_urgency(%d/%d) = %r is outside 0..31" % (n, d, u), {"priority_number": [n, d]})
        else:
            ck.mismatch("get_flux_urgency(%d/%d) = %r differs from the model's ceil" % (n, d, u),
                        {"priority_number": [n, d], "impl": u})
    for e in errs:
        ck.mismatch("coqc failed on the numeric urgency cases", None, e[1])
    ck.cov["enum_strings_checked"] = len(raw)
    ck.cov["priority_numbers_checked"] = len(rawn)


# ----------------------------------------------------------------------------
# run
# ----------------------------------------------------------------------------
def load_corpus():
    """-> [(tag, doc or None, json)]; an entry with "yaml_text" instead of "doc"
    (documents the model's type cannot express, e.g. a key that is not a
    string) has doc None and is run through the Python-side monitor only"""
    res = []
    for fn in sorted(glob.glob(os.path.join(CORPUS, "*.json"))):
        try:
            j = json.load(open(fn))
            if "yaml_text" in j and "doc" not in j:
                res.append(("corpus:" + os.path.basename(fn), None, j))
                continue
            res.append(("corpus:" + os.path.basename(fn), from_json(j["doc"]), j))
        except Exception as e:
            res.append(("corpus:" + os.path.basename(fn), None, {"error": repr(e)}))
    return res


def case_json(tag, doc, obs=None, detail=None, log=None):
    j = {"property": PID, "tag": tag, "doc": to_json(doc), "yaml": to_yaml(doc)}
    if log is not None:
        j["log"] = log
    if obs is not None:
        j["impl"] = {"class": obs[0], "steps": obs[1] if obs[0] == "A" else None, "detail": detail}
    return j


def python_monitor(doc, obs):
    """the part of C13_ok python can evaluate without Coq (used by search):
    never Internal; accepted => the document's steps, no repeated names"""
    if obs[0] == "I":
        return False
    if obs[0] == "A":
        ld = loaded(doc)
        try:
            names = [s["name"] for s in ld["study"]]
        except Exception:
            return False
        if names != obs[1] or len(set(names)) != len(names):
            return False
    return True


def raw_key_texts():
    """YAML texts in which ONE mapping key is not a string: every key of the
    small documents replaced by 1 / true / null / 1.5, and such a key added to
    every mapping.  (YAML 1.1 also reads the plain names ON, NO, YES ... as
    booleans: a variable called ON is the realistic instance.)"""
    out = []
    for base, tag in ((tiny_doc(), "tiny"), (small_full_doc(), "full")):
        for path, node in nodes_of(base):
            if path and path[-1][0] == "k":
                for alt in ("1", "true", "null", "1.5", "ON"):
                    d = copy.deepcopy(base)
                    par = get_at(d, path[:-1])
                    par.kv[path[-1][1]] = (Raw(alt), par.kv[path[-1][1]][1])
                    out.append(("rawkey:%s:rename@%s" % (tag, path_text(path)), to_yaml(d)))
            if isinstance(node, Obj):
                for alt in ("1", "true", "null"):
                    d = copy.deepcopy(base)
                    get_at(d, path).kv.append((Raw(alt), "x"))
                    out.append(("rawkey:%s:addkey@%s" % (tag, path_text(path)), to_yaml(d)))
    return out


def raw_text_case(ck, impl, tag, text, log=None):
    """a YAML text outside the model's document type: never an internal error,
    accepted => exactly the text's steps"""
    try:
        ld = impl.yaml.load(io.StringIO(text), impl.yaml.FullLoader)
        hyg = stage_hygiene(ld)
    except Exception:
        hyg = False
    log = log or forced_log(tag) or "default"
    with LogLevel(log):
        obs, detail = impl.run(text, hyg)
    if obs[0] != "A" and log != "default":
        detail = "%s [log=%s]" % (detail, log)
    ck.count(("raw", text, log), nontrivial=True)
    ok = obs[0] != "I"
    if obs[0] == "A":
        try:
            ld = impl.yaml.load(io.StringIO(text), impl.yaml.FullLoader)
            ok = [s["name"] for s in ld["study"]] == obs[1]
        except Exception:
            ok = False
    if not ok:
        ck.violation("%s: implementation %s (%s) -- internal error or changed step list (raw YAML text, "
                     "Python-side monitor)" % (tag, obs[0], detail),
                     {"property": PID, "tag": tag, "yaml_text": text, "log": log,
                      "impl": {"class": obs[0], "steps": obs[1] if obs[0] == "A" else None, "detail": detail}})
    return ok


# ----------------------------------------------------------------------------
# the command-line layer
# ----------------------------------------------------------------------------
CLI_DIR = os.path.join(common.WORK, "c13_cli")
LAUNCHER = os.path.join(common.VERIF, "harness", "e2e_launcher.py")
CLI_CLEAN = ("ValidationError", "ValueError", "Exception")


def cli_tracebacks(text):
    """exception type names of every traceback block in the process output"""
    names = []
    lines = text.split("\n")
    i = 0
    while i < len(lines):
        if lines[i].startswith("Traceback (most recent call last):"):
            j = i + 1
            while j < len(lines) and (lines[j][:1] in (" ", "\t") or not lines[j].strip()):
                j += 1
            if j < len(lines):
                head = lines[j].split(":", 1)[0].strip()
                names.append(head.split(".")[-1] if head else "?")
            else:
                names.append("?")
            i = j
        i += 1
    return names


def cli_run(k, text, use_o=True):
    """-> (class, detail): the real `maestro run` on the YAML text (with -o OUT,
    or without: the study directory then comes from OUTPUT_PATH / the cwd)"""
    import subprocess
    d = os.path.join(CLI_DIR, "r%d" % k)
    shutil.rmtree(d, ignore_errors=True)
    os.makedirs(d)
    spec = os.path.join(d, "spec.yaml")
    with open(spec, "w", encoding="utf-8") as f:
        f.write(text + "\n")
    out = os.path.join(d, "out")
    env = dict(os.environ)
    env["PYTHONPATH"] = common.REPO
    env["E2E_MAX_POLLS"] = "200"
    for v in ("E2E_SCRIPTED", "E2E_MARK_LOG", "E2E_POLL_SLEEP", "E2E_STUDY_DIR", "E2E_SNAP_DIR"):
        env.pop(v, None)
    try:
        p = subprocess.run([sys.executable, LAUNCHER, "maestro", "run", "-y", "-fg", "--dry"] +
                           (["-o", out] if use_o else []) + [spec],
                           cwd=d, env=env, stdout=subprocess.PIPE, stderr=subprocess.PIPE, timeout=300,
                           text=True, errors="replace")
        rc, so, se = p.returncode, p.stdout, p.stderr
    except subprocess.TimeoutExpired:
        shutil.rmtree(d, ignore_errors=True)
        return "T", "timeout"
    staged = any(fn.endswith(".pkl") for _, _, fns in os.walk(d) for fn in fns)
    tbs = cli_tracebacks(se + "\n" + so)
    foreign = [n for n in tbs if n not in CLI_CLEAN]
    tail = " | ".join([l for l in se.strip().split("\n") if l.strip()][-2:])[-300:]
    shutil.rmtree(d, ignore_errors=True)
    if foreign:
        return "I", "exit %d, traceback of %s: %s" % (rc, ",".join(foreign), tail)
    if rc == 0:
        return ("A", "exit 0, staged") if staged else ("A?", "exit 0 but no study was staged: " + tail)
    return "D", "exit %d%s: %s" % (rc, (", traceback of " + ",".join(tbs)) if tbs else "", tail)


def cli_bucket(detail):
    import re
    m = re.match(r"(\w+) in (\w+): (.*)", detail or "")
    if not m:
        return ("?",)
    words = re.sub(r"'[^']*'|\d+", "_", m.group(3)).split()
    return (m.group(1), m.group(2), " ".join(words[:4]))


def cli_stream(ck, impl, recs, lits, bad, corpus):
    """run a sample through the real command line and compare classes"""
    quick = ck.tier != "thorough"
    rng = random.Random(ck.seed + 13)
    badset = set(bad)
    jobs = []        # (tag, text, expected class or None, case json)
    elig = [i for i, r in enumerate(recs) if r["cmp"] and i not in badset]
    # every corpus witness the model can express
    for i in elig:
        if recs[i]["tag"].startswith("corpus:"):
            jobs.append(i)
    chosen = set(jobs)
    acc = [i for i in elig if recs[i]["obs"][0] == "A" and i not in chosen and stage_hygiene(loaded(recs[i]["doc"]))
           and plain_batch(recs[i]["doc"])]
    rng.shuffle(acc)
    n_acc = 8 if quick else 120
    jobs += acc[:n_acc]
    buckets = collections.OrderedDict()
    for i in elig:
        if recs[i]["obs"][0] == "D" and i not in chosen:
            buckets.setdefault(cli_bucket(recs[i]["detail"]), []).append(i)
    for b in buckets.values():
        rng.shuffle(b)
    n_rej = 22 if quick else 460
    order = list(buckets.values())
    while n_rej > 0 and any(order):
        for b in order:
            if b and n_rej > 0:
                jobs.append(b.pop())
                n_rej -= 1
    no_o = {t for t, d, j in corpus if d is not None and j.get("use_o") is False}
    work = [(recs[i]["tag"], to_yaml(recs[i]["doc"]), recs[i]["obs"][0], i, recs[i]["tag"] not in no_o) for i in jobs]
    # reserved / common names in every admissible place, with and without -o
    # (expected class = the MODEL's, asked of Coq directly: these run even when the
    # library already disagrees with the model, so that an accepted specification the
    # implementation cannot build is reported with its concrete input)
    n_res = 0
    res_idx = [i for i, r in enumerate(recs) if r["cmp"] and (
        r["tag"].startswith("reserved:") or
        (r["tag"].startswith(("shape:", "alias:run")) and stage_hygiene(loaded(r["doc"]))))]
    if res_idx:
        acc_m, e_m = common.coq_failing("c13_resmodel", HEADER, "jv * result * (list bool * bool)", "case_model_rejects",
                                        [lits[i] for i in res_idx], shard=400, timeout=600)
        for e in e_m:
            ck.mismatch("coqc failed on the reserved-name cases", None, e[1])
        acc_m = set(acc_m) if not e_m else None
        for n, i in enumerate(res_idx):
            want = recs[i]["obs"][0] if acc_m is None else ("A" if n in acc_m else "D")
            for use_o in ((True, False) if recs[i]["tag"].startswith("reserved:") else (True,)):
                work.append((recs[i]["tag"] + (":-o" if use_o else ":no-o"), to_yaml(recs[i]["doc"]), want, i, use_o))
                n_res += 1
    # raw texts (documents outside the model's type): never an internal error
    for t, d, j in corpus:
        if d is None and "yaml_text" in j:
            work.append((t, j["yaml_text"], None, None, True))
    from concurrent.futures import ThreadPoolExecutor
    shutil.rmtree(CLI_DIR, ignore_errors=True)
    os.makedirs(CLI_DIR, exist_ok=True)
    with ThreadPoolExecutor(max_workers=common.NCPU) as ex:
        res = list(ex.map(lambda kw: cli_run(kw[0], kw[1][1], kw[1][4]), enumerate(work)))
    shutil.rmtree(CLI_DIR, ignore_errors=True)
    hist = collections.Counter()
    for (tag, text, want, i, use_o), (got, detail) in zip(work, res):
        ck.count(("cli", text, use_o), nontrivial=True)
        hist["%s->%s" % (want or "raw", got)] += 1
        cj = {"property": PID, "tag": "cli:" + tag, "yaml": text, "cli": {"class": got, "detail": detail},
              "library_class": want, "use_o": use_o}
        if i is not None:
            cj["doc"] = to_json(recs[i]["doc"])
        else:
            cj["yaml_text"] = text
        if got == "A?" and want == "A":
            ck.mismatch("cli:%s: exit 0 but no study directory was staged (%s)" % (tag, detail), cj, detail)
        elif got == "I":
            ck.violation("cli:%s: `maestro run` ended in an internal error (%s) on a document the model %s"
                         % (tag, detail, {"D": "rejects with a diagnostic", "A": "accepts"}.get(want, "never crashes on")),
                         cj)
        elif got == "T":
            ck.mismatch("cli:%s: `maestro run` timed out" % tag, cj, detail)
        elif want == "A" and got == "D":
            ck.violation("cli:%s: the model accepts this specification but `maestro run%s` "
                         "rejects it and stages nothing (%s)" % (tag, " -o OUT" if use_o else "", detail), cj)
        elif want is not None and got != want:
            ck.mismatch("cli:%s: command line %s (%s) but library and model %s" % (tag, got, detail, want), cj, detail)
    ck.cov["cli_runs"] = len(work)
    ck.cov["cli_reserved_name_runs"] = n_res
    ck.cov["cli_outcomes_expected_to_observed"] = dict(sorted(hist.items()))
    ck.cov["cli_rejection_kinds_sampled"] = len(buckets)


def plain_batch(doc):
    """the batch block is not verified by the code and not modelled: accepted
    documents go to the command line only without one or with a local one"""
    b = doc.get("batch") if isinstance(doc, Obj) else None
    return b is None or (isinstance(b, Obj) and b.keys() in ([], ["type"]) and b.get("type", "local") == "local")


def build_cases(ck, impl, rng, tier):
    quick = tier != "thorough"
    prios = priority_enum(impl)
    cases = []     # (tag, doc)
    samples = sample_docs(impl)
    for name, d in samples:
        cases.append(("sample:" + name, d))
    n_valid = 60 if quick else 1500
    valids = [gen_valid(rng, impl, prios) for _ in range(n_valid)]
    for d in valids:
        cases.append(("valid", d))
    cases += exotic_docs(rng, prios)
    cases += reserved_docs()
    cases += shape_docs()
    cases += description_docs()
    cases += alias_docs(rng, valids, 25 if quick else 400)
    cases += exhaustive_single(tiny_doc(), "exh-tiny")
    if not quick:
        cases += exhaustive_single(small_full_doc(), "exh-full")
        for name, d in samples:
            if sum(1 for _ in nodes_of(d)) <= 60:
                cases += exhaustive_single(d, "exh-sample", rng, 8)
    n_mut = 350 if quick else 9000
    bases = [d for _, d in samples] + valids
    for i in range(n_mut):
        b = rng.choice(bases) if rng.random() < 0.8 else small_full_doc()
        tagp = []
        d = b
        for _ in range(1 if rng.random() < 0.8 else 2):
            if rng.random() < 0.4:
                t, d = semantic_mutation(rng, d)
            else:
                t, d = structural_mutation(rng, d)
            tagp.append(t)
        cases.append(("mut:" + "+".join(tagp), d))
    return cases, prios


def evaluate(ck, impl, cases, tag="c13"):
    """run the implementation and Coq on (tag, doc) cases; returns per-case
    records, the literals (None outside H_word) and the failing indices"""
    recs, lits = [], []
    t_impl = time.time()
    # the logging configuration alternates over the cases (not doubled); a tag may fix it
    logs = [forced_log(tg) or LOG_LEVELS[i % len(LOG_LEVELS)] for i, (tg, _) in enumerate(cases)]
    observed = observe_all(impl, [(d, lg) for (_, d), lg in zip(cases, logs)])
    for (tg, doc), lg, (obs, detail, bits) in zip(cases, logs, observed):
        cmp = comparable(doc)
        hw = h_word(doc)
        if obs[0] != "A" and lg != "default":
            detail = "%s [log=%s]" % (detail, lg)
        recs.append({"tag": tg, "doc": doc, "obs": obs, "detail": detail, "bits": bits, "cmp": cmp, "hw": hw,
                     "log": lg})
        lits.append("(%s, %s, (%s, %s))" % (g_jv(doc), g_result(obs),
                                          common.g_list([common.g_bool(b) for b in bits]), common.g_bool(cmp))
                    if hw else None)
    ck.notes.setdefault("timing_s", {})["impl_only"] = round(time.time() - t_impl, 1)
    idx = [i for i, l in enumerate(lits) if l is not None]
    bad, errs = common.coq_failing(tag, HEADER, "jv * result * (list bool * bool)", "case_ok",
                                   [lits[i] for i in idx],
                                   shard=max(60, min(250, -(-len(idx) // common.NCPU))), timeout=1500)
    bad = [idx[i] for i in bad]
    # outside H_word: the Python-evaluable part of the monitor only
    for i, r in enumerate(recs):
        if not r["hw"] and not python_monitor(r["doc"], r["obs"]) and not (
                r["obs"][0] == "A" and has_dup_keys(r["doc"])):
            ck.violation("%s: implementation %s (%s) -- internal error or changed step list (document outside "
                         "H_word, Python-side monitor)" % (r["tag"], r["obs"][0], r["detail"]),
                         case_json(r["tag"], r["doc"], r["obs"], r["detail"], r.get("log")))
    return recs, lits, bad, errs


_W_IMPL = None


def _worker_init():
    global _W_IMPL
    _W_IMPL = Impl()


def _worker_obs(item):
    n0 = _W_IMPL.stage_runs
    try:
        obs, detail, bits = observe(_W_IMPL, item[0], item[1])
    except Exception as e:       # never let a worker die: the parent re-raises
        return None, repr(e), None, 0
    return obs, detail, bits, _W_IMPL.stage_runs - n0


def observe_all(impl, docs):
    """the implementation's observable for every document; big batches are
    spread over a few forked worker processes (each imports /repo itself)"""
    if len(docs) < 3000:
        return [observe(impl, d, lg) for d, lg in docs]
    import multiprocessing
    ctx = multiprocessing.get_context("fork")
    with ctx.Pool(min(6, max(2, common.NCPU // 3)), initializer=_worker_init) as pool:
        res = pool.map(_worker_obs, docs, chunksize=64)
    out = []
    for obs, detail, bits, st in res:
        if obs is None:
            raise RuntimeError("observation failed in a worker: %s" % detail)
        impl.stage_runs += st
        out.append((obs, detail, bits))
    return out


def explain(lit):
    return common.coq_eval("c13_detail", HEADER, "case_detail %s" % lit, timeout=300)


K5_ID = "K5-dupkeys"
K5_WHAT = ("a mapping that repeats a key is merged silently by the YAML loader before verification "
           "(witness corpus/C13/k5_duplicate_yaml_keys.json)")


def judge(ck, recs, lits, bad, errs, limit=4):
    """classify the failing cases inside Coq (three boolean passes over the
    failing subset), explain only a few of them"""
    for e in errs:
        ck.mismatch("coqc failed on a cases file", None, e[1])
    if not bad:
        return
    sub = [lits[i] for i in bad]
    ty = "jv * result * (list bool * bool)"
    # failing(case_corr) = model/implementation or interpreter/jsonschema disagree
    # failing(case_mon)  = the monitor is false on the implementation's outcome
    # failing(case_notk5) = the known-finding signature K5 holds
    # failing(case_model_rejects) = the model ACCEPTS the document
    from concurrent.futures import ThreadPoolExecutor
    with ThreadPoolExecutor(max_workers=4) as ex:
        futs = [ex.submit(common.coq_failing, "c13_j%d" % k, HEADER, ty, fn, sub, 250, 1500)
                for k, fn in enumerate(("case_corr", "case_mon", "case_notk5", "case_model_rejects"), 1)]
        (corr_bad, e1), (mon_bad, e2), (k5, e3), (macc, e4) = [f.result() for f in futs]
    for e in e1 + e2 + e3 + e4:
        ck.mismatch("coqc failed while classifying failing cases", None, e[1])
    corr_bad, mon_bad, k5, macc = set(corr_bad), set(mon_bad), set(k5), set(macc)
    explained = 0
    for n, i in enumerate(bad):
        r = recs[i]
        what = "%s: implementation %s (%s)" % (r["tag"], r["obs"][0], r["detail"])
        cj = None
        if n in mon_bad:
            if n in k5:
                ck.known_hit(K5_ID, K5_WHAT)
            else:
                cj = case_json(r["tag"], r["doc"], r["obs"], r["detail"], r.get("log"))
                ck.violation(what + " -- C13_ok is false on the implementation's outcome", cj)
        elif (n in macc and r["cmp"] and r["obs"][0] == "D" and " in load:" not in r["detail"]):
            # "every accepted specification can be converted to steps, environment and
            # parameters": the implementation's own validation passed, the document breaks
            # no documented rule (the model accepts it: C13_monitor), a consumer refused it
            cj = case_json(r["tag"], r["doc"], r["obs"], r["detail"], r.get("log"))
            ck.violation(what + " -- the specification passed verification and breaks no documented rule (the "
                         "model accepts it) but cannot be converted to an environment / steps / parameters / Study",
                         cj)
        if n in corr_bad or (n not in mon_bad):
            cj = cj or case_json(r["tag"], r["doc"], r["obs"], r["detail"], r.get("log"))
            det = ""
            if explained < limit:
                explained += 1
                det = explain(lits[i])[-1500:]
            ck.mismatch(what + " -- model/implementation or interpreter/jsonschema disagree", cj, det)


def run(ck):
    t0 = time.time()
    shutil.rmtree(WORKDIR, ignore_errors=True)
    os.makedirs(WORKDIR, exist_ok=True)
    from translate import regen
    st = regen.status().get("tdata_enums", {})
    ck.notes["tdata_enums"] = "regenerated" if st.get("ok") else "not-translatable: %s" % st.get("not_translatable")
    tm = ck.notes.setdefault("timing_s", {})
    ck.build_proofs(extra_targets=["theories/Spec/VerifyGenProofs.vo"])
    tm["build_proofs"] = round(time.time() - t0, 1)
    try:
        impl = Impl()
    except Exception as e:
        ck.mismatch("cannot import the specification front end of /repo: %r" % (e,), None)
        return ck.finish()
    rng = random.Random(ck.seed)
    corpus = load_corpus()
    cases = [(t, d) for t, d, _ in corpus if d is not None]
    gen, prios = build_cases(ck, impl, rng, ck.tier)
    cases += gen
    t1 = time.time()
    recs, lits, bad, errs = evaluate(ck, impl, cases)
    tm["impl_and_coq_cases"] = round(time.time() - t1, 1)
    hist = collections.Counter()
    outcome = collections.Counter()
    for r in recs:
        kind = r["tag"].split("@")[0]
        kind = kind.split(":")[0] + ":" + kind.split(":")[1].split("-")[0] if ":" in kind else kind
        if kind.startswith("sample:") or kind.startswith("corpus:"):
            kind = kind.split(":")[0]
        hist[kind] += 1
        outcome[r["obs"][0]] += 1
        ck.count(to_yaml(r["doc"]), nontrivial=True)
        if r["tag"].startswith(("mut:", "valid")):
            ck.sample({"tag": r["tag"], "yaml": to_yaml(r["doc"])[:600], "impl": r["obs"][0]}, limit=4)
    t1 = time.time()
    judge(ck, recs, lits, bad, errs)
    tm["judge"] = round(time.time() - t1, 1)
    t1 = time.time()
    cli_stream(ck, impl, recs, lits, bad, corpus)
    tm["cli"] = round(time.time() - t1, 1)
    t1 = time.time()
    # the interpreter against jsonschema on random values
    n_int = 400 if ck.tier != "thorough" else 6000
    ic = interp_cases(rng, impl, n_int)
    ilits = ["(%d, %s, %s, %s)" % (i, g_path(p), g_jv(v), common.g_bool(js)) for i, p, v, js in ic]
    ibad, ierrs = common.coq_failing("c13_interp", HEADER, "nat * path * jv * bool", "interp_ok", ilits, shard=400)
    for i in ibad[:10]:
        sec, p, v, js = ic[i]
        ck.mismatch("schema interpreter and jsonschema disagree", {"section": sec, "path": list(p),
                                                                    "value": to_json(v), "jsonschema": js})
    for e in ierrs:
        ck.mismatch("coqc failed on the interpreter cases", None, e[1])
    for i, p, v, js in ic:
        ck.count(("interp", i, p, to_yaml(v)), nontrivial=True)
    tm["interp"] = round(time.time() - t1, 1)
    t1 = time.time()
    check_enums(ck, impl, prios)
    tm["enums"] = round(time.time() - t1, 1)
    # known-finding witnesses
    for t, d, j in corpus:
        if d is None and "yaml_text" in j:
            raw_text_case(ck, impl, t, j["yaml_text"])
        elif d is None:
            ck.mismatch("unreadable corpus file %s" % t, j)
    raws = raw_key_texts() + description_raw_texts()
    for k, (tg, text) in enumerate(raws):
        raw_text_case(ck, impl, tg, text, forced_log(tg) or LOG_LEVELS[k % len(LOG_LEVELS)])
    ck.cov["raw_text_cases_nonstring_keys"] = len(raws)
    ck.cov["rule"] = ("documents = corpus + repo samples + generated valid specifications (full range of "
                      "schema-admitted values per key) + every single-point mutation of a small document "
                      "(thorough: of a full-featured one in full, and of every small repo sample with 8 seeded pool values per node for the retype edit) + seeded structural and "
                      "semantic mutations + exotic shapes; a case is distinct by its YAML text; all cases are "
                      "non-trivial (each runs the real front end and the model); interp = random values against "
                      "every sub-schema (Gallina interpreter vs jsonschema)")
    ck.cov["traces_validated_against_impl"] = len(recs)
    ck.cov["input_distribution"] = dict(sorted(hist.items()))
    ck.cov["impl_outcomes"] = dict(outcome)
    ck.cov["compared_with_model"] = sum(1 for r in recs if r["cmp"])
    ck.cov["outside_H_word_python_monitor_only"] = sum(1 for r in recs if not r["hw"])
    ck.cov["staged"] = impl.stage_runs
    ck.cov["interpreter_cases"] = len(ic)
    ck.cov["priority_enum_from_schema"] = prios
    shutil.rmtree(WORKDIR, ignore_errors=True)

    def search():
        rng2 = random.Random(ck.seed + 1)
        impl2 = Impl()
        more, _ = build_cases(ck, impl2, rng2, "thorough")
        for tg, doc in more:
            try:
                obs, detail, _ = observe(impl2, doc)
            except Exception:
                continue
            if not python_monitor(doc, obs) and not (obs[0] == "A" and has_dup_keys(doc)):
                return ("%s: implementation %s (%s)" % (tg, obs[0], detail), case_json(tg, doc, obs, detail))
        return None
    return ck.finish(search=search)


def has_dup_keys(d):
    if isinstance(d, Obj):
        ks = d.keys()
        return len(set(ks)) != len(ks) or any(has_dup_keys(v) for _, v in d.kv)
    if isinstance(d, list):
        return any(has_dup_keys(x) for x in d)
    return False


def replay(ck, path):
    j = json.load(open(path))
    cj = j.get("case") or j
    impl = Impl()
    cli_rc = 0
    if str(cj.get("tag", "")).startswith("cli:") and (cj.get("yaml") or cj.get("yaml_text")):
        os.makedirs(CLI_DIR, exist_ok=True)
        got, detail = cli_run(0, cj.get("yaml") or cj.get("yaml_text"), cj.get("use_o", True))
        print("command line  :", got, detail)
        if got == "I" or (cj.get("library_class") and got != cj["library_class"]):
            cli_rc = 1
            print("verdict (cli) : FAIL")
        else:
            print("verdict (cli) : ok")
    if "yaml_text" in cj and "doc" not in cj:
        ok = raw_text_case(ck, impl, cj.get("tag", "replay"), cj["yaml_text"], cj.get("log"))
        print("document      :", cj["yaml_text"][:2000])
        print("implementation:", impl.run(cj["yaml_text"], False))
        print("verdict       :", "ok" if ok else "FAIL")
        return 0 if ok and not cli_rc else 1
    doc = from_json(cj["doc"])
    obs, detail, bits = observe(impl, doc, cj.get("log") or forced_log(str(cj.get("tag", ""))) or "default")
    print("logging       :", cj.get("log") or forced_log(str(cj.get("tag", ""))) or "default")
    lit = "(%s, %s, (%s, %s))" % (g_jv(doc), g_result(obs), common.g_list([common.g_bool(b) for b in bits]),
                                 common.g_bool(comparable(doc)))
    print("document      :", to_yaml(doc)[:2000])
    print("implementation:", obs, detail)
    print("jsonschema    :", bits)
    if not h_word(doc):
        ok = python_monitor(doc, obs) or (obs[0] == "A" and has_dup_keys(doc))
        print("outside H_word (non-ASCII alphanumerics): Python-side monitor only")
        print("verdict       :", "ok" if ok else "FAIL")
        return 0 if ok else 1
    print("model (verify_and_build, (C13_ok on impl outcome, K5 signature), schema bits):")
    print(explain(lit))
    bad, errs = common.coq_failing("c13_replay", HEADER, "jv * result * (list bool * bool)", "case_ok", [lit])
    print("verdict       :", "FAIL" if bad or errs else "ok")
    return 1 if bad or errs or cli_rc else 0

"""C08 -- parameter expansion creates exactly the right instances and edges.

Correspondence between the real `Study.stage()` (study built the way
maestro.py's run_study builds it: StudyEnvironment + ParameterGenerator +
StudyStep list -> Study(...), setup_workspace, configure_study,
setup_environment, stage) and the Gallina model coq/theories/Expand/Expand.v
(`stage_c`), plus the monitor `C08_ok` -- the right-hand sides of the theorems
of Props/C08.v -- evaluated inside Coq on the IMPLEMENTATION's graph.

A case is a JSON object
  {"rlimit": n,
   "params": [{"key": K, "name": str|null, "values": [int|float|str...], "label": str|[str...]|null}],
   "steps":  [{"name": s, "description": d, "run": {"cmd":..., "depends": [...], "restart":..., ...}}],
   "ptoken": str?   (parameter token of a custom ParameterGenerator(token=...); texts stay written with "$")
   "ltoken": str?   (label token of a custom ParameterGenerator(ltoken=...); model: LTK)
   "stream": "...", "restage": ["same"|"toggle"|"meta", ...]?}   (restage: see stage_all)
Observable of a staging: the used-parameter table (`study.used_params`), and
for every node of the ExecutionGraph in `values` order: name, adjacency list,
`_dependencies` (a set: listed in `values` order), restart limit, record
params (in dict order, values through str()), workspace relative to the root,
description / cmd / restart / remaining string fields / depends of the
expanded StudyStep.  Exceptions: Err 1 = the Study constructor raised, Err 2 =
stage() raised.

The same file also validates the two hand-written scanners of Expand.v against
Python's `re` (the used-parameter regex of parameters.py and WSREGEX of
study.py, both read from the live modules) on generated texts.

Streams: corpus | valid (inside hygiene H8) | prefix (parameter names that are
prefixes of one another, the case repaired by 90c92b9) | exotic (custom labels
that collide = K2, instance names equal to step names = K2b, references to
non-ancestors, adjacent workspace references, dangling/late dependencies,
empty value lists ...) | tiny (exhaustive small scope).

Parameter token (ParameterGenerator(token=...), custom pgen): a case with "ptoken" is run on the implementation
with every parameter-token head "$(" of its texts rewritten to ptoken + "(" and a generator constructed with that
token; the expanded texts are mapped back before the comparison with the model, which keeps "$" (a sound
reduction: the implementation treats the token as an opaque literal prefix).  Before the fix of get_combinations /
_get_used_parameters (Combination() was built with the default token; the raw token was spliced into the regex)
"@(N)" was detected as a use but never substituted and token "P" raised re.error: corpus/C08/ptoken_at.json.

Verdict per case (`classify`): the monitor `C08_ok` false on the implementation's
graph inside H8 (`hygb`, the hypothesis of theorem C08_monitor_holds) is a
VIOLATION; false outside H8 is a KNOWN-FINDING when the input has the signature
`sig_label_join` (K2) / `sig_name_clash` (K2b) listed in KNOWN_FINDINGS.txt and
the model reproduces the implementation's graph, and is only counted
("out_of_domain") when the specification depends on something that is not a
step (e.g. "_source_*"); any other disagreement of model and implementation is
a correspondence mismatch.
"""
import glob
import json
import os
import random
import re
import shutil
import sys

from harness import common

PID = "C08"

HEADER = """From Coq Require Import List Arith Bool NArith.
From MWF Require Import Base.Str Base.Util Expand.PyStr Expand.Expand.
Import ListNotations.
Definition P_ := mkP.
Definition S_ := mkS.
Definition Sp := mkSpec.
Definition O_ := mkO.
Definition Ob := mkObs.
Definition K_ := @Ok obs.
Definition E_ := @Err obs.
"""

DEFAULT_RUN_KEYS = ["cmd", "depends", "pre", "post", "restart", "nodes", "procs", "gpus",
                    "cores per task", "walltime", "reservation"]
SPECIAL = ("cmd", "restart", "depends")


# ----------------------------------------------------------------------------
# implementation side
# ----------------------------------------------------------------------------
def quiet():
    import logging
    logging.disable(logging.CRITICAL)


def run_items(step):
    """(key, value) of the run dict as get_study_steps builds it."""
    run = {k: "" for k in DEFAULT_RUN_KEYS}
    for k, v in step["run"].items():
        run[k] = v
    return run


def rest_keys(step):
    return [k for k, v in run_items(step).items()
            if k not in SPECIAL and isinstance(v, str) and v != ""]


PTOKENS = ["@", "P", "%%", "#", "$$"]
_PTOK_RE = re.compile(r"\$\((?!WORKSPACE\))(?![^\s()$]*\.workspace\))")


def to_tok(text, tok):
    """The case's texts are written with the default parameter token "$" (the model's input).  For a case with
    "ptoken" the implementation is given the same text with every PARAMETER-token head "$(" rewritten to
    tok + "(" ($(WORKSPACE) and $(x.workspace) are study.py's own, token-independent syntax and stay)."""
    return _PTOK_RE.sub(lambda m: tok + "(", text) if isinstance(text, str) else text


def from_tok(text, tok):
    """inverse on the implementation's expanded texts (unsubstituted near-miss tokens come back as "$(")"""
    return text.replace(tok + "(", "$(") if isinstance(text, str) else text


def ptoken_of(case):
    t = case.get("ptoken")
    return t if t not in (None, "$") else None


def build_study(case, root):
    """Exactly the calls of maestro.run_study (no YAML file: the objects that
    YAMLSpecification.get_study_environment/get_parameters/get_study_steps
    would return are built directly)."""
    from maestrowf.datastructures.core import Study, StudyStep, ParameterGenerator, StudyEnvironment
    from maestrowf.datastructures.environment import Variable
    env = StudyEnvironment()
    env.add(Variable("OUTPUT_PATH", root))
    env.add(Variable("SPECROOT", os.path.dirname(root)))
    # a custom pgen may construct the generator with its own label token (the parameter token `token`
    # stays "$": get_combinations builds Combination() with the default token, see the module docstring)
    kw = {}
    if case.get("ltoken") is not None:
        kw["ltoken"] = case["ltoken"]
    tok = ptoken_of(case)
    if tok is not None:
        kw["token"] = tok
    params = ParameterGenerator(**kw)
    for p in case["params"]:
        if p.get("name"):
            params.add_parameter(p["key"], list(p["values"]), p.get("label"), p["name"])
        else:
            params.add_parameter(p["key"], list(p["values"]), p.get("label"))
    steps = []
    for st in case["steps"]:
        s = StudyStep()
        s.name = st["name"]
        s.description = to_tok(st["description"], tok) if tok else st["description"]
        for k, v in st["run"].items():
            s.run[k] = (to_tok(v, tok) if tok else v) if not isinstance(v, list) else list(v)
        steps.append(s)
    study = Study("c08_study", {"name": "c08_study", "description": "generated"},
                  studyenv=env, parameters=params, steps=steps, out_path=root)
    return study


def configure(study, case, dry=True):
    study.setup_workspace()
    study.configure_study(throttle=0, submission_attempts=1, restart_limit=case["rlimit"],
                          use_tmp=False, hash_ws=False, dry_run=dry)
    study.setup_environment()


def rel_ws(ws, root):
    if ws == root:
        return ""
    if ws.startswith(root + "/"):
        return ws[len(root) + 1:]
    return "ABS:" + ws


def observe_dag(case, study, dag, root):
    names = list(dag.values.keys())
    pos = {n: i for i, n in enumerate(names)}
    by_name = {st["name"]: st for st in case["steps"]}
    nodes = []
    for n in names:
        rec = dag.values[n]
        kids = list(dag.adjacency_table[n])
        deps = sorted(dag._dependencies.get(n, ()), key=lambda d: pos.get(d, 10 ** 6))
        if rec is None:
            nodes.append({"name": n, "kids": kids, "deps": deps, "rec": False})
            continue
        step = rec.step
        # the remaining non-empty string entries of the expanded run dict (read off the record itself:
        # when an instance name equals another step's name -- outside H8 -- `orig` is ambiguous)
        rk = [k for k, v in step.run.items() if k not in SPECIAL and isinstance(v, str) and v != ""]
        nodes.append({
            "name": n, "kids": kids, "deps": deps, "rec": True,
            "ws": rel_ws(rec.workspace.value, root),
            "rlimit": int(rec.restart_limit),
            "params": [[str(k), str(v)] for k, v in rec.params.items()],
            "desc": str(step.description), "cmd": str(step.run["cmd"]),
            "restart": str(step.run["restart"]),
            "rest": [[k, str(step.run.get(k))] for k in rk],
            "sdeps": [str(d) for d in (step.run["depends"] or [])],
            "display": str(step.name),
        })
    tok = ptoken_of(case)
    if tok:                       # back to the model's token before comparing (see to_tok)
        for nd in nodes:
            if nd.get("rec"):
                for f in ("desc", "cmd", "restart"):
                    nd[f] = from_tok(nd[f], tok)
                nd["rest"] = [[k, from_tok(v, tok)] for k, v in nd["rest"]]
    used = [[k, sorted(v)] for k, v in study.used_params.items()]
    return {"ok": True, "used": used, "nodes": nodes}


def stage_real(case, root, dry=True):
    """Returns (observable, study, dag).  Exceptions of the code under test
    become observables, never escape."""
    quiet()
    os.makedirs(os.path.dirname(root), exist_ok=True)
    try:
        study = build_study(case, root)
    except Exception as e:
        return {"ok": False, "err": 1, "exc": type(e).__name__, "msg": str(e)[:200]}, None, None
    try:
        configure(study, case, dry)
        _, dag = study.stage()
    except Exception as e:
        return {"ok": False, "err": 2, "exc": type(e).__name__, "msg": str(e)[:200]}, study, None
    try:
        return observe_dag(case, study, dag, root), study, dag
    except Exception as e:      # a mutated tree may hand back something unobservable
        return {"ok": False, "err": 3, "exc": type(e).__name__, "msg": str(e)[:200]}, study, dag


def scan_real(case):
    """The two regexes, read from the live modules, on the case's probe texts."""
    out = {"scan": [], "ws": []}
    try:
        from maestrowf.datastructures.core.parameters import ParameterGenerator
        from maestrowf.datastructures.core import study as study_mod
        for key, text in case.get("scan", []):
            pg = ParameterGenerator()
            pg.add_parameter(key, [0], None)
            got = set()
            pg._get_used_parameters(text, got)
            out["scan"].append(bool(got))
        for text in case.get("ws", []):
            out["ws"].append([str(x) for x in re.findall(study_mod.WSREGEX, text)])
    except Exception as e:
        out["exc"] = type(e).__name__
    return out


# ----------------------------------------------------------------------------
# Gallina literals
# ----------------------------------------------------------------------------
g_str = common.g_str


def g_strs(l):
    return common.g_list([g_str(x) for x in l])


def g_kvs(l):
    return common.g_list(["(%s, %s)" % (g_str(k), g_str(v)) for k, v in l])


def pystr(v):
    return str(v)


def g_spec(case, root="/R"):
    ps = []
    for p in case["params"]:
        lab = p.get("label")
        if isinstance(lab, list):
            gl = "(LL %s)" % g_strs([str(x) for x in lab])
        elif case.get("ltoken") is not None:
            gl = "(LTK %s %s)" % (g_str(case["ltoken"]), g_str(lab or ""))
        else:
            gl = "(LT %s)" % g_str(lab or "")
        ps.append("P_ %s %s %s %s" % (g_str(p["key"]), g_str(p.get("name") or ""),
                                      g_strs([pystr(v) for v in p["values"]]), gl))
    ss = []
    for st in case["steps"]:
        run = run_items(st)
        deps = run.get("depends") or []
        rest = [(k, run[k]) for k in rest_keys(st)]
        ss.append("S_ %s %s %s %s %s %s" % (g_str(st["name"]), g_str(st["description"]),
                                            g_strs(deps), g_str(run["cmd"] or ""),
                                            g_str(run["restart"] or ""), g_kvs(rest)))
    return "(Sp %s %d %s %s)" % (g_str(root), case["rlimit"], common.g_list(ps), common.g_list(ss))


def g_obs(o):
    if not o["ok"]:
        return "(E_ %d)" % (o["err"] if o["err"] in (1, 2) else 7)
    nodes = []
    for n in o["nodes"]:
        if n["rec"]:
            nodes.append("O_ %s %s %s true %s %d %s %s %s %s %s %s" % (
                g_str(n["name"]), g_strs(n["kids"]), g_strs(n["deps"]), g_str(n["ws"]),
                n["rlimit"], g_kvs(n["params"]), g_str(n["desc"]), g_str(n["cmd"]),
                g_str(n["restart"]), g_kvs(n["rest"]), g_strs(n["sdeps"])))
        else:
            nodes.append("O_ %s %s %s false [] 0 [] [] [] [] [] []" % (
                g_str(n["name"]), g_strs(n["kids"]), g_strs(n["deps"])))
    used = common.g_list(["(%s, %s)" % (g_str(k), g_strs(v)) for k, v in o["used"]])
    return "(K_ (Ob %s %s))" % (used, common.g_list(nodes))


def g_case(case, o, root="/R"):
    return "(%s, %s)" % (g_spec(case, root), g_obs(o))


def relativise(o, root, placeholder="/R"):
    """Replace the absolute output root by the placeholder the model is run with."""
    return json.loads(json.dumps(o).replace(root, placeholder))


# ----------------------------------------------------------------------------
# generators
# ----------------------------------------------------------------------------
STEP_NAMES = ["a", "b", "c", "ab", "a_b", "a-b", "gen", "sim", "post-1", "s2", "run.x", "Z9", "mesh", "mesh_"]
# keys are word characters plus regex-harmless punctuation (legal in maestrowf, e.g. MAT-ID; the key is
# spliced unescaped into the used-parameter regex): H8's word_key admits  - : @ % ~ , ! =
KEYS_FREE = ["SIZE", "ITER", "N", "T_1", "alpha", "B2", "MAT-ID", "T:1", "x@y", "p~q", "a,b", "W!", "k=v", "pc%"]
KEYS_PREFIX = ["SIZE", "SIZEX", "SIZEXY", "N", "NX", "N_", "A", "AB", "MAT-ID", "MAT", "ID", "MAT-ID2", "MAT-", "A:B", "A:"]
STR_VALS = ["x", "y", "lo", "hi", "v1", "v-2", "a.b", "Q"]
# label tokens of a custom ParameterGenerator(ltoken=...): plain, multi-character, regex metacharacters, format braces
LTOKENS = ["##", "@", "<>", "%", "#", "@@@", ".*", "(", "[a]", "\\", "{}", "+", "%%%", "$", "^%%"]
LTOKENS_EXOTIC = ["N", ".", "1", "_", "SIZE", "%% "]      # overlap keys / values / separators


def gen_values(rng, n, kind=None):
    kind = kind or rng.choice(["int", "int", "float", "str", "mixed"])
    pool = {"int": [1, 2, 3, 10, 20], "float": [0.5, 1.0, 2.5, 10.0],
            "str": STR_VALS}.get(kind)
    if pool is None:
        pool = [1, 2, "1", "x", 1.5, 10, "lo"]
    k = rng.randint(1, min(len(pool), 3))          # few distinct values: repeats are common
    sub = rng.sample(pool, k)
    return [rng.choice(sub) for _ in range(n)]


def gen_label(rng, key, values, exotic=False):
    r = rng.random()
    if r < 0.55:
        return "%s.%%%%" % key
    if r < 0.70:
        return rng.choice(["%%", key + "%%", "p_%%", "%%-" + key.lower(), "L.%%.e", "v%%-%%"])
    if r < 0.80:
        return None                                 # ParameterGenerator's default
    if r < 0.92 or not exotic:
        # per-row label list (custom pgen): a function of the value
        return ["%s-%s" % (key[:1], str(v).replace(".", "_")) for v in values]
    return rng.choice(["const", "a.b", "%%.%%"])     # non-injective / dotted: exotic


def token_frag(rng, keys, all_keys_like):
    k = rng.choice(keys) if keys and rng.random() < 0.8 else rng.choice(all_keys_like)
    r = rng.random()
    if r < 0.45:
        return "$(%s)" % k
    if r < 0.6:
        return "$(%s.label)" % k
    if r < 0.7:
        return "$(%s.name)" % k
    if r < 0.76:
        return "$(%s.foo)" % k          # counts as a use, substitutes nothing
    # near misses: never a use
    return rng.choice(["$(%s", "$(%s.)", "$(%s.la-bel)", "$ (%s)", "$(%s )", "$(%sq)", "$((%s))x", "(%s)",
                       "$%s", "$(%s.label", "$(.%s)"]) % k


def gen_text(rng, keys, likes, wsnames, p_tok=0.5, p_ws=0.3, own=True):
    words = ["echo", "run", "--n", "out.txt", ">", "data", "&&", "ls", "-l", "x=1"]
    parts = [rng.choice(words)]
    for _ in range(rng.randint(0, 3)):
        r = rng.random()
        if r < p_tok and likes:
            parts.append(token_frag(rng, keys, likes))
        elif r < p_tok + p_ws and wsnames:
            w = rng.choice(wsnames)
            parts.append("$(%s.workspace)%s" % (w, rng.choice(["", "/out.dat", "/d/f"])))
        elif r < p_tok + p_ws + 0.1 and own:
            parts.append("$(WORKSPACE)/log")
        else:
            parts.append(rng.choice(words))
    return " ".join(parts)


def ancestors(steps_deps, k):
    """indices of the transitive (ordinary or funnel) ancestors of step k"""
    seen, todo = set(), list(steps_deps[k])
    while todo:
        j = todo.pop()
        if j not in seen:
            seen.add(j)
            todo.extend(steps_deps[j])
    return seen


def gen_case(rng, stream):
    exotic = stream == "exotic"
    nsteps = rng.choice([1, 2, 2, 3, 3, 4, 4, 5, 6])
    names = rng.sample(STEP_NAMES, nsteps)
    pool = KEYS_PREFIX if stream == "prefix" or (exotic and rng.random() < 0.3) else KEYS_FREE
    nparams = rng.choice([0, 1, 1, 2, 2, 3, 4]) if stream != "prefix" else rng.choice([2, 3, 4])
    keys = rng.sample(pool, min(nparams, len(pool)))
    if stream == "prefix" and rng.random() < 0.4:      # a family of keys that are prefixes / parts of one another
        fam = rng.choice([["MAT-ID", "MAT", "ID", "MAT-ID2"], ["SIZE", "SIZEX", "SIZEXY"], ["A", "AB", "A:B", "A:"]])
        keys = rng.sample(fam, min(max(nparams, 2), len(fam)))
    nrows = rng.randint(1, 5)
    if exotic and rng.random() < 0.05:
        nrows = 0
    params = []
    for k in keys:
        vals = gen_values(rng, nrows)
        params.append({"key": k, "name": rng.choice([None, None, k.lower() + "_nm", "Name of " + k]),
                       "values": vals, "label": gen_label(rng, k, vals, exotic)})
    ltoken = None
    if rng.random() < 0.25:
        ltoken = rng.choice(LTOKENS + (LTOKENS_EXOTIC if exotic else []))
        for p in params:           # templates are written with the generator's own token (once / twice); in the
            if isinstance(p["label"], str) and not (exotic and rng.random() < 0.2):   # exotic stream some keep "%%" = no token at all
                p["label"] = p["label"].replace("%%", ltoken)
    likes = keys + [k for k in pool if k not in keys][:2]
    dep_idx = []
    steps = []
    for k in range(nsteps):
        deps, idx = [], []
        if k > 0:
            for j in range(k):
                if rng.random() < (0.45 if nsteps <= 3 else 0.3):
                    idx.append(j)
                    kind = rng.random()
                    deps.append(names[j] if kind < 0.6 else names[j] + ("_*" if kind < 0.93 else "*"))
            rng.shuffle(deps)
        dep_idx.append(idx)
        anc = [names[j] for j in ancestors(dep_idx, k)]
        wsn = list(anc)
        if exotic and rng.random() < 0.3:
            wsn = wsn + [rng.choice(names), "_source", "nosuch"]
        use_keys = [x for x in keys if rng.random() < 0.5]
        run = {"cmd": gen_text(rng, use_keys, likes if use_keys or rng.random() < 0.3 else [], wsn)}
        if deps:
            run["depends"] = deps
        elif rng.random() < 0.3:
            run["depends"] = []
        if rng.random() < 0.4:
            run["restart"] = gen_text(rng, use_keys, likes if rng.random() < 0.5 else [], wsn, p_tok=0.3)
        if rng.random() < 0.35 and likes:
            k1 = rng.choice(likes)
            run[rng.choice(["nodes", "procs", "walltime", "cores per task", "gpus"])] = \
                rng.choice(["$(%s)" % k1, 2, "00:10:00", "$(%s.label)" % k1])
        if rng.random() < 0.2:
            run[rng.choice(["pre", "post", "reservation", "custom key"])] = \
                gen_text(rng, use_keys, likes, [], p_tok=0.6, own=False)
        desc = rng.choice(["step", "does things", gen_text(rng, use_keys, likes, [], p_tok=0.5, own=False)])
        steps.append({"name": names[k], "description": desc, "run": run})
    if exotic:
        r = rng.random()
        if r < 0.15 and keys and steps:            # an instance name equal to a step name
            p = params[0]
            lab = p["label"] if isinstance(p["label"], str) and p["label"] else "%s.%s" % (p["key"], ltoken or "%%")
            if p["values"]:
                extra = "%s_%s" % (steps[0]["name"], lab.replace(ltoken or "%%", str(p["values"][0])))
                steps[0]["run"]["cmd"] += " $(%s)" % p["key"]
                if extra not in [s["name"] for s in steps]:
                    steps.insert(rng.randint(0, len(steps)),
                                 {"name": extra, "description": "clash", "run": {"cmd": "echo clash"}})
        elif r < 0.3 and len(keys) >= 2 and nrows >= 2:     # K2: dotted custom labels
            params[0]["label"] = ["a.b", "a"] + ["r%d" % i for i in range(nrows - 2)]
            params[1]["label"] = ["c", "b.c"] + ["q%d" % i for i in range(nrows - 2)]
            params[0]["values"] = ["u%d" % i for i in range(nrows)]
            params[1]["values"] = ["w%d" % i for i in range(nrows)]
            steps[-1]["run"]["cmd"] += " $(%s) $(%s)" % (params[0]["key"], params[1]["key"])
        elif r < 0.4 and len(steps) >= 2:          # dependency on a later / unknown step
            steps[0]["run"]["depends"] = [rng.choice([steps[-1]["name"], "ghost", steps[0]["name"] + "_*"])]
        elif r < 0.5 and len(steps) >= 2:          # adjacent workspace references (K4a of C09)
            steps[-1]["run"]["cmd"] += " $(%s.workspace)/$(%s.workspace)" % (steps[0]["name"], steps[0]["name"])
        elif r < 0.55 and len(steps) >= 2:         # duplicate step name
            steps[-1]["name"] = steps[0]["name"]
    case = {"rlimit": rng.choice([0, 1, 3]), "params": params, "steps": steps, "stream": stream}
    if ltoken is not None:
        case["ltoken"] = ltoken
    return case


def gen_sibling(rng, base):
    """Another study over the SAME parameter keys, step names (and env variable names) as `base` but with
    different label templates / label lists, display names, values and row count: built in the same batch
    before `base` is staged, it exposes tables shared between the objects of different studies."""
    import copy
    c = copy.deepcopy({k: base[k] for k in ("rlimit", "params", "steps")})
    lt = rng.choice([None, None, "%%", "##", "@", "<>"])      # its own label token
    if lt is not None:
        c["ltoken"] = lt
    nrows = rng.randint(1, 5)
    for p in c["params"]:
        k = p["key"]
        p["values"] = gen_values(rng, nrows)
        p["name"] = rng.choice([None, "cells", k.lower() + "_sib", "Sibling " + k])
        p["label"] = rng.choice(["n%%", "%%_" + k[:1].lower(), "s.%%", k + "-%%", None,
                                 ["r%d" % (i % 3) + str(v).replace(".", "_") for i, v in enumerate(p["values"])]])
        if isinstance(p["label"], str):
            p["label"] = p["label"].replace("%%", lt or "%%")
    for st in c["steps"]:
        if rng.random() < 0.5:
            st["run"]["cmd"] = st["run"]["cmd"] + rng.choice(["", " # sib", " $(%s.label)" % c["params"][0]["key"]
                                                               if c["params"] else ""])
        st["description"] = rng.choice([st["description"], "sibling"])
    c["rlimit"] = rng.choice([0, 1, 3])
    c["stream"] = "sibling"
    return c


def gen_sibling_batches(rng, n):
    """n batches [base, sibling, sibling(, sibling)] with a random staging order"""
    out = []
    while len(out) < n:
        base = gen_case(rng, rng.choice(["valid", "valid", "prefix"]))
        if not base["params"]:
            continue
        base["stream"] = "sibling"
        batch = [base] + [gen_sibling(rng, base) for _ in range(rng.choice([1, 2, 3]))]
        order = list(range(len(batch)))
        rng.shuffle(order)
        gid = "sib%d" % len(out)
        for c in batch:
            c["group"] = gid
        batch[0]["group_order"] = order
        out.append(batch)
    return out


def gen_scan_probe(rng):
    """texts for the scanner-vs-re comparison"""
    key = rng.choice(KEYS_PREFIX + KEYS_FREE + ["x", "_", "9", "-", "a-", "-a"])
    alphabet = ["$", "(", ")", ".", key, key + "X", key[:-1] or "k", "label", "name", "w", "_", "-", ":", " ", "1",
                "$(", ")", ".", "$(" + key, "$(" + key + ")", "$(" + key + ".label)"]
    text = "".join(rng.choice(alphabet) for _ in range(rng.randint(0, 9)))
    return [key, text]


def gen_ws_probe(rng):
    alphabet = ["$(", "a", "b-1", ".workspace)", ".workspace", ")", "(", "/", " ", ".", "$", "x.y", "workspace",
                "$(a.workspace)", "'", "#", "$(b-1.workspace)"]
    return "".join(rng.choice(alphabet) for _ in range(rng.randint(0, 7)))


def tiny_cases():
    """Exhaustive small scope: 2 steps x {no dep, ordinary, funnel} x which of
    2 parameters (prefix-named) each step mentions x 2 rows with equal/different values;
    once with the keys N/NX (all value patterns, with and without a workspace reference) and
    once with the punctuated keys MAT/MAT-ID (one value pattern)."""
    return _tiny("N", "NX", (([1, 1], [1, 2]), ([1, 2], [3, 3]), ([1, 2], [1, 2])), (False, True)) + \
        _tiny("MAT", "MAT-ID", (([1, 1], [1, 2]),), (False,)) + \
        _tiny("N", "NX", (([1, 2], [3, 3]),), (False,), ltoken="##")


def _tiny(k1, k2, valpats, wsrefs, ltoken=None):
    """with `ltoken`: a generator with its own label token; k1 gets the default label, k2 a template"""
    out = _tiny0(k1, k2, valpats, wsrefs)
    if ltoken is not None:
        for c in out:
            c["ltoken"] = ltoken
            c["params"][0]["label"] = None
            c["params"][1]["label"] = "%s.%s" % (k2, ltoken)
    return out


def _tiny0(k1, k2, valpats, wsrefs):
    out = []
    for dep in (None, "a", "a_*"):
        for ua in range(4):
            for ub in range(4):
                for vals in valpats:
                    for wsref in wsrefs:
                        if wsref and dep is None:
                            continue
                        toks = ["$(%s)" % k1, "$(%s)" % k2]
                        ca = "echo " + " ".join(t for b, t in zip((ua & 1, ua & 2), toks) if b)
                        cb = "echo " + " ".join(t for b, t in zip((ub & 1, ub & 2), toks) if b)
                        if wsref:
                            cb += " $(a.workspace)/f"
                        rb = {"cmd": cb}
                        if dep:
                            rb["depends"] = [dep]
                        out.append({"rlimit": 2, "stream": "tiny",
                                    "params": [{"key": k1, "name": None, "values": vals[0], "label": k1 + ".%%"},
                                               {"key": k2, "name": None, "values": vals[1], "label": k2 + ".%%"}],
                                    "steps": [{"name": "a", "description": "first", "run": {"cmd": ca, "restart": ("again $(%s)" % k1) if ua == 3 else ""}},
                                              {"name": "b", "description": "second", "run": rb}]})
    return out


# ----------------------------------------------------------------------------
def load_corpus(pid=PID):
    res = []
    for p in sorted(glob.glob(os.path.join(common.CORPUS, pid, "*.json"))):
        try:
            c = json.load(open(p))
            rel = os.path.relpath(p, common.VERIF)
            if isinstance(c.get("batch"), list):        # a stored interleaving: the whole batch and its order
                for k, m in enumerate(c["batch"]):
                    m = dict(m, corpus_file=rel, group=rel)
                    m.setdefault("stream", "corpus")
                    if k == 0:
                        m["group_order"] = c.get("order")
                    res.append(m)
                continue
            c["corpus_file"] = rel
            c.setdefault("stream", "corpus")
            res.append(c)
        except Exception:
            pass
    return res


def case_key(case):
    return json.dumps({k: case.get(k) for k in ("rlimit", "params", "steps", "restage", "ltoken", "ptoken")}, sort_keys=True)


def nontrivial(case, o):
    """a case counts when it staged and at least one step was really expanded
    over >1 row or has a funnel/ordinary edge (anything but a single bare step)"""
    return bool(o.get("ok")) and len(o["nodes"]) > 2


def clean(case):
    return {k: v for k, v in case.items() if k not in ("corpus_file", "group", "group_order", "batch", "order", "index")}


SCAN_HEADER = HEADER + """
Definition scan_case (c : str * str * bool) : bool :=
  Bool.eqb (uses_key (fst (fst c)) (snd (fst c))) (snd c).
Definition ws_case (c : str * list str) : bool := list_eqb str_eqb (ws_refs (fst c)) (snd c).
"""


def regex_texts():
    """T-data: the literal regex texts the scanners of Expand.v were written for."""
    import ast
    notes = {}
    try:
        src = open(os.path.join(common.REPO, "maestrowf/datastructures/core/parameters.py")).read()
        lits = [n.value for n in ast.walk(ast.parse(src)) if isinstance(n, ast.Constant) and isinstance(n.value, str)]
        # .format(re.escape(self.token), key): for the default token "$" the pattern \$\(KEY(?:\.\w+)?\) the scanner models
        notes["used_param_regex_unchanged"] = r"{}\({}(?:\.\w+)?\)" in lits
        src = open(os.path.join(common.REPO, "maestrowf/datastructures/core/study.py")).read()
        lits = [n.value for n in ast.walk(ast.parse(src)) if isinstance(n, ast.Constant) and isinstance(n.value, str)]
        notes["wsregex_unchanged"] = r"\$\(([-!\$%\^&\*\(\)_\+\|~=`{}\[\]:;<>\?,\.\/\w]+)\.workspace\)" in lits
        notes["all_combos_unchanged"] = r"_\*|\*" in lits
    except Exception as e:
        notes["regex_text_error"] = repr(e)
    return notes


RESTAGE_PLANS = [["same"], ["same", "same"], ["toggle", "same"], ["toggle", "toggle", "same"], ["meta", "same"]]


def prepare(case, root):
    """BUILD phase of one case: the StudyEnvironment / ParameterGenerator / StudyStep / Study objects are
    constructed (nothing is configured or staged yet).  A batch of cases is prepared completely before
    any member is staged (see `evaluate`), so that state shared between objects of different studies
    (class attributes, mutable default arguments) shows up in the comparison with the model."""
    quiet()
    os.makedirs(os.path.dirname(root), exist_ok=True)
    try:
        return {"study": build_study(case, root)}
    except Exception as e:
        return {"study": None, "obs": {"ok": False, "err": 1, "exc": type(e).__name__, "msg": str(e)[:200]}}


def stage_first(prep, case, root, dry=True):
    """STAGE phase, first staging of a prepared case (same observables as `stage_real`)."""
    study = prep["study"]
    if study is None:
        return prep["obs"], None, None
    try:
        configure(study, case, dry)
        _, dag = study.stage()
    except Exception as e:
        return {"ok": False, "err": 2, "exc": type(e).__name__, "msg": str(e)[:200]}, study, None
    try:
        return observe_dag(case, study, dag, root), study, dag
    except Exception as e:      # a mutated tree may hand back something unobservable
        return {"ok": False, "err": 3, "exc": type(e).__name__, "msg": str(e)[:200]}, study, dag


def stage_all(case, root, prep=None):
    """The observables of ALL compared stagings of one case: the first one, and -- for a case with a
    "restage" plan -- every further `stage()` on the SAME Study object that runs under the model's
    configuration.  Plan entries: "same" = configure_study with the same settings, then stage (compared);
    "toggle" = configure_study(dry_run/throttle/hash_ws/use_tmp toggled), then stage (state is carried on,
    the graph itself is not compared: the model has hash_ws off); "meta" = store_metadata()+load_metadata()
    (skipped silently where the tree's load_metadata cannot run), then stage as "same".
    Staging is a function of the specification, so every compared observable must equal the model's."""
    o, study, dag = stage_first(prep if prep is not None else prepare(case, root), case, root)
    out = [o]
    if not case.get("restage") or not o.get("ok") or study is None:
        return out
    for k, how in enumerate(case["restage"]):
        try:
            if how == "toggle":
                study.configure_study(throttle=2, submission_attempts=2, restart_limit=case["rlimit"] + 1,
                                      use_tmp=True, hash_ws=True, dry_run=False)
                study.stage()
                continue
            if how == "meta":
                try:
                    study.store_metadata()
                    study.load_metadata()
                except Exception:
                    pass
            study.configure_study(throttle=0, submission_attempts=1, restart_limit=case["rlimit"],
                                  use_tmp=False, hash_ws=False, dry_run=True)
            _, dag = study.stage()
        except Exception as e:
            out.append({"ok": False, "err": 2, "exc": type(e).__name__, "msg": str(e)[:200], "staging": k + 2})
            continue
        try:
            o2 = observe_dag(case, study, dag, root)
        except Exception as e:
            o2 = {"ok": False, "err": 3, "exc": type(e).__name__, "msg": str(e)[:200]}
        o2["staging"] = k + 2
        out.append(o2)
    return out


STAGINGS = {}    # tag -> number of stagings compared with the model
DOMAIN = {}      # tag -> indices of the cases outside hygiene H8 (None when not computed)


BATCH = 4
BATCHES = {}     # tag -> [(member indices, staging order as positions in members)]


def make_batches(cases):
    """Consecutive cases with the same "group" form one batch (staged in the order "group_order" of its first
    member, default reversed); the others are chunked by BATCH and staged in a rotated/reversed order.  In
    every batch ALL studies are constructed before the first one is staged."""
    plan, i, n, chunk = [], 0, len(cases), 0
    while i < n:
        g = cases[i].get("group")
        j = i + 1
        if g is not None:
            while j < n and cases[j].get("group") == g:
                j += 1
            members = list(range(i, j))
            order = cases[i].get("group_order") or list(reversed(range(len(members))))
        else:
            while j < n and j - i < BATCH and cases[j].get("group") is None:
                j += 1
            members = list(range(i, j))
            k = len(members)
            order = [(x + chunk) % k for x in range(k)] if chunk % 2 else list(reversed(range(k)))
            chunk += 1
        if sorted(order) != list(range(len(members))):
            order = list(range(len(members)))
        plan.append((members, order))
        i = j
    return plan


def with_batch(cases, tag, i):
    """The failing case together with its whole batch and the staging order (what a replay must re-create)."""
    c = clean(cases[i])
    for members, order in BATCHES.get(tag, []):
        if i in members and len(members) > 1:
            c["batch"] = [clean(cases[m]) for m in members]
            c["order"] = list(order)
            c["index"] = members.index(i)
    return c


def evaluate(ck, cases, tag="C08", want_domain=False, batches=None):
    """Run the implementation on every case, evaluate model + monitor in Coq.
    Returns list of (case, obs, verdict) with verdict in ok/violation/known/mismatch."""
    work = os.path.join(common.WORK, "run-" + tag.lower())
    shutil.rmtree(work, ignore_errors=True)
    os.makedirs(work)
    lits, obs, owner, spec_lits = [], [], [], []
    # INTERLEAVED construction: all studies of a batch are built first, then staged in the batch's order
    plan = batches if batches is not None else make_batches(cases)
    BATCHES[tag] = plan
    staged = {}
    for members, order in plan:
        roots = {i: os.path.join(work, "r%d" % i, "out") for i in members}
        preps = {i: prepare(cases[i], roots[i]) for i in members}
        for k in order:
            i = members[k]
            staged[i] = [relativise(o, roots[i]) for o in stage_all(cases[i], roots[i], preps[i])]
        for i in members:
            shutil.rmtree(os.path.dirname(roots[i]), ignore_errors=True)
        del preps
    for i, case in enumerate(cases):
        allobs = staged[i]
        obs.append(allobs[0])
        if len(allobs) > 1:
            allobs[0]["restagings"] = [{"staging": o.get("staging"), "ok": o.get("ok"),
                                       "nodes": len(o.get("nodes", []))} for o in allobs[1:]]
        for o in allobs:                 # one literal per compared staging; lits[j] belongs to cases[owner[j]]
            lits.append(g_case(case, o))
            owner.append((i, o.get("staging", 1)))
        spec_lits.append("(%s, (E_ 0))" % g_spec(case))
    shutil.rmtree(work, ignore_errors=True)
    ty = "spec * result obs"
    # small shards: the quick tier's ~700 cases are evaluated by ~8 coqc processes in parallel
    shard = 100 if len(lits) <= 1600 else 400
    from concurrent.futures import ThreadPoolExecutor
    with ThreadPoolExecutor(max_workers=2) as ex:
        f_main = ex.submit(common.coq_failing, tag, HEADER, ty, "c08_case", lits, shard)
        # hygiene depends on the specification only: the observable is left out of these literals
        f_hyg = ex.submit(common.coq_failing, tag + "_dom", HEADER, ty, "c08_hyg",
                          spec_lits, 200) if want_domain else None
        bad, errs = f_main.result()
        outside = set(f_hyg.result()[0]) if f_hyg else None
    DOMAIN[tag] = outside
    verdicts = ["ok"] * len(cases)
    detail = {}
    if bad:
        sub = [lits[i] for i in bad]
        fns = [("agree", "c08_agree"), ("mon", "c08_monitor"), ("hyg", "c08_hyg"),
               ("k2", "c08_sig_k2"), ("k2b", "c08_sig_k2b")]
        with ThreadPoolExecutor(max_workers=len(fns)) as ex:
            res = list(ex.map(lambda nf: common.coq_failing("%s_%s" % (tag, nf[0]), HEADER, ty, nf[1], sub), fns))
        (bad_agree, e1), (bad_mon, e2), (bad_hyg, e3), (has_k2, e4), (has_k2b, e5) = res
        errs = errs + e1 + e2 + e3 + e4 + e5
        rank = {"ok": 0, "ood": 1, "known:K2": 2, "known:K2b": 2, "known:K2c": 2.5, "mismatch": 3, "violation": 4}
        for j, li in enumerate(bad):
            i, staging = owner[li]
            d = {"model_differs": j in bad_agree, "monitor_false": j in bad_mon,
                 "outside_hygiene": j in bad_hyg, "sig_label_join": j in has_k2,
                 "sig_name_clash": j in has_k2b, "staging": staging}
            v = classify(d)
            if rank[v] > rank[verdicts[i]]:      # the worst staging decides the case
                detail[i] = d
                verdicts[i] = v
    STAGINGS[tag] = len(lits)
    return obs, verdicts, detail, errs


def classify(d):
    """violation: the monitor is false on the implementation's graph inside H8.
    known:K2 / known:K2b: false outside H8 on an input that has the finding's signature (and the
    model reproduces the implementation's graph).  ood: false outside H8 without a signature
    (a dependency that names no step, e.g. "_source_*": outside the domain of the property).
    mismatch: model and implementation disagree."""
    if d["monitor_false"] and not d["outside_hygiene"]:
        return "violation"
    if d["model_differs"] and d.get("staging", 1) > 1 and d["outside_hygiene"] and d["sig_name_clash"]:
        # K2c: the "already processed" test `combo_str in self.step_combos` looks at the STEP names; a step
        # whose name equals an instance name (K2b input) is in that dict after the first staging, so a
        # re-staging skips that instance -- outside H8, the unchanged tree's second staging differs
        return "known:K2c"
    if d["model_differs"]:
        return "mismatch"
    if d["monitor_false"]:
        if d["sig_label_join"]:
            return "known:K2"
        if d["sig_name_clash"]:
            return "known:K2b"
        return "ood"
    return "mismatch"


KNOWN_WHAT = {
    "K2c": "on a K2b input (an instance name equal to a step name) a second stage() of the same Study object "
           "skips that instance: the 'already processed' test reads the dict of step names, which by then holds "
           "the clashing step (outside H8; inside H8 every staging equals the first)",
    "K2": "labels of the used parameters are joined by '.' without escaping: two rows that differ on a used "
          "parameter get one instance name and one of the two instances is lost (C08_ok false outside H8)",
    "K2b": "step + '_' + combination is not escaped: an instance name equal to another step's name (or to an "
           "instance of another step) merges two nodes (C08_ok false outside H8)",
}


def model_text(case):
    try:
        return common.coq_eval("C08_dbg", HEADER, "c08_model %s" % g_spec(case))[-6000:]
    except Exception as e:
        return repr(e)


def run(ck):
    import time
    t0 = time.time()
    ck.build_proofs(extra_targets=["theories/Expand/StageGenProofs.vo"])
    t_build = time.time() - t0
    rng = random.Random(ck.seed)
    quick = ck.tier != "thorough"
    n_valid, n_prefix, n_exotic, n_scan = (260, 90, 120, 400) if quick else (5200, 1400, 2400, 6000)
    cases = load_corpus()
    ncorpus = len(cases)
    cases += tiny_cases()
    cases += [gen_case(rng, "valid") for _ in range(n_valid)]
    cases += [gen_case(rng, "prefix") for _ in range(n_prefix)]
    cases += [gen_case(rng, "exotic") for _ in range(n_exotic)]
    # interleaving stream: batches of studies over the same keys / step names with different labels, names, values
    rs = random.Random(ck.seed * 104729 + 7)
    for batch in gen_sibling_batches(rs, 24 if quick else 400):
        cases += batch
    # parameter-token stream: a custom pgen's ParameterGenerator(token=...) -- a share of the cases is run with the
    # parameter tokens of its texts written with another token (the model keeps "$": see to_tok)
    rp = random.Random(ck.seed * 15485863 + 5)
    for k, case in enumerate(cases):
        share = {"tiny": 0.12, "valid": 0.2, "prefix": 0.2, "sibling": 0.2}.get(case["stream"], 0.0)
        if "ptoken" not in case and case.get("ltoken") is None and rp.random() < share:
            tok = rp.choice(PTOKENS)
            texts = json.dumps(case["steps"]) + json.dumps(case["params"])
            if tok + "(" not in texts and "$$" not in texts:
                case["ptoken"] = tok
    # re-stage stream: a share of the cases is staged two or three times on the SAME Study object
    rr = random.Random(ck.seed * 7919 + 13)
    for k, case in enumerate(cases):
        share = {"tiny": 0.25, "valid": 0.30, "prefix": 0.30, "exotic": 0.15, "sibling": 0.15}.get(case["stream"], 0.0)
        if "restage" not in case and rr.random() < share:
            case["restage"] = rr.choice(RESTAGE_PLANS)
    t0 = time.time()
    obs, verdicts, detail, errs = evaluate(ck, cases, want_domain=True)
    ck.notes["phase_s"] = {"build_proofs(incl. waiting for the shared coq lock)": round(t_build, 1),
                           "stage_real+coq_cases": round(time.time() - t0, 1)}
    outside = DOMAIN.get("C08") or set()
    hist = {"streams": {}, "inside_H8_and_staged": {}, "nodes": {}, "used_params_max": {}, "errors": {}, "rows": {}}
    sig_hits = {}
    n_mis = 0
    registered = {k.get("id"): k.get("witness", "") for k in ck.known}
    for i, (case, o) in enumerate(zip(cases, obs)):
        ck.count(case_key(case), nontrivial=nontrivial(case, o))
        hist["streams"][case["stream"]] = hist["streams"].get(case["stream"], 0) + 1
        if o["ok"] and i not in outside:    # the theorems' hypotheses hold: the monitor must be true here
            hist["inside_H8_and_staged"][case["stream"]] = hist["inside_H8_and_staged"].get(case["stream"], 0) + 1
        if o["ok"]:
            b = min(len(o["nodes"]) - 1, 12)
            hist["nodes"][b] = hist["nodes"].get(b, 0) + 1
            m = max([len(u) for _, u in o["used"]] + [0])
            hist["used_params_max"][m] = hist["used_params_max"].get(m, 0) + 1
        else:
            k = "%d:%s" % (o["err"], o.get("exc"))
            hist["errors"][k] = hist["errors"].get(k, 0) + 1
        nr = len(case["params"][0]["values"]) if case["params"] else 0
        hist["rows"][nr] = hist["rows"].get(nr, 0) + 1
        if i in (ncorpus + 3, ncorpus + 200, ncorpus + 300):
            ck.sample({"case": clean(case), "impl": o})
        v = verdicts[i]
        if v == "violation":
            ck.violation("C08_ok is false on the graph Study.stage() built (inside hygiene H8; staging #%s on the "
                         "same Study object)" % detail.get(i, {}).get("staging", 1), with_batch(cases, "C08", i))
        elif v.startswith("known:"):
            kid = v.split(":")[1]
            sig_hits[kid] = sig_hits.get(kid, 0) + 1
            if kid in registered:
                ck.known_hit(kid, KNOWN_WHAT[kid] + "; witness " + registered[kid])
            else:                      # the signature is not (or no longer) listed in KNOWN_FINDINGS.txt
                ck.violation("C08_ok is false on the graph Study.stage() built (signature %s, not a listed known "
                             "finding)" % kid, with_batch(cases, "C08", i))
        elif v == "ood":
            sig_hits["out_of_domain"] = sig_hits.get("out_of_domain", 0) + 1
        elif v == "mismatch":
            n_mis += 1                 # the model's observable is printed for the first few only
            ck.mismatch("model and Study.stage() disagree: %s" % json.dumps(detail.get(i)), with_batch(cases, "C08", i),
                        model_text(case) if n_mis <= 3 else "")
    for e in errs:
        ck.mismatch("coqc failed on cases file", None, e[1])
    # --- the scanners against Python's re ---------------------------------------
    probes = [gen_scan_probe(rng) for _ in range(n_scan)]
    wprobes = [gen_ws_probe(rng) for _ in range(n_scan)]
    for case in cases[:200]:
        for st in case["steps"]:
            for p in case["params"][:2]:
                probes.append([p["key"], st["run"]["cmd"]])
            wprobes.append(st["run"]["cmd"] + " " + (st["run"].get("restart") or ""))
    real = scan_real({"scan": probes, "ws": wprobes})
    if "exc" in real:
        ck.mismatch("scanner probes raised " + real["exc"], None, "")
    else:
        l1 = ["(%s, %s, %s)" % (g_str(k), g_str(t), common.g_bool(r)) for (k, t), r in zip(probes, real["scan"])]
        b1, e1 = common.coq_failing("C08_scan", SCAN_HEADER, "str * str * bool", "scan_case", l1)
        l2 = ["(%s, %s)" % (g_str(t), g_strs(r)) for t, r in zip(wprobes, real["ws"])]
        b2, e2 = common.coq_failing("C08_ws", SCAN_HEADER, "str * list str", "ws_case", l2)
        for i in b1[:5]:
            ck.mismatch("uses_key differs from the live used-parameter regex", {"key": probes[i][0], "text": probes[i][1],
                                                                            "re": real["scan"][i]}, "")
        for i in b2[:5]:
            ck.mismatch("ws_refs differs from the live WSREGEX", {"text": wprobes[i], "re": real["ws"][i]}, "")
        for e in e1 + e2:
            ck.mismatch("coqc failed on scanner cases", None, e[1])
        ck.count("scanner-probes", nontrivial=False, n=len(l1) + len(l2))
        hist["scanner_probes"] = {"used_param": len(l1), "matched": sum(real["scan"]),
                                  "wsregex": len(l2), "with_match": sum(1 for r in real["ws"] if r)}
    ck.notes.update(regex_texts())
    ck.notes["known_signature_hits"] = sig_hits
    for k in ck.known:                  # a listed finding whose witness no longer fails is reported in evidence
        if k.get("id") not in sig_hits:
            ck.notes.setdefault("known_not_reproduced", []).append(k.get("id"))
    ck.cov["rule"] = ("corpus + exhaustive tiny scope (2 steps x dependency kind x which of the prefix-named parameters N/NX "
                      "each step mentions x value patterns) + seeded structured specifications (1-6 steps, ordinary and "
                      "funnel dependencies mixed, 0-4 parameters x 0-5 rows with repeated int/float/str values, template and "
                      "per-row labels, a custom label token ParameterGenerator(ltoken=..) in a quarter of the cases (plain / multi-character / "
                      "regex-special tokens; templates using it once, twice, not at all; default labels), a custom PARAMETER token "
                      "ParameterGenerator(token=..) in {@, P, %%, #, $$} in a fifth of the valid/prefix/sibling cases (the "
                      "implementation gets the texts with '$(' rewritten to token+'(' -- $(WORKSPACE)/$(x.workspace) excepted -- and "
                      "its expanded texts are mapped back; the model keeps '$': sound because the code treats the token as an opaque "
                      "prefix), value/label/name tokens and near-miss tokens in cmd/restart/description/resource keys, "
                      "workspace references) in streams valid/prefix/exotic; distinct = distinct (rlimit, params, steps); "
                      "non-trivial = staged successfully with at least two instances; INTERLEAVING: the cases are processed in "
                      "batches of up to 4 (histogram 'batches': size, * = staged in another order than built): every "
                      "Study/ParameterGenerator/StudyEnvironment/StudyStep of a batch is constructed before the first member is "
                      "configured and staged, and the sibling stream makes batches over the same keys and step names with "
                      "different labels/names/values, so state shared between objects of different studies is compared with "
                      "the model; a failing case is stored with its batch and order; re-stage stream: a share of the cases is "
                      "staged 2-4 times on the same Study object (configure_study repeated or toggled, store/load_metadata) and "
                      "every staging under the model's configuration is compared with the model (stage is a function of the "
                      "specification); inside_H8_and_staged counts the cases "
                      "on which the theorems' hypotheses hold (there the monitor must be true on the implementation's graph)")
    ck.cov["traces_validated_against_impl"] = STAGINGS.get("C08", len(cases))
    hist["batches"] = {}
    for members, order in BATCHES.get("C08", []):
        kk = "%d%s" % (len(members), "" if order == list(range(len(members))) else "*")
        hist["batches"][kk] = hist["batches"].get(kk, 0) + 1
    hist["parameter_token"], hist["label_token"] = {}, {}
    for case in cases:
        for key, h in (("ptoken", "parameter_token"), ("ltoken", "label_token")):
            if case.get(key) is not None:
                hist[h][case[key]] = hist[h].get(case[key], 0) + 1
    hist["restage_plans"] = {}
    for case in cases:
        if case.get("restage"):
            kk = "+".join(case["restage"])
            hist["restage_plans"][kk] = hist["restage_plans"].get(kk, 0) + 1
    ck.cov["input_distribution"] = hist
    return ck.finish(search=lambda: search(ck))


def search(ck):
    """Proof or correspondence broke: look for a concrete failing input with a bigger budget."""
    rng = random.Random(ck.seed + 7919)
    cases = tiny_cases() + [gen_case(rng, s) for s in ("valid", "prefix") for _ in range(700)]
    for k, case in enumerate(cases):
        if k % 3 == 0:
            case["restage"] = RESTAGE_PLANS[(k // 3) % len(RESTAGE_PLANS)]
    for batch in gen_sibling_batches(rng, 150):
        cases += batch
    obs, verdicts, detail, errs = evaluate(ck, cases, tag="C08_search")
    for i, v in enumerate(verdicts):
        if v == "violation":
            return ("C08_ok is false on the graph Study.stage() built (inside hygiene H8)",
                    with_batch(cases, "C08_search", i))
    return None


def replay(ck, path):
    """Re-runs the stored case; a case stored with its "batch"/"order"/"index" is re-run inside exactly that
    interleaving (all studies of the batch built first, then staged in the stored order)."""
    d = json.load(open(path))
    case = d.get("case", d)
    if isinstance(case.get("batch"), list) and case["batch"]:
        cases = [dict(c) for c in case["batch"]]
        order = case.get("order") or list(reversed(range(len(cases))))
        idx = case.get("index", 0)
        obs, verdicts, detail, errs = evaluate(ck, cases, tag="C08_replay", batches=[(list(range(len(cases))), order)])
        print("batch of %d studies built first, staged in order %s; reported member: %d" % (len(cases), order, idx))
        for k, v in enumerate(verdicts):
            print("  member %d: %s %s" % (k, v, detail.get(k)))
        worst = [v for v in verdicts if not (v == "ok" or v.startswith("known:") or v == "ood")]
    else:
        cases, idx = [case], 0
        obs, verdicts, detail, errs = evaluate(ck, cases, tag="C08_replay")
        worst = [v for v in verdicts if not (v == "ok" or v.startswith("known:") or v == "ood")]
    print("implementation:", json.dumps(obs[idx], indent=1)[:6000])
    print("model:", model_text(cases[idx]))
    print("verdict:", verdicts[idx], detail.get(idx), errs[:1])
    return 1 if worst else 0


if __name__ == "__main__":
    # sub-process entry used by C11: stage (and dry-run) one case file under a given root
    pass

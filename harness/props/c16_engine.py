"""C16, the engine's layer: ExecutionGraph.check_study_status on top of the adapters.

C16 says "a job absent from the output is reported as 'no information', never as a
state"; what the conductor acts on is not the adapter's table but the per-STEP table the
REAL ExecutionGraph.check_study_status builds from it.  Here a small real ExecutionGraph
is built whose in-progress records carry the queried job ids (plus steps that are not in
progress), a registered adapter hands back an already computed answer, and the per-step
result is compared with the model:

    answers   what the real Slurm / LSF check_jobs returned for generated squeue / sacct /
              bjobs output (the streams of harness/props/c16.py), what the real Flux
              check_jobs returned over the fake flux-core (harness/props/c16_flux.py), and
              scripted adapters: tables that OMIT keys (Flux style: only listed jobs), hold
              None, are empty, with codes OK / NOJOBS / ERROR
    model     Sched/Parse.v: engine_run = the code's {jobmap[jobid]: status for ...}
    monitor   C16_ok_engine (Props/C16.v: C16_monitor_engine, C16_engine_absent): a step whose
              job the table does not mention (no key / None) comes back without a state, a
              present job with exactly its state, no other key, the code passed on --
              evaluated inside Coq on what the IMPLEMENTATION returned.
Also judged (python): the ids asked are exactly the last job ids of the in-progress steps, in
graph order.  corpus/C16/engine/*.json runs first.
"""
import glob
import json
import os
import random

from harness import common

PID = "C16"
CORPUS_DIR = os.path.join(common.CORPUS, PID, "engine")
KEY = "c16-engine-scripted"

HEADER = """From Coq Require Import List Arith NArith ZArith Bool.
From MWF Require Import Base.Str Gen.SchedTables Sched.Manuals Sched.Parse.
Import ListNotations.
"""

QUICK = {"adapters": 300, "flux": 60, "scripted": 250}
THOROUGH = {"adapters": 4000, "flux": 600, "scripted": 4000}
STATES = ["PENDING", "WAITING", "RUNNING", "FINISHING", "FINISHED", "QUEUED", "FAILED", "HWFAILURE", "TIMEDOUT",
          "UNKNOWN", "CANCELLED", "INITIALIZED", "INCOMPLETE", "NOTFOUND", "DRYRUN"]
STEP_NAMES = ["sim", "post", "late", "n0", "n1", "run_X.1", "run_X.2", "a-b", "collect", "z9"]


# ----------------------------------------------------------------------------
# the implementation side
# ----------------------------------------------------------------------------
class _Scripted(object):
    """hands back the answer computed beforehand; records what it was asked"""
    key = KEY
    answer = None
    asked = None

    def __init__(self, **kwargs):
        pass

    def check_jobs(self, joblist):
        _Scripted.asked.append(list(joblist))
        return _Scripted.answer


def run_case(case):
    """case: {"steps": [[name, jobid or None], ...], "answer": {"code": OK|NOJOBS|ERROR, "st": [[id, State|None], ..]}}"""
    obs = {}
    try:
        from maestrowf.abstracts.enums import JobStatusCode, State
        from maestrowf.datastructures.core.executiongraph import ExecutionGraph
        from maestrowf.datastructures.core.study import StudyStep
        from maestrowf.interfaces import ScriptAdapterFactory
    except Exception as e:
        return {"setup_exc": "%s: %s" % (type(e).__name__, e)}
    saved = ScriptAdapterFactory.factories.get(KEY)
    try:
        g = ExecutionGraph(submission_attempts=1, submission_throttle=0)
        g.add_description("c16", "engine layer")
        for name, jid in case["steps"]:
            st = StudyStep()
            st.name = name
            st.description = name
            st.run["cmd"] = "echo " + name
            g.add_step(name, st, os.path.join(common.WORK, "c16_engine_ws", name), 0)
            if jid is not None:
                g.values[name].jobid.append(jid)
                g.in_progress.add(name)
        ScriptAdapterFactory.factories[KEY] = _Scripted
        g.set_adapter({"type": KEY})
        a = case["answer"]
        _Scripted.answer = (JobStatusCode[a["code"]], {k: (None if v is None else State[v]) for k, v in a["st"]})
        _Scripted.asked = []
    except Exception as e:
        if saved is None:
            ScriptAdapterFactory.factories.pop(KEY, None)
        return {"setup_exc": "%s: %s" % (type(e).__name__, str(e)[:200])}
    try:
        ret = g.check_study_status()
        obs = canon(ret)
    except Exception as e:
        obs = {"exc": type(e).__name__}
    finally:
        if saved is None:
            ScriptAdapterFactory.factories.pop(KEY, None)
        else:
            ScriptAdapterFactory.factories[KEY] = saved
    obs["asked"] = _Scripted.asked
    return obs


def canon(ret):
    try:
        code, st = ret
        cn = getattr(code, "name", None)
        if type(code).__name__ != "JobStatusCode" or cn not in ("OK", "NOJOBS", "ERROR"):
            return {"exc": "BadCode"}
        if not isinstance(st, dict):
            return {"exc": "BadDict"}
        items = []
        for k, v in st.items():
            if not isinstance(k, str):
                return {"exc": "BadKey"}
            if v is None:
                items.append([k, None])
            elif type(v).__name__ == "State":
                items.append([k, v.name])
            else:
                return {"exc": "BadValue"}
        return {"code": cn, "st": items}
    except Exception as e:
        return {"exc": "Canon" + type(e).__name__}


# ----------------------------------------------------------------------------
# Gallina literals
# ----------------------------------------------------------------------------
def g_str(x):
    return "e_" if x == "" else common.g_str(x)


def g_table(items):
    return "[%s]" % "; ".join(("kn %s" % g_str(k)) if v is None else ("kv %s %s" % (g_str(k), v)) for k, v in items)


def jobmap_of(case):
    """job id -> step, as the dictionary the code builds (a later step overrides an equal id)"""
    jm = {}
    for name, jid in case["steps"]:
        if jid is not None:
            jm[jid] = name
    return list(jm.items())


def g_case(case, obs):
    a = case["answer"]
    res = "Exc" if "exc" in obs else "(Ret JS_%s %s)" % (obs["code"], g_table(obs["st"]))
    return "([%s], (JS_%s, %s), %s)" % ("; ".join("(%s, %s)" % (g_str(j), g_str(s)) for j, s in jobmap_of(case)),
                                       a["code"], g_table(a["st"]), res)


# ----------------------------------------------------------------------------
# cases
# ----------------------------------------------------------------------------
def steps_for(rng, ids):
    """one in-progress step per queried id (graph order = query order) + steps that are not in progress"""
    names = list(STEP_NAMES)
    rng.shuffle(names)
    while len(names) < len(ids) + 3:
        names.append("s%d" % len(names))
    steps = [[names[k], j] for k, j in enumerate(ids)]
    for k in range(rng.choice([0, 0, 1, 2])):
        steps.insert(rng.randint(0, len(steps)), [names[len(ids) + k], None])
    return steps


def from_answer(rng, ids, code, st, origin):
    ids = [j for j in dict.fromkeys(ids) if isinstance(j, str) and j != ""]
    if not ids:
        return None
    st = [[k, v] for k, v in st if isinstance(k, str) and (v is None or v in STATES)]
    return {"kind": "engine", "steps": steps_for(rng, ids), "answer": {"code": code, "st": st}, "origin": origin}


def gen_scripted(rng):
    n = rng.choice([1, 1, 2, 2, 3, 3, 4, 6])
    root = "".join(rng.choice("123456789") for _ in range(rng.randint(2, 5)))
    pool = list(dict.fromkeys([root, root[:-1] or "7", root + "0", root + "1", str(int(root) + 1), "1" + root,
                               "ƒ2a", "ƒ2aB"]))
    rng.shuffle(pool)
    ids = pool[:n]
    form = rng.choice(["omit", "omit", "omit", "none", "mixed", "empty", "full", "full"])
    st = []
    for j in ids:
        r = rng.random()
        if form == "empty" or (form == "omit" and r < 0.5) or (form == "mixed" and r < 0.3):
            continue                                        # no key at all for this queried id
        if form == "none" or (form == "mixed" and r < 0.6):
            st.append([j, None])
        else:
            st.append([j, rng.choice(STATES[:11])])
    if form == "omit" and len(st) == len(ids):
        st = st[1:]
    rng.shuffle(st)
    code = "OK" if rng.random() < 0.75 else rng.choice(["NOJOBS", "ERROR"])
    return from_answer(rng, ids, code, st, "scripted:" + form)


def small_scope():
    """two steps with prefix-related ids x (absent | None | R | CD | F)^2 x codes; one step; the empty table"""
    out = []
    alts = ["absent", None, "RUNNING", "FINISHED", "FAILED"]
    for code in ("OK", "NOJOBS", "ERROR"):
        for a in alts:
            for b in alts:
                st = [[j, v] for j, v in (("12", a), ("123", b)) if v != "absent"]
                for order in (st, list(reversed(st))):
                    out.append({"kind": "engine", "steps": [["sim", "12"], ["idle", None], ["post", "123"]],
                                "answer": {"code": code, "st": order}, "origin": "small scope"})
        for a in alts:
            out.append({"kind": "engine", "steps": [["late", "7"]],
                        "answer": {"code": code, "st": [] if a == "absent" else [["7", a]]}, "origin": "small scope"})
    return out


def load_corpus():
    out = []
    for f in sorted(glob.glob(os.path.join(CORPUS_DIR, "*.json"))):
        try:
            d = json.load(open(f))
        except Exception:
            continue
        for c in (d if isinstance(d, list) else [d]):
            c = dict(c.get("case", c))
            c["origin"] = "corpus:" + os.path.basename(f)
            out.append(c)
    return out


def flux_answers(rng, n):
    """(ids, code, table) of the real Flux check_jobs over the fake flux-core"""
    out = []
    try:
        from harness.props import c16_flux as X
        vers = X.versions()
        for ver in vers:
            for case in X.gen_cases(rng, ver, max(1, n // max(1, len(vers)))):
                o = X.run_case(case)
                if o.get("exc") or o.get("setup_exc") or o.get("code") is None:
                    continue
                out.append((case["ids"], o["code"], o["st"], "flux:" + ver))
    except Exception:
        pass
    return out


# ----------------------------------------------------------------------------
# evaluation
# ----------------------------------------------------------------------------
def strip(c):
    return {k: v for k, v in c.items() if k in ("kind", "steps", "answer")}


def asked_ok(case, obs):
    want = [j for _, j in case["steps"] if j is not None]
    return obs.get("asked") == [want]


def explain(case, obs):
    jm = dict(jobmap_of(case))
    table = dict((k, v) for k, v in case["answer"]["st"])
    if "exc" in obs:
        return "check_study_status raised %s" % obs["exc"]
    got = dict((k, v) for k, v in obs["st"])
    for jid, step in jm.items():
        want = table.get(jid)
        have = got.get(step)
        if want is None and have is not None:
            return "step %r (job %s) comes back as %s although the adapter's table %s" % (
                step, jid, have, "has no entry for that job" if jid not in table else "holds None for that job")
        if want is not None and have != want:
            return "step %r (job %s) comes back as %s, the adapter's table says %s" % (step, jid, have, want)
    extra = [k for k in got if k not in jm.values()]
    if extra:
        return "the step table has an entry for %r, which was not queried" % extra[0]
    if obs["code"] != case["answer"]["code"]:
        return "the adapter's code %s became %s" % (case["answer"]["code"], obs["code"])
    return "C16_ok_engine is false"


def evaluate(tag, cases, obs):
    lits = [g_case(c, o) for c, o in zip(cases, obs)]
    bad, errs = common.coq_failing("%s_engine_%s" % (PID, tag), HEADER, "engine_case", "engine_case_ok", lits, shard=300)
    mon = set()
    if bad:
        mb, e2 = common.coq_failing("%s_engine_%s_mon" % (PID, tag), HEADER, "engine_case", "engine_mon_ok",
                                    [lits[b] for b in bad], shard=300)
        errs = errs + e2
        mon = {bad[j] for j in mb}
    return bad, mon, errs


def run_engine(ck, adapter_answers):
    """adapter_answers: [(queried ids, code, [[id, State|None], ..], origin)] from the streams of c16.py"""
    rng = random.Random(ck.seed * 7919 + 1616)
    B = QUICK if ck.tier == "quick" else THOROUGH
    cases = load_corpus() + small_scope()
    pool = list(adapter_answers)
    if len(pool) > B["adapters"]:
        # keep every answer that leaves a queried id without a state, sample the rest
        flags = [any(v is None for _, v in a[2]) or len(a[2]) < len(set(a[0])) for a in pool]
        need = [a for a, f in zip(pool, flags) if f]
        rest = [a for a, f in zip(pool, flags) if not f]
        rng.shuffle(need)
        rng.shuffle(rest)
        pool = need[:B["adapters"] * 2 // 3] + rest[:B["adapters"] - min(len(need), B["adapters"] * 2 // 3)]
    pool += flux_answers(rng, B["flux"])
    for ids, code, st, origin in pool:
        c = from_answer(rng, ids, code, st, origin)
        if c:
            cases.append(c)
    for _ in range(B["scripted"]):
        c = gen_scripted(rng)
        if c:
            cases.append(c)
    obs = [run_case(strip(c)) for c in cases]
    hist = {}
    keep = [i for i, o in enumerate(obs) if "setup_exc" not in o]
    if len(keep) < len(obs):
        ck.mismatch("C16 engine layer: the ExecutionGraph could not be set up for %d cases" % (len(obs) - len(keep)),
                    strip(cases[[i for i in range(len(obs)) if i not in keep][0]]),
                    [o for o in obs if "setup_exc" in o][0]["setup_exc"])
    cases, obs = [cases[i] for i in keep], [obs[i] for i in keep]
    bad, mon, errs = evaluate("run", [strip(c) for c in cases], obs)
    for c, o in zip(cases, obs):
        table = dict((k, v) for k, v in c["answer"]["st"])
        ids = [j for _, j in c["steps"] if j is not None]
        nabs = len([j for j in ids if j not in table])
        nnone = len([j for j in ids if j in table and table[j] is None])
        src = c["origin"].split(":")[0]
        hist[src] = hist.get(src, 0) + 1
        hist["code " + c["answer"]["code"]] = hist.get("code " + c["answer"]["code"], 0) + 1
        hist["queried ids without a key"] = hist.get("queried ids without a key", 0) + nabs
        hist["queried ids with None"] = hist.get("queried ids with None", 0) + nnone
        hist["queried ids with a state"] = hist.get("queried ids with a state", 0) + len(ids) - nabs - nnone
        ck.count(("engine", len(ids), nabs, nnone, c["answer"]["code"], json.dumps(o.get("st", o.get("exc")))[:160]),
                 nontrivial=nabs + nnone > 0 or len(ids) > 1)
        if not asked_ok(c, o):
            ck.violation("C16 (engine): check_study_status asked the adapter for %s, the in-progress steps hold %s"
                         % (o.get("asked"), [ids]), {"case": strip(c), "impl": o, "origin": c["origin"]})
    for i in bad:
        cj = {"case": strip(cases[i]), "impl": obs[i], "origin": cases[i]["origin"]}
        if i in mon:
            ck.violation("C16_ok_engine false on what check_study_status returned: " + explain(cases[i], obs[i]), cj)
        else:
            ck.mismatch("C16 engine layer: model and check_study_status disagree: " + explain(cases[i], obs[i]), cj, "")
    for e in errs:
        ck.mismatch("coqc failed on the engine cases file", None, e[1])
    if cases:
        k = next((i for i, c in enumerate(cases) if c["origin"].startswith("scripted:omit")), 0)
        ck.sample({"c16_engine": {"case": strip(cases[k]), "impl": obs[k], "origin": cases[k]["origin"]}})
    ck.cov["engine_layer"] = {
        "cases": len(cases),
        "rule": "real ExecutionGraph.check_study_status over a real graph whose in-progress records carry the queried "
                "ids (plus idle steps); the adapter hands back (a) what the real Slurm/LSF/Flux check_jobs returned in "
                "the other streams, (b) scripted tables that omit keys / hold None / are empty, codes OK/NOJOBS/ERROR, "
                "(c) small scope: 2 prefix-related ids x (absent|None|R|CD|F)^2 x 3 codes x both orders. Coq evaluates "
                "engine_run == impl and C16_ok_engine on the implementation's step table.",
        "histogram": dict(sorted(hist.items()))}
    return len(cases)


def is_engine_case(d):
    if isinstance(d, list):
        d = d[0] if d else {}
    d = d.get("case", d)
    if isinstance(d, dict) and "case" in d and "kind" not in d:
        d = d["case"]
    return isinstance(d, dict) and d.get("kind") == "engine"


def replay_engine(ck, d):
    if isinstance(d, list):
        d = d[0]
    c = d.get("case", d)
    if "case" in c and "kind" not in c:
        c = c["case"]
    c = strip(c)
    common.coq_make(["theories/Sched/Parse.vo"])
    o = run_case(c)
    print("case:", json.dumps(c))
    print("implementation:", json.dumps(o))
    if "setup_exc" in o:
        return 2
    print("model:", common.coq_eval(PID + "_engine_model", HEADER,
                                    "match %s : engine_case with (jm, (code, st), _) => engine_run jm code st end"
                                    % g_case(c, o))[-800:])
    bad, mon, errs = evaluate("replay", [c], [o])
    if errs:
        print("coqc error:", errs[0][1][-800:])
        return 2
    if not bad and asked_ok(c, o):
        print("verdict: ok (correspondence and monitor C16_ok_engine hold)")
        return 0
    print("verdict: FAILED -- " + (explain(c, o) if bad else "the ids asked differ from the in-progress steps' job ids"))
    return 1

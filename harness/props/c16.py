"""C16 -- scheduler output is interpreted per job id and never over-claims.

Correspondence between the real parsers of /repo

    SlurmScriptAdapter.check_jobs  (squeue, then sacct for ids still None)
    LSFScriptAdapter.check_jobs    (bjobs, EXIT refinement, "No job found")
    FluxInterface_0490.state / FluxInterface_0260.state

and the Gallina model coq/theories/Sched/Parse.v (tables and constants
regenerated from the source by translate/tdata_sched.py), plus the monitors
`C16_ok_slurm` / `C16_ok_lsf` / `C16_ok_flux` -- the predicates Props/C16.v
proves of the model -- evaluated inside Coq on what the IMPLEMENTATION
returned.  The module-level names `start_process` (slurm) and `Popen` (lsf) are
replaced by a scripted process that returns generated text and exit codes.

A structured case carries the table as data (rows with explicit padding); the
harness prints it in Python, feeds the text to the real code, and Coq checks
(1) its own printer yields the same text, (2) model == implementation,
(3) the monitor holds on the implementation's answer.

Streams:
  corpus      corpus/C16/*.json (witnesses of the repaired defects) -- first
  codes       every documented state code (Sched/Manuals.v) + a few unknown
              ones, one single-row table each, per scheduler; every flux
              abbreviation for both interface versions
  small       exhaustive small scope: <=2 squeue rows x sacct row x id lists x
              exit codes (sampled in the quick tier, complete in thorough)
  random      seeded structured tables, 0-30 rows, ids sharing prefixes,
              job-step / array rows, blank lines, random padding (a few exotic
              white-space characters), exit codes {0,1,2,127,255,...}
  exotic      malformed: names with blanks, short rows, empty ids, raw text
              soup; compared with the model only (monitor needs well-formed rows)
"""
import glob
import itertools
import json
import os
import random
import re

from harness import common

PID = "C16"

HEADER = """From Coq Require Import List Arith NArith ZArith Bool.
From MWF Require Import Base.Str Gen.SchedTables Sched.Manuals Sched.Parse.
Import ListNotations.
"""

QUICK = {"slurm": 420, "lsf": 300, "exotic": 130, "small": 220}
THOROUGH = {"slurm": 7000, "lsf": 5000, "exotic": 2000, "small": None}

SHARD = 120
RCS = [1, 2, 127, 255, 3, -9]
WS_ODD = ["\t", "\r", "\x0b", "\x0c", "\xa0", " ", "\x1c", "\x85", "　", "\x1f"]


# ----------------------------------------------------------------------------
# the documented code lists (single source: Sched/Manuals.v)
# ----------------------------------------------------------------------------
def manual_lists():
    text = open(os.path.join(common.THEORIES, "Sched", "Manuals.v")).read()
    text = common.strip_coq_comments(text)
    out = {}
    for m in re.finditer(r"Definition\s+(\w+)\s*:\s*list str\s*:=\s*\[(.*?)\]\s*\.", text, re.S):
        out[m.group(1)] = re.findall(r's\s+"([^"]*)"', m.group(2))
    for k in ("slurm_alive", "slurm_success", "slurm_dead", "lsf_alive", "lsf_success", "lsf_dead",
              "flux_alive", "flux_success", "flux_dead"):
        if not out.get(k):
            raise RuntimeError("Manuals.v: list %s not found" % k)
    return out


# ----------------------------------------------------------------------------
# printers (python side; Coq re-prints and compares)
# ----------------------------------------------------------------------------
def print_wsline(l):
    if "blank" in l:
        return l["blank"]
    return l.get("lead", "") + "".join(t + p for t, p in l["toks"])


def print_sq(t):
    if "raw" in t:
        return t["raw"]
    return "\n".join([t["hdr"]] + [print_wsline(l) for l in t["lines"]])


def print_sa(t):
    if "raw" in t:
        return t["raw"]
    return "\n".join([t["hdr1"], t["hdr2"]] + [print_wsline(l) for l in t["lines"]])


def print_bj(t):
    if "raw" in t:
        return t["raw"]
    return "\n".join([t["hdr"]] + ["|".join(a + b + c for a, b, c in l["fields"]) for l in t["lines"]])


# ----------------------------------------------------------------------------
# the implementation side
# ----------------------------------------------------------------------------
class FakeProc:
    def __init__(self, out, rc, as_bytes):
        self.out, self.returncode, self.as_bytes = out, rc, as_bytes
        self.pid = 4242

    def communicate(self, *a, **k):
        if self.as_bytes:
            return self.out.encode("utf-8"), b""
        return self.out, ""

    def wait(self, *a, **k):
        return self.returncode

    def poll(self):
        return self.returncode


class Impl:
    def __init__(self):
        import logging
        logging.disable(logging.CRITICAL)
        self.err = {}
        try:
            import maestrowf.interfaces.script.slurmscriptadapter as sm
            if not hasattr(sm, "start_process"):
                raise RuntimeError("slurmscriptadapter has no module-level start_process to replace")
            self.sm = sm
            self.slurm = sm.SlurmScriptAdapter(host="h", bank="b", queue="q", nodes="1")
        except Exception as e:
            self.sm, self.slurm = None, None
            self.err["slurm"] = repr(e)
        try:
            import maestrowf.interfaces.script.lsfscriptadapter as lm
            if not hasattr(lm, "Popen"):
                raise RuntimeError("lsfscriptadapter has no module-level Popen to replace")
            self.lm = lm
            self.lsf = lm.LSFScriptAdapter(host="h", bank="b", queue="q", nodes="1")
        except Exception as e:
            self.lm, self.lsf = None, None
            self.err["lsf"] = repr(e)
        self.flux = {}
        self.flux_how = {}
        for ver in ("flux0_49_0", "flux0_26_0"):
            fn, how = self._flux_fn(ver)
            if fn is not None:
                self.flux[ver] = fn
                self.flux_how[ver] = how

    @staticmethod
    def _flux_fn(ver):
        path = os.path.join(common.REPO, "maestrowf/interfaces/script/_flux", ver + ".py")
        if not os.path.exists(path):
            return None, "absent"
        try:
            import importlib
            mod = importlib.import_module("maestrowf.interfaces.script._flux." + ver)
            for v in vars(mod).values():
                if isinstance(v, type) and v.__module__ == mod.__name__ and "state" in vars(v):
                    return v.state, "imported"
        except Exception:
            pass
        # fall back: the source of just that function, with State in scope
        try:
            import ast
            import logging
            from maestrowf.abstracts.enums import State
            tree = ast.parse(open(path).read())
            for c in tree.body:
                if isinstance(c, ast.ClassDef):
                    for f in c.body:
                        if isinstance(f, ast.FunctionDef) and f.name == "state":
                            f.decorator_list = []
                            m = ast.Module(body=[f], type_ignores=[])
                            ns = {"State": State, "LOGGER": logging.getLogger("c16")}
                            exec(compile(ast.fix_missing_locations(m), path, "exec"), ns)
                            return ns["state"], "ast+exec of the function source"
        except Exception:
            pass
        return None, "unavailable"

    @staticmethod
    def canon(ret):
        try:
            code, st = ret
            cn = getattr(code, "name", None)
            if type(code).__name__ != "JobStatusCode" or cn not in ("OK", "NOJOBS", "ERROR"):
                return {"exc": "BadCode"}
            if not isinstance(st, dict):
                return {"exc": "BadDict"}
            items = []
            for k, v in st.items():
                if not isinstance(k, str):
                    return {"exc": "BadKey"}
                if v is None:
                    items.append([k, None])
                elif type(v).__name__ == "State":
                    items.append([k, v.name])
                else:
                    return {"exc": "BadValue"}
            return {"code": cn, "st": items}
        except Exception as e:
            return {"exc": "Canon" + type(e).__name__}

    def run_slurm(self, c):
        if self.slurm is None:
            raise RuntimeError("cannot set up SlurmScriptAdapter: " + self.err.get("slurm", ""))
        sqt, sat = print_sq(c["sq"]), print_sa(c["sa"])
        calls = []

        def fake(cmd, *a, **k):
            text = cmd if isinstance(cmd, str) else " ".join(map(str, cmd))
            calls.append(text)
            if "squeue" in text:
                return FakeProc(sqt, c["sq_rc"], False)
            if "sacct" in text:
                return FakeProc(sat, c["sa_rc"], False)
            return FakeProc("", 127, False)

        old = self.sm.start_process
        self.sm.start_process = fake
        try:
            obs = self.canon(self.slurm.check_jobs(list(c["jl"])))
        except Exception as e:
            obs = {"exc": type(e).__name__}
        finally:
            self.sm.start_process = old
        obs["calls"] = len(calls)
        # soft note: sacct is asked about exactly the ids still missing
        for t in calls:
            if "sacct" in t:
                m = re.search(r"--jobs=(\S*)", t)
                obs["sacct_jobs"] = m.group(1) if m else None
        return obs

    def run_lsf(self, c):
        if self.lsf is None:
            raise RuntimeError("cannot set up LSFScriptAdapter: " + self.err.get("lsf", ""))
        txt = print_bj(c["bj"])

        def fake(cmd, *a, **k):
            return FakeProc(txt, c["rc"], True)

        old = self.lm.Popen
        self.lm.Popen = fake
        try:
            obs = self.canon(self.lsf.check_jobs(list(c["jl"])))
        except Exception as e:
            obs = {"exc": type(e).__name__}
        finally:
            self.lm.Popen = old
        return obs

    def run_flux(self, c):
        fn = self.flux.get(c["version"])
        if fn is None:
            return {"exc": "NoFlux"}
        try:
            r = fn(c["code"])
            if type(r).__name__ != "State":
                return {"exc": "BadValue"}
            return {"state": r.name}
        except Exception as e:
            return {"exc": type(e).__name__}

    def run(self, c):
        return getattr(self, "run_" + c["kind"])(c)


# ----------------------------------------------------------------------------
# Gallina literals
# ----------------------------------------------------------------------------
def g_str(x):
    if x == "":
        return "e_"
    if x == " " * len(x) and len(x) < 4000:
        return "(sp %d)" % len(x)
    return common.g_str(x)


def g_chk(t):
    h = 0
    for ch in t:
        h = (h * 131 + ord(ch)) % 1000000007
    return "(%d%%N, %d%%N)" % (len(t), h)


def g_text(t):
    """multi-line text as `jn [line; line; ...]` so that ASCII lines stay string literals"""
    return "(jn [%s])" % "; ".join(g_str(l) for l in t.split("\n"))


def g_tp(tp):
    return "(tp %s %s)" % (g_str(tp[0]), g_str(tp[1]))


def g_strs(l):
    return "[" + "; ".join(g_str(x) for x in l) + "]"


def g_sq(t):
    if "raw" not in t and all("blank" in l or len(l["toks"]) >= 4 for l in t["lines"]):
        ls = []
        for l in t["lines"]:
            if "blank" in l:
                ls.append("qb %s" % g_str(l["blank"]))
            else:
                k = l["toks"]
                ls.append("q_ %s %s %s %s %s [%s]" % (g_str(l.get("lead", "")), g_tp(k[0]), g_tp(k[1]), g_tp(k[2]),
                                                      g_tp(k[3]), "; ".join(g_tp(x) for x in k[4:])))
        return "(SqT %s [%s])" % (g_str(t["hdr"]), ";\n     ".join(ls))
    return "(SqRaw %s)" % g_text(print_sq(t))


def g_sa(t):
    if "raw" not in t and all("blank" in l or (len(l["toks"]) >= 3 and not l.get("lead")) for l in t["lines"]):
        ls = []
        for l in t["lines"]:
            if "blank" in l:
                ls.append("ab %s" % g_str(l["blank"]))
            else:
                k = l["toks"]
                ls.append("a_ %s %s %s [%s]" % (g_tp(k[0]), g_tp(k[1]), g_tp(k[2]),
                                                "; ".join(g_tp(x) for x in k[3:])))
        return "(SaT %s %s [%s])" % (g_str(t["hdr1"]), g_str(t["hdr2"]), ";\n     ".join(ls))
    return "(SaRaw %s)" % g_text(print_sa(t))


def g_lf(f):
    return "(lf %s %s %s)" % (g_str(f[0]), g_str(f[1]), g_str(f[2]))


def g_bj(t):
    if "raw" in t:
        return "(BjRaw %s)" % g_text(t["raw"])
    ls = []
    for l in t["lines"]:
        f = l["fields"]
        if len(f) >= 4:
            ls.append("b_ %s %s %s %s [%s]" % (g_lf(f[0]), g_lf(f[1]), g_lf(f[2]), g_lf(f[3]),
                                               "; ".join(g_lf(x) for x in f[4:])))
        else:
            ls.append("bs [%s]" % "; ".join(g_lf(x) for x in f))
    return "(BjT %s [%s])" % (g_str(t["hdr"]), ";\n     ".join(ls))


def g_result(o):
    if "exc" in o:
        return "Exc"
    return "(Ret JS_%s [%s])" % (o["code"], "; ".join(
        ("kn %s" % g_str(k)) if v is None else ("kv %s %s" % (g_str(k), v)) for k, v in o["st"]))


def g_case(c, o):
    if c["kind"] == "slurm":
        return "(%s, (%s, %s, %s), (%s, %s, %s), (%s, %d))" % (
            g_strs(c["jl"]), g_sq(c["sq"]), common.g_Z(c["sq_rc"]), g_chk(print_sq(c["sq"])),
            g_sa(c["sa"]), common.g_Z(c["sa_rc"]), g_chk(print_sa(c["sa"])), g_result(o), o["calls"])
    if c["kind"] == "lsf":
        return "(%s, (%s, %s, %s), %s)" % (g_strs(c["jl"]), g_bj(c["bj"]), common.g_Z(c["rc"]),
                                           g_chk(print_bj(c["bj"])), g_result(o))
    return "(%s, %s, %s)" % (g_str(c["version"]), g_str(c["code"]), o.get("state", "UNKNOWN"))


KINDS = {"slurm": ("slurm_case", "slurm"), "lsf": ("lsf_case", "lsf"), "flux": ("flux_case", "flux")}


# ----------------------------------------------------------------------------
# generators
# ----------------------------------------------------------------------------
def pad(rng, lo, hi, odd=0.04):
    n = rng.randint(lo, hi)
    return "".join(rng.choice(WS_ODD) if rng.random() < odd else " " for _ in range(n))


def rjust_pad(rng, tok, width):
    """padding that right-justifies tok in a column (squeue/sacct style)"""
    return " " * max(0, width - len(tok))


def id_pool(rng):
    root = "".join(rng.choice("123456789") for _ in range(rng.randint(3, 7)))
    base = {root}
    for _ in range(rng.randint(1, 4)):
        k = rng.random()
        if k < 0.35:
            base.add(root[:rng.randint(1, len(root))])            # prefix
        elif k < 0.6:
            base.add(root + rng.choice("0123456789"))              # extension
        elif k < 0.8:
            base.add(str(int(root) + rng.randint(1, 3)))
        else:
            base.add("".join(rng.choice("0123456789") for _ in range(rng.randint(1, 7))).lstrip("0") or "7")
    base = sorted(base)
    derived = []
    for b in base:
        for suf in (".batch", ".0", ".extern", "_1", "_12", "_[1-4]", "+0", ".1"):
            if rng.random() < 0.35:
                derived.append(b + suf)
    return base, derived


NAME_CH = "abcdefghijklmnopqrstuvwxyzABCXYZ0123456789_-.+"


def name(rng, hi=8):
    return "".join(rng.choice(NAME_CH) for _ in range(rng.randint(1, hi)))


def rc_of(rng, p0=0.72):
    return 0 if rng.random() < p0 else rng.choice(RCS)


def joblist(rng, base, derived):
    jl = []
    for _ in range(rng.choice([0, 1, 1, 2, 2, 3, 3, 4, 6])):
        k = rng.random()
        if k < 0.8 or not derived:
            jl.append(rng.choice(base))
        elif k < 0.9:
            jl.append(rng.choice(derived))
        else:
            jl.append(str(rng.randint(1, 99999)))
    return jl


def gen_slurm(rng, M, nrows=None):
    base, derived = id_pool(rng)
    jl = joblist(rng, base, derived)
    short = [c for c in M["slurm_alive"] + M["slurm_dead"] if len(c) <= 3]
    longc = [c for c in M["slurm_alive"] + M["slurm_dead"] if len(c) > 3]
    allc = short + longc

    def state(codes):
        if rng.random() < 0.04:
            return rng.choice(["XX", "cd", "RUNNING+", "r", "COMPLETED+", "0"])
        return rng.choice(codes)

    style = rng.choice(["just", "just", "rand", "left"])
    n = rng.randint(0, 30) if nrows is None else nrows
    lines = []
    for _ in range(n):
        if rng.random() < 0.07:
            lines.append({"blank": pad(rng, 0, 4)})
            continue
        i = rng.choice(base) if rng.random() < 0.7 else (rng.choice(derived) if derived and rng.random() < 0.6
                                                        else str(rng.randint(1, 999999)))
        nm, us, st = name(rng), rng.choice(["alice", "bob", "root", "u" + name(rng, 6)]), \
            state(short if rng.random() < 0.8 else allc)
        if style == "just":
            lead = " " * max(0, 18 - len(i))
            toks = [[i, " " + " " * max(0, 8 - len(nm))], [nm, " " + " " * max(0, 8 - len(us))],
                    [us, " " + " " * max(0, 2 - len(st))], [st, ""]]
        elif style == "left":
            lead = ""
            toks = [[i, pad(rng, 1, 6)], [nm, pad(rng, 1, 4)], [us, pad(rng, 1, 4)], [st, pad(rng, 0, 3)]]
        else:
            lead = pad(rng, 0, 12)
            toks = [[i, pad(rng, 1, 6)], [nm, pad(rng, 1, 4)], [us, pad(rng, 1, 4)], [st, pad(rng, 0, 3)]]
        if rng.random() < 0.05:                 # further columns
            toks[-1][1] = toks[-1][1] or " "
            toks.append([name(rng), pad(rng, 0, 2)])
        lines.append({"lead": lead, "toks": toks})
    if rng.random() < 0.8:
        lines.append({"blank": ""})            # the trailing newline of real output
    sq = {"hdr": rng.choice(["             JOBID     NAME     USER ST", "JOBID NAME USER ST", "", "x"]),
          "lines": lines}
    # sacct: rows for queried ids (and their steps), long state names
    salines = []
    cand = list(dict.fromkeys(jl + base))
    rng.shuffle(cand)
    for i in cand[:rng.randint(0, len(cand))]:
        if rng.random() < 0.25:
            continue
        rows = [i] + [i + suf for suf in (".batch", ".extern", ".0") if rng.random() < 0.45]
        if rng.random() < 0.15:
            rng.shuffle(rows)
        for r in rows:
            st = state(longc if rng.random() < 0.9 else allc)
            nm = name(rng, 10) if r == i else r.split(".")[-1]
            more = [["%d:%d" % (rng.choice([0, 0, 1, 9]), rng.choice([0, 0, 15])), rng.choice([" ", "", "  "])]]
            sp = lambda t, w: " " + " " * max(0, w - len(t))
            if st == "CANCELLED" and rng.random() < 0.5:
                # wide State column: "CANCELLED by <uid>"
                more = [["by", " "], [str(rng.randint(100, 60000)), pad(rng, 1, 3)]] + more
                stp = " "
            else:
                stp = pad(rng, 1, 3)
            salines.append({"toks": [[r, " " * max(1, 13 - len(r)) if rng.random() < 0.8 else pad(rng, 1, 5)],
                                     [nm, pad(rng, 1, 4)], [st, stp]] + more})
        if rng.random() < 0.05:
            salines.append({"blank": pad(rng, 0, 3)})
    if rng.random() < 0.8:
        salines.append({"blank": ""})
    sa = {"hdr1": "       JobID    JobName      State ExitCode ",
          "hdr2": "------------ ---------- ---------- -------- ", "lines": salines}
    return {"kind": "slurm", "jl": jl, "sq": sq, "sq_rc": rc_of(rng, 0.8), "sa": sa, "sa_rc": rc_of(rng, 0.75)}


REASONS = ["-", "", "TERM_RUNLIMIT: job killed after reaching LSF run time limit",
           "TERM_OWNER: job killed by owner", "TERM_UNKNOWN", "TERM_MEMLIMIT: job killed after reaching LSF memory usage limit",
           "xTERM_OWNERx", "TERM_OWNER TERM_RUNLIMIT", "TERM_RUNLIMI", "term_runlimit", "TERM_ADMIN: job killed by root"]


def gen_lsf(rng, M, nrows=None):
    base, derived = id_pool(rng)
    derived = [d.replace(".batch", "[1]").replace(".extern", "[2]") for d in derived]
    jl = joblist(rng, base, derived)
    codes = M["lsf_alive"] + M["lsf_dead"]
    n = rng.randint(0, 30) if nrows is None else nrows
    padded = rng.random() < 0.5
    lines = []

    def fld(t):
        if not padded:
            return ["", t, ""]
        return [pad(rng, 0, 3), t, pad(rng, 0, 4)]

    for _ in range(n):
        k = rng.random()
        if k < 0.06:
            lines.append({"fields": [fld("")]})                       # blank line
            continue
        if k < 0.10:
            lines.append({"fields": [fld(name(rng)) for _ in range(rng.randint(1, 3))]})   # short line
            continue
        i = rng.choice(base) if rng.random() < 0.7 else (rng.choice(derived) if derived and rng.random() < 0.6
                                                        else str(rng.randint(1, 999999)))
        st = rng.choice(codes) if rng.random() < 0.6 else "EXIT"
        if rng.random() < 0.04:
            st = rng.choice(["XX", "exit", "TIMEOUT", "CANCELLED", "", "EXIT "[:rng.randint(3, 4)]])
        reason = rng.choice(REASONS) if (st == "EXIT" or rng.random() < 0.1) else "-"
        code = "-" if st != "EXIT" else str(rng.choice([1, 2, 130, 140, 255]))
        fs = [fld(i), fld(st), fld(code), fld(reason)]
        if rng.random() < 0.04:
            fs.append(fld(name(rng)))
        lines.append({"fields": fs})
    if rng.random() < 0.8:
        lines.append({"fields": [["", "", ""]]})
    hdr = rng.choice(["JOBID|STAT|EXIT_CODE|EXIT_REASON", "JOBID  |STAT |EXIT_CODE |EXIT_REASON", "", "Notes|x|y|z"])
    k = rng.random()
    if k < 0.06:
        bj = {"hdr": rng.choice(["No unfinished job found", "No job found", "No\tjob", "No"]), "lines":
              lines[:rng.randint(0, 2)]}
    else:
        bj = {"hdr": hdr, "lines": lines}
    return {"kind": "lsf", "jl": jl, "bj": bj, "rc": rc_of(rng, 0.78)}


SOUP = ["1", "12", "123", "R", "CD", "EXIT", "RUN", "DONE", "TERM_OWNER", "x", " ", "  ", "\t", "\n", "\n", "|", "|",
        "\xa0", "\r", "No ", "-", "PD", "COMPLETED", "CANCELLED+", " ", "|||", " | "]


def gen_exotic(rng, M):
    k = rng.random()
    if k < 0.5:
        c = gen_slurm(rng, M, nrows=rng.randint(0, 6))
        m = rng.random()
        rows = [l for l in c["sq"]["lines"] if "toks" in l]
        if m < 0.2 and rows:
            rng.choice(rows)["toks"][1][0] = "my job"                 # name with a blank: columns shift
        elif m < 0.4 and rows:
            r = rng.choice(rows)
            r["toks"] = r["toks"][:rng.randint(1, 3)]                  # short row (IndexError if queried)
        elif m < 0.5:
            c["jl"] = c["jl"] + [""]                                    # empty id
        elif m < 0.6 and c["sa"]["lines"]:
            l = rng.choice(c["sa"]["lines"])
            if "toks" in l:
                l["lead"] = "  "                                       # sacct row with leading blanks
        elif m < 0.7 and c["sa"]["lines"]:
            l = rng.choice(c["sa"]["lines"])
            if "toks" in l:
                l["toks"] = l["toks"][:rng.randint(1, 2)]
        elif m < 0.85:
            c["sq"] = {"raw": "".join(rng.choice(SOUP) for _ in range(rng.randint(0, 40)))}
            c["sq_rc"] = 0
        else:
            c["sa"] = {"raw": "".join(rng.choice(SOUP) for _ in range(rng.randint(0, 40)))}
            c["sa_rc"] = 0
        if rng.random() < 0.5:
            c["jl"] = c["jl"] + [rng.choice(["1", "12", "123"])]
        return c
    c = gen_lsf(rng, M, nrows=rng.randint(0, 6))
    m = rng.random()
    rows = [l for l in c["bj"].get("lines", []) if len(l["fields"]) >= 4]
    if m < 0.25 and rows:
        rng.choice(rows)["fields"][0][1] = ""                           # blank id field: fields shift left
    elif m < 0.4 and rows:
        r = rng.choice(rows)
        r["fields"] = [["", "", ""]] + r["fields"][:3]                  # leading delimiter, then too short
    elif m < 0.5:
        c["bj"]["lines"] = c["bj"].get("lines", []) + [{"fields": [["", "", " "]] * rng.randint(4, 6)}]   # "|||"
    elif m < 0.6:
        c["jl"] = c["jl"] + [""]
    elif m < 0.7 and rows:
        rng.choice(rows)["fields"][1][1] = " EXIT"                      # not stripped in the data
    else:
        c["bj"] = {"raw": "".join(rng.choice(SOUP) for _ in range(rng.randint(0, 40)))}
        c["rc"] = 0
    if rng.random() < 0.5:
        c["jl"] = c["jl"] + [rng.choice(["1", "12", "123"])]
    return c


def code_cases(M):
    """every documented code of every scheduler, alone in a one-row table"""
    out = []
    extra = ["XX", "", "cd", "PD "]
    for code in list(dict.fromkeys(M["slurm_alive"] + M["slurm_dead"] + ["XX", "cd"])):
        row = {"lead": "  ", "toks": [["77", " "], ["n", " "], ["u", " "], [code, ""]]}
        sq = {"hdr": "JOBID NAME USER ST", "lines": [row, {"blank": ""}]}
        empty_sa = {"hdr1": "JobID JobName State ExitCode", "hdr2": "----- ----- ----- -----", "lines": [{"blank": ""}]}
        out.append({"kind": "slurm", "jl": ["77", "7"], "sq": sq, "sq_rc": 0, "sa": empty_sa, "sa_rc": 0})
        sa = {"hdr1": "JobID JobName State ExitCode", "hdr2": "----- ----- ----- -----",
              "lines": [{"toks": [["77", "   "], ["n", " "], [code, " "], ["0:0", " "]]},
                        {"toks": [["77.batch", " "], ["batch", " "], ["FAILED", " "], ["1:0", " "]]}, {"blank": ""}]}
        out.append({"kind": "slurm", "jl": ["77"], "sq": {"hdr": "JOBID NAME USER ST", "lines": [{"blank": ""}]},
                    "sq_rc": 0, "sa": sa, "sa_rc": 0})
    for code in list(dict.fromkeys(M["lsf_alive"] + M["lsf_dead"] + ["XX", "TIMEOUT", "CANCELLED"])):
        bj = {"hdr": "JOBID|STAT|EXIT_CODE|EXIT_REASON",
              "lines": [{"fields": [["", "77", " "], ["", code, " "], ["", "-", ""], ["", "-", ""]]},
                        {"fields": [["", "", ""]]}]}
        out.append({"kind": "lsf", "jl": ["77", "7"], "bj": bj, "rc": 0})
    for reason in REASONS:
        bj = {"hdr": "JOBID|STAT|EXIT_CODE|EXIT_REASON",
              "lines": [{"fields": [["", "77", ""], ["", "EXIT", ""], ["", "140", ""], ["", reason, ""]]}]}
        out.append({"kind": "lsf", "jl": ["77"], "bj": bj, "rc": 0})
    for ver in ("flux0_49_0", "flux0_26_0"):
        for code in list(dict.fromkeys(M["flux_alive"] + M["flux_dead"] + ["", "X", "PD", "RU", "I", "cd", "CD ", "A"])):
            out.append({"kind": "flux", "version": ver, "code": code})
    return out


def small_scope():
    """exhaustive: <=2 squeue rows x one sacct row x id lists x exit codes"""
    def sqrow(i, st, lead):
        return {"lead": lead, "toks": [[i, " "], ["n", " "], ["u", " "], [st, ""]]}
    rowalts = [None, sqrow("1", "R", ""), sqrow("12", "CD", " "), sqrow("1", "CF", "  "), {"blank": " "},
               sqrow("1.0", "F", "")]
    saalts = [None, ("1", "COMPLETED"), ("12", "FAILED"), ("1.batch", "RUNNING")]
    out = []
    for r1, r2 in itertools.product(rowalts, rowalts):
        for jl in ([], ["1"], ["12"], ["1", "12"], ["12", "1", "12"]):
            for sq_rc in (0, 1):
                for sa in saalts:
                    for sa_rc in (0, 1, 127):
                        if sa is None and sa_rc != 0:
                            continue
                        lines = [r for r in (r1, r2) if r is not None]
                        salines = [] if sa is None else [{"toks": [[sa[0], "  "], ["n", " "], [sa[1], " "], ["0:0", ""]]}]
                        out.append({"kind": "slurm", "jl": list(jl),
                                    "sq": {"hdr": "JOBID NAME USER ST", "lines": json.loads(json.dumps(lines))},
                                    "sq_rc": sq_rc,
                                    "sa": {"hdr1": "h", "hdr2": "-", "lines": salines}, "sa_rc": sa_rc})
    return out


def load_corpus():
    out = []
    for p in sorted(glob.glob(os.path.join(common.CORPUS, PID, "*.json"))):
        try:
            d = json.load(open(p))
        except Exception:
            continue
        for c in (d if isinstance(d, list) else [d]):
            c = dict(c)
            c["_src"] = os.path.relpath(p, common.VERIF)
            out.append(c)
    return out


# ----------------------------------------------------------------------------
# evaluation
# ----------------------------------------------------------------------------
def strip_meta(c):
    return {k: v for k, v in c.items() if not k.startswith("_")}


def evaluate(tag, cases, obs):
    """-> {index: set of failed parts in {'print','corr','mon'}}, errors"""
    failed, errors = {}, []
    for kind, (ty, pre) in KINDS.items():
        idx = [i for i, c in enumerate(cases) if c["kind"] == kind]
        if not idx:
            continue
        lits = [g_case(cases[i], obs[i]) for i in idx]
        bad, errs = common.coq_failing("%s_%s_%s" % (PID, tag, kind), HEADER, ty, pre + "_case_ok", lits, shard=SHARD)
        errors.extend(errs)
        if not bad:
            continue
        bl = [lits[b] for b in bad]
        parts = ("print", "corr", "mon") if kind != "flux" else ("corr", "mon")
        for part in parts:
            pb, perrs = common.coq_failing("%s_%s_%s_%s" % (PID, tag, kind, part), HEADER, ty,
                                           "%s_%s_ok" % (pre, part), bl)
            errors.extend(perrs)
            for j in pb:
                failed.setdefault(idx[bad[j]], set()).add(part)
        for b in bad:
            failed.setdefault(idx[b], set())
    return failed, errors


def model_text(c, o):
    lit = g_case(c, o)
    if c["kind"] == "slurm":
        e = ("match %s : slurm_case with (jl, (t1, r1, _), (t2, r2, _), _) => "
             "slurm_run jl (print_squeue t1) r1 (print_sacct t2) r2 end" % lit)
    elif c["kind"] == "lsf":
        e = "match %s : lsf_case with (jl, (t, rc, _), _) => lsf_check_jobs jl (print_bjobs t) rc end" % lit
    else:
        e = "match %s : flux_case with (v, code, _) => option_map (fun td => lookup_state (fst td) (snd td) code) (flux_lookup v) end" % lit
    return common.coq_eval(PID + "_model", HEADER, e)[-1500:]


def describe(c, o):
    if c["kind"] == "flux":
        return "flux %s state(%r) -> %s" % (c["version"], c["code"], o.get("state", o.get("exc")))
    return "%s check_jobs(%r) -> %s" % (c["kind"], c["jl"], json.dumps({k: v for k, v in o.items() if k != "sacct_jobs"}))


def key_of(c, o):
    """distinctness: shape of the case, not its random ids"""
    if c["kind"] == "flux":
        return ("flux", c["version"], c["code"])
    if c["kind"] == "slurm":
        t = c["sq"]
        n = len(t.get("lines", [])) if "raw" not in t else -1
        return ("slurm", len(c["jl"]), n, c["sq_rc"], c["sa_rc"], json.dumps(o.get("st", o.get("exc")))[:200], o.get("calls"))
    t = c["bj"]
    n = len(t.get("lines", [])) if "raw" not in t else -1
    return ("lsf", len(c["jl"]), n, c["rc"], json.dumps(o.get("st", o.get("exc")))[:200])


def nontrivial(c, o):
    if c["kind"] == "flux":
        return True
    return bool(c["jl"]) and ("exc" in o or any(v is not None for _, v in o.get("st", [])) or o.get("code") != "OK")


def run_stream(ck, impl, tag, cases, hist):
    obs = []
    for c in cases:
        try:
            o = impl.run(strip_meta(c))
        except RuntimeError:
            raise
        except Exception as e:
            o = {"exc": "Harness" + type(e).__name__, "calls": 0}
        obs.append(o)
    failed, errors = evaluate(tag, [strip_meta(c) for c in cases], obs)
    for c, o in zip(cases, obs):
        ck.count(key_of(c, o), nontrivial=nontrivial(c, o))
        h = hist.setdefault(tag, {})
        k = c["kind"]
        h[k] = h.get(k, 0) + 1
        if c["kind"] != "flux":
            res = "exception" if "exc" in o else o["code"]
            h["%s:%s" % (k, res)] = h.get("%s:%s" % (k, res), 0) + 1
            if c["kind"] == "slurm" and o.get("calls") == 2:
                h["slurm:sacct-consulted"] = h.get("slurm:sacct-consulted", 0) + 1
            n = sum(1 for _, v in o.get("st", []) if v is not None)
            h["answers:states"] = h.get("answers:states", 0) + n
            h["answers:none"] = h.get("answers:none", 0) + len(o.get("st", [])) - n
    for i in sorted(failed):
        c, o, parts = strip_meta(cases[i]), obs[i], failed[i]
        cj = {"case": c, "impl": o, "failed_parts": sorted(parts), "stream": tag, "src": cases[i].get("_src")}
        if "mon" in parts:
            ck.violation("C16_ok false on the implementation's answer: " + describe(c, o), cj)
        elif "print" in parts:
            ck.mismatch("harness printer and Gallina printer disagree", cj, "")
        else:
            ck.mismatch("model and implementation disagree: " + describe(c, o), cj,
                        model_text(c, o) if len(ck.corr_failures) < 3 else "")
    for e in errors:
        ck.mismatch("coqc failed on cases file", None, e[1])
    return obs, failed


def soft_sacct_note(cases, obs, notes):
    """the sacct command asks exactly for the ids squeue did not resolve (soft:
    recorded in the evidence, not part of the verdict)"""
    n = bad = 0
    for c, o in zip(cases, obs):
        if c["kind"] == "slurm" and "sacct_jobs" in o and o.get("calls") == 2 and "raw" not in c["sq"]:
            n += 1
            if o["sacct_jobs"] is None:
                bad += 1
    notes["sacct_cmds_seen"] = notes.get("sacct_cmds_seen", 0) + n
    notes["sacct_cmds_without_jobs_arg"] = notes.get("sacct_cmds_without_jobs_arg", 0) + bad


def all_cases(rng, tier, M):
    B = QUICK if tier == "quick" else THOROUGH
    streams = [("corpus", load_corpus()), ("codes", code_cases(M))]
    small = small_scope()
    if B["small"] is not None and len(small) > B["small"]:
        small = rng.sample(small, B["small"])
    streams.append(("small", small))
    rnd = [gen_slurm(rng, M) for _ in range(B["slurm"])] + [gen_lsf(rng, M) for _ in range(B["lsf"])]
    streams.append(("random", rnd))
    streams.append(("exotic", [gen_exotic(rng, M) for _ in range(B["exotic"])]))
    return streams


def run(ck):
    # Sched/ParseGenProofs.v: the text regenerated from the adapters' source (Sched/ParseGen.v, translate/
    # tcode_sched.py) is proved equal, function by function, to the model the theorems are about
    ck.build_proofs(extra_targets=["theories/Sched/ParseGenProofs.vo"])
    ok, out = common.coq_make(["theories/Sched/Parse.vo"])
    if not ok:
        ck.proof_failures.append(("model Sched/Parse.v does not build against the regenerated tables", out[-3000:]))
        return ck.finish()
    from translate import regen
    gs = regen.status().get("tdata_sched", {})
    ck.notes["tdata_sched"] = "regenerated" if gs.get("ok") else "NOT TRANSLATABLE: %s" % gs.get("not_translatable")
    gc = regen.status().get("tcode_sched", {})
    ck.notes["tcode_sched"] = ("regenerated (changed: %s)" % gc.get("changed")) if gc.get("ok") else \
        "NOT TRANSLATABLE (committed Sched/ParseGen.v stands; correspondence run carries the tie): %s" % \
        gc.get("not_translatable")
    M = manual_lists()
    impl = Impl()
    ck.notes["flux_state_obtained_by"] = impl.flux_how
    if "flux0_49_0" not in impl.flux:
        ck.mismatch("flux0_49_0.state could not be obtained (neither import nor source)", None, "")
    rng = random.Random(ck.seed)
    hist = {}
    total = 0
    adapter_answers = []
    for tag, cases in all_cases(rng, ck.tier, M):
        cases = [c for c in cases if c["kind"] != "flux" or c["version"] in impl.flux]
        if not cases:
            continue
        obs, failed = run_stream(ck, impl, tag, cases, hist)
        soft_sacct_note(cases, obs, ck.notes)
        for c, o in zip(cases, obs):          # what the real adapters answered: input of the engine layer below
            if c["kind"] in ("slurm", "lsf") and "code" in o:
                adapter_answers.append((c["jl"], o["code"], o["st"], c["kind"]))
        total += len(cases)
        for c, o in list(zip(cases, obs))[:1]:
            ck.sample({"stream": tag, "case": strip_meta(c), "impl": o})
    ck.cov["rule"] = ("case = (queried ids, squeue/sacct or bjobs table as rows with explicit padding, exit codes) or "
                      "(flux version, abbreviation); the python-printed text is fed to the real check_jobs with "
                      "start_process/Popen scripted; Coq re-prints the table, runs the model on the same text and "
                      "evaluates C16_ok_* on the implementation's answer. distinct = (scheduler, #ids, #rows, exit "
                      "codes, returned dict); non-trivial = non-empty id list and (some state returned, or an "
                      "exception, or a non-OK code)")
    ck.cov["traces_validated_against_impl"] = total
    ck.notes["theorem_status"] = (
        "all theorems of Props/C16.v complete (no _partial): tables (only_success, alive_not_terminal, LSF exit "
        "refinement), return codes for ANY text (C16_rc, C16_rc_slurm), unbounded printer/parser round trips for "
        "squeue, sacct, check_jobs(slurm) and bjobs by induction over rows, monitors hold of the model "
        "(C16_monitor_*, C16_monitors_as_run = the functions applied here to the implementation's answers). "
        "C16_graph_ignores (None / non-terminal states leave the graph's sets unchanged) belongs to the Exec model (C20).")
    ck.notes["explicit_hypotheses"] = (
        "wf_squeue / wf_sacct / wf_bjobs: fields are non-empty tokens without white space (bjobs: no '|' / newline, "
        "no white space at either end), padding is non-newline white space; wf_joblist: no empty id. Justified for "
        "queried jobs by slurmscriptadapter.py: job-name = step.name.replace(' ', '_'). Non-well-formed texts are "
        "covered by the correspondence run only (exotic stream) and by C16_rc / C16_rc_slurm.")
    ck.cov["input_distribution"] = hist
    try:   # Flux job-list query through the real check_jobs over a fake flux-core (harness/props/c16_flux.py)
        __import__("harness.props.c16_flux", fromlist=["run_flux"]).run_flux(ck)
    except Exception:
        import traceback
        ck.mismatch("the flux status-query part of the check could not run to completion", None, traceback.format_exc()[-3000:])
    try:   # the engine's layer: the adapters' answers through the REAL ExecutionGraph.check_study_status
        n = __import__("harness.props.c16_engine", fromlist=["run_engine"]).run_engine(ck, adapter_answers)
        ck.cov["traces_validated_against_impl"] = ck.cov.get("traces_validated_against_impl", 0) + n
    except Exception:
        import traceback
        ck.mismatch("the engine-layer part of the check could not run to completion", None, traceback.format_exc()[-3000:])
    return ck.finish(search=lambda: search(ck, impl, M))


def search(ck, impl, M):
    """a proof or the correspondence broke and no stream produced a concrete
    violation: push the thorough budget (other seed) through the monitor"""
    rng = random.Random(ck.seed + 1000003)
    cases = code_cases(M) + small_scope() + [gen_slurm(rng, M) for _ in range(THOROUGH["slurm"] // 2)] + \
        [gen_lsf(rng, M) for _ in range(THOROUGH["lsf"] // 2)]
    cases = [c for c in cases if c["kind"] != "flux" or c["version"] in impl.flux]
    obs = [impl.run(c) for c in cases]
    for kind, (ty, pre) in KINDS.items():
        idx = [i for i, c in enumerate(cases) if c["kind"] == kind]
        lits = [g_case(cases[i], obs[i]) for i in idx]
        bad, _ = common.coq_failing("%s_search_%s" % (PID, kind), HEADER, ty, pre + "_mon_ok", lits, shard=SHARD)
        if bad:
            i = idx[bad[0]]
            return ("C16_ok false on the implementation's answer: " + describe(cases[i], obs[i]),
                    {"case": cases[i], "impl": obs[i], "stream": "search"})
    return None


def replay(ck, path):
    d = json.load(open(path))
    E = __import__("harness.props.c16_engine", fromlist=["replay_engine"])
    if E.is_engine_case(d):
        return E.replay_engine(ck, d)
    c = d.get("case", d)
    if isinstance(c, dict) and "case" in c and "kind" not in c:
        c = c["case"]
    if isinstance(c, list):
        c = c[0]
    c = strip_meta(c)
    common.coq_make(["theories/Sched/Parse.vo"])
    impl = Impl()
    o = impl.run(c)
    failed, errors = evaluate("replay", [c], [o])
    print("case:", json.dumps(c))
    print("implementation:", json.dumps(o))
    print("model:", model_text(c, o))
    parts = failed.get(0)
    if errors:
        print("coqc error:", errors[0][1][-800:])
        return 2
    if parts is None:
        print("verdict: ok (printer, correspondence and monitor C16_ok all hold)")
        return 0
    print("verdict: FAILED parts=%s%s" % (sorted(parts), "  -> C16_ok is false on the implementation's answer"
                                           if "mon" in parts else ""))
    return 1

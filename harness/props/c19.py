"""C19 -- locally executed steps really run, once, in order, and their exit code decides.

END-TO-END through the real command line.  Generated studies (all DAG shapes
of the shared graph generator incl. chains, diamonds, funnels `_*`, fan-out;
0-2 parameters x 1-3 rows; per step / per instance-variant / per attempt exit
codes; --attempts 1-3; --throttle 0-3; no nodes/procs keys, so every step is
local) are written as YAML specifications and run with

    maestro run -fg -y -s 7919 --attempts N --rlimit R --throttle T -o <dir>/out spec.yaml

started by harness/e2e_launcher.py (stubs time.sleep only; real
LocalScriptAdapter, real Popen, real dill, real locks).  Every step appends
`S <step> <attempt> <pid> <cwd>` / `E <step> <attempt> <pid> <code>` markers to
a shared log (attempt number from a counter file keyed by the cwd), writes a
known line to stdout and stderr, and exits with the scripted code.

Observed: marker sequence (with the poll boundaries the sleep stub adds),
status.csv after every poll, the *.out/*.err files in every workspace, the
process exit code.  Checked
  * inside Coq (harness/e2e.py `e2e_ok`): the Exec model run on the staged
    graph (parents by instance, scheduled=false) with psubs = the attempts'
    real outcomes gives the same submissions (in order, with results), the same
    status rows after every poll and the same final status; the trace monitor
    (families 19, 1, 5 and every other code that does not need the unobservable
    ECheck events) is silent on the implementation's observations;
  * in Python, on the implementation's own observables: each start marker is
    followed by its own end marker before any other start (synchronous, once per
    attempt), cwd = the instance's workspace, attempts numbered 1..k with
    k <= --attempts and none after an exit 0, every dependent starts after each
    parent's successful end, one *.pid.out / *.pid.err per attempt in the
    workspace holding exactly the step's stdout / stderr, final state FINISHED
    iff some attempt exited 0, FAILED (with every descendant) iff all attempts
    exited non-zero, process exit code 0 / 2 accordingly.
A failing clause on the implementation side is a VIOLATION; a disagreement
between model and implementation is a mismatch.

PARTIAL by nature: that Popen(...).communicate() waits for the child and
reports its code is OS/CPython behaviour -- exercised here, not modelled.
"""
import glob
import json
import os
import random
import shutil

from harness import common
from harness import e2e

PID = "C19"
QUICK_N, THOROUGH_N = 64, 1000


def corpus_items():
    items = []
    for f in sorted(glob.glob(os.path.join(common.CORPUS, PID, "*.json"))):
        try:
            d = json.load(open(f))
        except Exception:
            continue
        d = d.get("case", d)
        if "steps" not in d and "case" in d:
            mode, d = d.get("mode", "fg"), d["case"]
        else:
            mode = "fg"
        d.setdefault("shape", "corpus")
        d.setdefault("scenario", "corpus")
        d.setdefault("cancel", "no")
        items.append({"case": d, "mode": mode, "origin": os.path.basename(f)})
    return items


def generated_items(rng, n):
    items = []
    shapes = ["chain", "diamond", "funnel", "fanout", "twofail", "indep", "single", "layered", "random"]
    for i in range(n):
        shape = shapes[i % len(shapes)] if i < 2 * len(shapes) else None      # every shape at least twice
        # every fifth study through the detached path: `maestro run -n` stores it, the `conductor` entry point runs it
        items.append({"case": e2e.gen_local_study(rng, shape=shape), "mode": "conductor" if i % 5 == 4 else "fg"})
    return items


def run_items(ck, items, tag):
    tag = e2e.utag(tag)
    work = os.path.join(common.WORK, tag + "_runs")
    shutil.rmtree(work, ignore_errors=True)
    for i, it in enumerate(items):
        it["dir"] = os.path.join(work, "c%d" % i)
    summ = e2e.evaluate(ck, tag, items)
    shutil.rmtree(work, ignore_errors=True)
    e2e.sweep()
    return summ


def run(ck):
    vfile = os.path.join(common.THEORIES, "Props", PID + ".v")
    if os.path.exists(vfile):
        ck.build_proofs()
        ck.build_proofs(props="ExecMonitor")   # monitor_silent: the trace monitor is silent on every model trace
    else:
        ck.notes["proofs"] = "coq/theories/Props/C19.v not present yet (model-side theorems are the exec-fault area's); " \
                             "only the end-to-end correspondence ran"
    rng = random.Random(ck.seed * 104729 + 19)
    n = QUICK_N if ck.tier != "thorough" else THOROUGH_N
    items = corpus_items()
    ncorpus = len(items)
    items += generated_items(rng, n)
    summ = run_items(ck, items, PID)
    for r in summ:
        ck.count(e2e.case_key(r["case"], r["mode"]), nontrivial=r["attempts_run"] >= 2 and r["instances"] >= 2)
    for r in summ[ncorpus:ncorpus + 2] + summ[-1:]:
        ck.sample(e2e.slim(r))
    ck.cov["traces_validated_against_impl"] = len(summ)
    ck.cov["input_distribution"] = e2e.distribution(summ)
    ck.cov["rule"] = ("corpus studies, then seeded generated studies (every DAG shape of the shared generator at least twice: "
                      "chain, diamond, funnel, fan-out, two-failing-roots, independent chains, single, layered, random; ordinary "
                      "and `_*` funnel dependencies; 0-2 parameters x 1-3 rows; 1-3 exit-code variants per step selected by a "
                      "checksum of the instance's cwd; scenarios all-ok / flaky (fails then succeeds within the attempts) / "
                      "fail (all attempts non-zero somewhere) / mixed; --attempts 1-3, --throttle 0-3, occasional restart "
                      "command) run through `maestro run -fg -y` in sub-processes; non-trivial = at least 2 instances and 2 "
                      "executed attempts; distinct by (steps, parameters, attempts, throttle)")
    ck.cov["residual"] = ("PARTIAL: that Popen(...).communicate() waits for the child process and returns its exit code, and "
                          "that the kernel runs the script in the given cwd, is OS/CPython behaviour: exercised by every "
                          "case here, not modelled. ECheck/EGen adapter calls are not observable with the real local adapter "
                          "and are projected away from the model's trace before comparison.")

    def search():
        r2 = random.Random(ck.seed + 191919)
        ck2 = common.Check(PID, ck.tier, ck.seed)
        run_items(ck2, generated_items(r2, 300), PID + "_search")
        if ck2.concrete:
            return ck2.concrete[0]
        return None

    return ck.finish(search=search)


def replay(ck, path):
    d = json.load(open(path))
    d = d.get("case", d)
    mode = "fg"
    if "steps" not in d and "case" in d:
        mode, d = d.get("mode", "fg"), d["case"]
    d.setdefault("shape", "replay")
    d.setdefault("scenario", "replay")
    d.setdefault("cancel", "no")
    summ = run_items(ck, [{"case": d, "mode": mode}], PID + "_replay")
    print(json.dumps(e2e.slim(summ[0]), indent=1)[:8000])
    for w, _ in ck.concrete:
        print("VIOLATION:", w)
    for w, _, det in ck.corr_failures:
        print("MISMATCH:", w)
        print(det[-3000:])
    return 1 if (ck.concrete or ck.corr_failures) else 0

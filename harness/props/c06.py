"""C06 -- see DESIGN.md section 5.  Proofs: coq/theories/Props/C06.v; correspondence
and monitor: harness/exec_props.py (monitor family 6 of Exec/ExecTrace.v)."""
from harness import exec_props as X

# random histories: TIMEDOUT-heavy report mixes (42% of the reports in the "timeout" profile, so
# runs of rlimit+2 consecutive timeouts of one step are common), a third of the submissions fail
# (failing restart submissions, exhausted attempts), 1-3 attempts, throttled and unthrottled
BIAS = {"profiles": ["timeout", "timeout", "timeout", "timeout", "mixed", "hw"],
        "sub_ok_p": 0.7, "cancel_p": 0.04, "attempts": [1, 2, 3], "max_polls": 16, "nmax": 7,
        "fair_after": [None, None, 6, 10]}
# exhaustive tiny scope: the tiny graphs carry restart commands with limit 1 and 2 and steps without
# restart command (scheduled and local); every queried job is absent / RUNNING / FINISHED /
# TIMEDOUT / HWFAILURE at every poll.  quick: depth 3 (submit, timeout+restart, timeout with the
# budget of 1 used up), ideal submissions (failing restart submissions come from the random
# stream).  thorough: depth 3 with a failing outcome possible for every submission (failing
# restart submissions, exhausted attempts) -- and see TINY_DEEP.
TINY = {"depth_quick": 3, "depth_thorough": 3, "graphs_quick": 6,
        "cfgs": [{"throttle": 0, "attempts": 1, "dry": False}, {"throttle": 1, "attempts": 2, "dry": False}],
        "enum": {"q": False, "cancel": False, "subs": False,
                 "kinds": ["absent", "RUNNING", "FINISHED", "TIMEDOUT", "HWFAILURE"]},
        "limit_quick": 4000, "limit_thorough": 60000}
TINY_THOROUGH = dict(TINY, enum=dict(TINY["enum"], subs=True, cancel=True))


def _e2e(ck):
    # the restart limit given on the command line (0 = unlimited) must be the budget the engine applies:
    # studies through the literal `maestro run -fg -r R` with R+2 consecutive TIMEDOUT reports (harness/e2e.py)
    import random
    from harness import e2e
    e2e.check_config(ck, e2e.config_cases(random.Random(ck.seed * 977 + 6), 10 if ck.tier != "thorough" else 150,
                                          "restart"), 6)


def run(ck):
    return X.run_exec(ck, 6, BIAS, tiny=TINY if ck.tier == "quick" else TINY_THOROUGH, extra=_e2e, shown=True)


def replay(ck, path):
    return X.replay_exec(ck, 6, path, shown=True)

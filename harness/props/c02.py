"""C02 -- see DESIGN.md section 5.  Proofs: coq/theories/Props/C02.v; correspondence
and monitor: harness/exec_props.py (monitor family 2 of Exec/ExecTrace.v)."""
from harness import exec_props as X

BIAS = {}
TINY = None


def run(ck):
    return X.run_exec(ck, 2, BIAS, tiny=TINY)


def replay(ck, path):
    return X.replay_exec(ck, 2, path)

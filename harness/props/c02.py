"""C02 -- see DESIGN.md section 5.  Proofs: coq/theories/Props/C02.v; correspondence
and monitor: harness/exec_props.py (monitor family 2 of Exec/ExecTrace.v)."""
from harness import exec_props as X

# random histories: failure-heavy report mixes (FAILED / UNKNOWN / CANCELLED / TIMEDOUT well
# represented), one submission in four fails (exhausted attempts sweep the sub-tree too),
# cancel requests, up to 3 attempts; half of the histories are driven to completion by a fair tail
# so that "the rest runs" (code 24) is exercised on final verdicts
BIAS = {"profiles": ["failing", "failing", "failing", "mixed", "timeout", "faulty"],
        "sub_ok_p": 0.75, "cancel_p": 0.05, "attempts": [1, 1, 2, 3], "max_polls": 14, "nmax": 9,
        "fair_after": [None, 3, 5, 8]}
# exhaustive tiny scope = every failure kind x shape pair: for every tiny graph (single step, chain,
# chain with a local child, two independent steps, funnel with two parents one child, fan-out)
# every queried job gets, at every poll up to the depth, absent / RUNNING / FINISHED / FAILED /
# TIMEDOUT / CANCELLED / UNKNOWN (quick: 1254 histories, complete).  The thorough tier adds a
# cancel request at any poll and a failing outcome for any submission (exhausted attempts).
TINY = {"depth_quick": 3, "depth_thorough": 3, "graphs_quick": 6,
        "cfgs": [{"throttle": 0, "attempts": 1, "dry": False}, {"throttle": 1, "attempts": 2, "dry": False}],
        "enum": {"q": False, "cancel": False, "subs": False,
                 "kinds": ["absent", "RUNNING", "FINISHED", "FAILED", "TIMEDOUT", "CANCELLED", "UNKNOWN"]},
        "limit_quick": 4000, "limit_thorough": 60000}
TINY_THOROUGH = dict(TINY, enum=dict(TINY["enum"], cancel=True, subs=True))


def run(ck):
    return X.run_exec(ck, 2, BIAS, tiny=TINY if ck.tier == "quick" else TINY_THOROUGH, shown=True)


def replay(ck, path):
    return X.replay_exec(ck, 2, path, shown=True)

"""C17, process layer: a dry run spawns NO process and calls NO scheduler function --
with the REAL Slurm / LSF / Flux / local adapters, whatever the batch block contains.

`run_procs(ck)` (called from harness/props/c17.py's end-to-end part) adds violations /
mismatches / counts to the Check it is given.

The other C17 streams observe the ENGINE's adapter calls (submit / check_jobs / cancel_jobs of
a scripted adapter).  An adapter is constructed on every execute_ready_steps pass -- dry or
not -- and script generation runs adapter code as well, so "executes nothing" is also a
statement about what the adapters themselves do outside those three calls.  Here generated
studies (parameterised steps, funnels, restart commands, scheduled steps with procs / nodes /
walltime / gpus / exclusive / $(LAUNCHER), local steps) are run with a RICH batch block
(type + host bank queue nodes procs reservation qos shell gpus uri flux_uri version args:
the first case of every adapter sets every key, the others a random subset), plus per scheduler
adapter a SPLIT-LEVEL study (two scheduled roots whose jobs finish at different polls, each with one
child; the children carry different resource keys: the dry run writes both children's scripts with
ONE adapter instance, the real run with two) and the stored witnesses corpus/C17/procs/*.json (run
first), four times:

    maestro run --dry -fg -y [--hashws] [--usetmp] -t T -a A -r R -o <d>/dry-cli  spec.yaml   (command line)
    maestro run       -fg -y ...                                 -o <d>/real-cli spec.yaml
    Study(...) / configure_study(dry_run=True)  / Conductor.monitor_study()      (Python API, <d>/dry-api)
    Study(...) / configure_study(dry_run=False) / Conductor.monitor_study()      (<d>/real-api)

Every door to a process is observed, nothing is replaced (the real Popen runs):
  * inside the python process: subprocess.Popen.__init__ (run / call / check_call /
    check_output / getoutput / os.popen and maestrowf.utils.start_process all end there),
    maestrowf.utils.start_process itself, os.system, os.execv / execve (all os.exec* and
    os.spawn* variants end there), os.posix_spawn(p), os.fork / forkpty -- each call appends
    a JSON line {door, cmd, by = the innermost maestrowf frames} to <run>.doors.log.
    Command-line runs get the recorder through a `sitecustomize` module put first on
    PYTHONPATH (so grand-children written in Python would carry it too); API runs install it
    explicitly before maestrowf is imported;
  * outside: a directory with fake sbatch squeue sacct scancel scontrol sinfo srun salloc
    sacctmgr sprio sshare bsub bjobs bkill bhist bqueues bhosts jsrun lsrun flux executables is
    FIRST on PATH; each appends its command line to <run>.cmds.log and answers like an idle,
    obliging scheduler (sbatch / bsub hand out job ids; squeue / sacct / bjobs report job n running
    for (n mod 3) queries, then completed -- siblings finish at different polls, so the real run
    stages their children in other passes than the dry run) -- a path the in-process recorder does not see still leaves a line there;
  * Flux: the `flux` Python bindings are the in-memory fake of harness/props/c07_adapters.py
    wrapped so that flux.Flux(), Flux.attr_get, flux.job.submit, JobList / JobList.jobs and
    flux.job.cancel(_async) each append a line (door "flux:...").

Cancel requests (every back-end, command line and API): a further family of cases carries `cancel_at` = -1 (the request
is there before the first pass: made right after run_study stored the study -- `maestro run` wipes an existing output
directory, so it cannot precede the command -- / before monitor_study in the API path) or k >= 0 (made when the conductor
goes to sleep after pass k+1: between two passes, or never seen when the run is over by then).  The request is made the way
`maestro cancel` makes it (Conductor.mark_cancelled: touch <study>/.cancel.lock).  The conductor then calls cancel_study --
in a dry run too, with an empty job list: clauses (p2)/(p3) still hold (no scancel / bkill / broker cancel, no process at
all), the run ends CANCELLED (3) when the request was consumed, FINISHED (0) otherwise; the REAL twin with the request
after pass 1 (jobs just submitted) must record scancel / bkill / flux.job.cancel (the monitor is live).

Stripped environment: every generated (non-cancel) case is also run through the command line, dry and real, with an
environment that holds NOTHING but PATH=<fakes>:/usr/bin:/bin, LANG=LC_ALL=C, a fresh TMPDIR, the PYTHON* / harness
variables and -- per case -- HOME unset or pointing to a directory that does not exist, SHELL unset / /bin/false / /bin/sh;
no LOGNAME / USER / LNAME / USERNAME; and (most cases) a uid without a passwd entry: a real os.setuid in the child when the
harness runs as root and the interpreter stays importable for that uid, else pwd.getpwuid made to raise KeyError for the
process (coverage: `stripped_env:uid_mode`).  The dry run must satisfy every clause below AND leave the same tree, modes and
script bytes as the same dry run under the normal environment (the shebang does not follow $SHELL, ...).  The real twin's
exit code is recorded, not judged.

Clauses.  For each DRY run (VIOLATION otherwise):
  (p1) exit code 0 / status FINISHED, every status.csv row DRYRUN;
  (p2) <run>.cmds.log is empty and <run>.doors.log holds no process entry;
  (p3) no flux call -- except the two reads FluxScriptAdapter.__init__ needs for the script header
       (`#INFO (flux version)`): flux.Flux() and Flux.attr_get("version") reached from
       FluxScriptAdapter.__init__ through FluxInterface.get_flux_version / connect_to_flux.  They are
       COUNTED and reported in the coverage (`flux_dry_run_broker_reads`), not hidden: on the unchanged
       tree a Flux dry run opens a broker handle and reads its version (DESIGN 10.3, C17);
  (p4) directory tree below the output path, the permission bits (stat.S_IMODE) of every directory and
       every generated *.sh, and (without --usetmp) the *.sh files' bytes equal the real run's
       (harness/props/c17_e2e.py tree_clause / mode_map / disk_scripts); every *.sh a dry run leaves is
       executable by its owner.
For each REAL run (a MISMATCH otherwise -- the monitor must be shown to be live, not vacuous):
  exit code 0; slurm / lsf: cmds.log holds a submission AND a status query, doors.log is not empty;
  flux: doors.log holds flux:job.submit; local: doors.log holds the execution of a step script.
Flux interface versions = the ones FluxFactory registers (0.49.0, 0.26.0; the older interface classes are
abstract and unreachable); a version whose status query the fake bindings cannot answer would be run dry only.
"""
import json
import os
import random
import shutil
import sys
from collections import Counter

from harness import common

QUICK_N, THOROUGH_N = 13, 96
FAKE_PROGS = ["sbatch", "squeue", "sacct", "scancel", "scontrol", "sinfo", "srun", "salloc", "sacctmgr", "sprio", "sshare",
              "bsub", "bjobs", "bkill", "bhist", "bqueues", "bhosts", "jsrun", "lsrun", "flux"]
SUBMIT_PROGS, QUERY_PROGS, CANCEL_PROGS = ("sbatch", "bsub"), ("squeue", "sacct", "bjobs"), ("scancel", "bkill")
FLUX_REAL = ("0.26.0", "0.49.0")          # versions whose status query the fake flux module answers


# ----------------------------------------------------------------------------
# recorder (runs inside the processes under observation; keep imports light)
# ----------------------------------------------------------------------------
def _text(cmd):
    try:
        if isinstance(cmd, (list, tuple)):
            return " ".join(os.fsdecode(c) if isinstance(c, (bytes, os.PathLike)) else str(c) for c in cmd)
        return os.fsdecode(cmd) if isinstance(cmd, (bytes, os.PathLike)) else str(cmd)
    except Exception:
        return repr(cmd)


def _recorder(logpath):
    def rec(door, cmd):
        try:
            import traceback
            by = []
            for f in traceback.extract_stack()[:-2]:
                fn = f.filename.replace(os.sep, "/")
                if "/maestrowf/" in fn:
                    by.append("%s:%d %s" % (fn.split("/maestrowf/", 1)[1], f.lineno, f.name))
            line = json.dumps({"door": door, "cmd": _text(cmd)[:400], "by": by[-6:]}) + "\n"
            fd = os.open(logpath, os.O_WRONLY | os.O_APPEND | os.O_CREAT, 0o644)
            try:
                os.write(fd, line.encode("utf-8", "replace"))
            finally:
                os.close(fd)
        except Exception:
            pass
    return rec


def install_doors(logpath):
    """observe (never replace) every door to a new process in this interpreter"""
    import subprocess
    rec = _recorder(logpath)
    o_init = subprocess.Popen.__init__

    def popen_init(self, *a, **k):
        rec("subprocess.Popen", a[0] if a else k.get("args"))
        return o_init(self, *a, **k)
    subprocess.Popen.__init__ = popen_init

    def wrap(mod, name, door, argix=0):
        orig = getattr(mod, name, None)
        if orig is None:
            return

        def w(*a, **k):
            rec(door, a[argix] if len(a) > argix else (list(k.values())[0] if k else ""))
            return orig(*a, **k)
        w.__name__ = name
        setattr(mod, name, w)
    wrap(os, "system", "os.system")
    wrap(os, "execv", "os.execv", 1)
    wrap(os, "execve", "os.execve", 1)
    wrap(os, "posix_spawn", "os.posix_spawn", 1)
    wrap(os, "posix_spawnp", "os.posix_spawnp", 1)
    for name in ("fork", "forkpty"):
        orig = getattr(os, name, None)
        if orig is not None:
            def w(_o=orig, _n=name):
                rec("os." + _n, "")
                return _o()
            setattr(os, name, w)
    try:
        import maestrowf.utils as U
        o_sp = U.start_process

        def start_process(cmd, *a, **k):
            rec("maestrowf.utils.start_process", cmd)
            return o_sp(cmd, *a, **k)
        start_process.__doc__ = o_sp.__doc__
        U.start_process = start_process
    except Exception as e:                       # a mutated tree may not even import: the Popen door still stands
        rec("note:start_process-not-wrapped", repr(e))
    return rec


def install_flux(logpath):
    """the in-memory flux of c07_adapters with every broker-facing call recorded"""
    from harness.props import c07_adapters as F
    rec = _recorder(logpath)
    mods = F.make_fake_flux()
    F.WORLD.reset(pool=[20000000000 + 7919 * i for i in range(4000)])
    clock = {"q": 0, "q0": {}}

    class Flux(F.Flux):
        def __init__(self, *a, **k):
            rec("flux:Flux", "Flux(%s)" % ", ".join([repr(x) for x in a] + ["%s=%r" % kv for kv in k.items()]))
            F.Flux.__init__(self, *a, **k)

        def attr_get(self, name):
            rec("flux:Flux.attr_get", name)
            return F.Flux.attr_get(self, name)

        def __getattr__(self, name):             # rpc / event_send / ... : anything else asked of the handle
            if name.startswith("__"):
                raise AttributeError(name)
            rec("flux:Flux." + name, "attribute access")
            raise AttributeError(name)

    class JobList(F.JobList):
        def __init__(self, *a, **k):
            rec("flux:job.JobList", "ids=%r" % (list(k.get("ids", ())),))
            F.JobList.__init__(self, *a, **k)

        def jobs(self):
            rec("flux:job.JobList.jobs", "")
            clock["q"] += 1                       # like the fake executables: job n runs for (n mod 3) further queries
            for i in self.ids:
                n = int(i)
                if n in clock["q0"]:
                    F.WORLD.state[n] = "CD" if clock["q"] - clock["q0"][n] > n % 3 else "R"
            return F.JobList.jobs(self)

    def submit(handle, jobspec, *a, **k):
        rec("flux:job.submit", getattr(jobspec, "command", ""))
        j = mods["flux.job"]._submit(handle, jobspec, *a, **k)
        clock["q0"][int(j)] = clock["q"]
        return j

    def cancel(handle, jobid, *a, **k):
        rec("flux:job.cancel", str(jobid))
        return F._flux_cancel(handle, jobid, *a, **k)

    def cancel_async(handle, jobid, *a, **k):
        rec("flux:job.cancel_async", str(jobid))
        return F._flux_cancel_async(handle, jobid, *a, **k)

    job, jl, fx = mods["flux.job"], mods["flux.job.list"], mods["flux"]
    job._submit = job.submit
    fx.Flux = Flux
    job.submit, job.cancel, job.cancel_async = submit, cancel, cancel_async
    job.JobList = jl.JobList = JobList
    sys.modules.update(mods)


def install_from_env():
    """sitecustomize entry point of the command-line children"""
    log = os.environ.get("C17P_DOORLOG")
    if not log:
        return
    try:
        if os.environ.get("C17P_FLUX"):
            install_flux(log)
        install_doors(log)
    except Exception as e:
        _recorder(log)("note:install-problem", repr(e))


SITECUSTOMIZE = """# injected by harness/props/c17_procs.py (first on PYTHONPATH of the runs under observation)
import os
if os.environ.get("C17P_DOORLOG"):
    try:
        from harness.props import c17_procs as _c17p
        _c17p.install_from_env()
    except Exception as _e:
        try:
            with open(os.environ["C17P_DOORLOG"], "a") as _f:
                _f.write('{"door": "note:install-problem", "cmd": %s, "by": []}\\n' % repr(repr(_e)).replace("'", '"'))
        except Exception:
            pass
"""

FAKE_PROG = r"""#!/bin/sh
# fake scheduler executable (harness/props/c17_procs.py): log the invocation, answer like an idle scheduler.
# Job n, submitted when q0 status queries had been made, is reported running until more than (n mod 3) further
# queries were made: siblings finish at DIFFERENT polls, so a real run stages their children in other passes
# than the dry run does (script contents must not depend on which steps share a pass).
prog=`basename "$0"`
echo "$prog $*" >> "$C17P_CMDLOG"
st="$C17P_STATE"
q=`cat "$st/q" 2>/dev/null || echo 0`
issue() {
  n=`cat "$st/next" 2>/dev/null || echo 4100`
  n=$((n+1))
  echo $n > "$st/next"
  echo "$n $q" >> "$st/jobs"
}
tick() { q=$((q+1)); echo $q > "$st/q"; }
isdone() { [ $((q - $2)) -gt $(($1 % 3)) ]; }
case "$prog" in
  sbatch) issue; echo "Submitted batch job $n";;
  bsub) cat > /dev/null; issue; echo "Job <$n> is submitted to queue <q>.";;
  squeue) tick; echo "             JOBID     NAME     USER ST"
          [ -f "$st/jobs" ] && while read j q0; do
            if isdone $j $q0; then c=CD; else c=R; fi; printf "%18s %8s %8s %2s\n" $j n u $c; done < "$st/jobs";;
  sacct) echo "JobID JobName State ExitCode"; echo "----- ------- ----- --------"
         [ -f "$st/jobs" ] && while read j q0; do
           if isdone $j $q0; then c=COMPLETED; else c=RUNNING; fi; echo "$j n $c 0:0"; done < "$st/jobs";;
  bjobs) tick; echo "JOBID  |STAT |EXIT_CODE |EXIT_REASON"
         [ -f "$st/jobs" ] && while read j q0; do
           if isdone $j $q0; then c=DONE; else c=RUN; fi; printf "%-7s|%-5s|%-10s|%-50s\n" $j $c - -; done < "$st/jobs";;
  *) ;;
esac
exit 0
"""


# ----------------------------------------------------------------------------
# cases
# ----------------------------------------------------------------------------
def flux_versions():
    """the interface versions FluxFactory registers (interfaces that are still abstract are not reachable), newest first"""
    try:
        from maestrowf.interfaces.script import FluxFactory
        return sorted((str(k) for k in FluxFactory.factories), key=lambda v: [int(x) if x.isdigit() else 0 for x in v.split(".")],
                      reverse=True)
    except Exception:
        return []


BATCH_KEYS = {
    "slurm": [("nodes", 2), ("reservation", "dat_2026"), ("qos", "expedite"), ("procs", 4), ("shell", "/bin/bash"),
              ("gpus", 1), ("flux_uri", "local:///tmp/flux-unused/local-0"), ("args", {"exclusive": ""})],
    "lsf": [("nodes", 2), ("reservation", "res_42"), ("qos", "normal"), ("procs", 4), ("shell", "/bin/bash"), ("gpus", 1)],
    "flux": [("nodes", 2), ("uri", "local:///tmp/flux-c17/local-0"), ("flux_uri", "local:///tmp/flux-c17/local-0"),
             ("reservation", "res_7"), ("qos", "high"), ("procs", 4), ("shell", "/bin/bash"), ("gpus", 1), ("args", {})],
    "local": [("shell", "/bin/bash"), ("host", "h"), ("bank", "b"), ("queue", "q"), ("reservation", "unused"), ("nodes", 1)],
}


def gen_case(rng, i, adapters):
    from harness.props import c17_e2e
    kind, ver, full = adapters[i % len(adapters)] if i < len(adapters) else rng.choice(adapters)[:2] + (False,)
    case = c17_e2e.gen_dry_study(rng, i)
    batch = {"type": kind}
    if kind != "local":
        batch.update({"host": "quartz", "bank": "science", "queue": "pbatch"})
    if kind == "flux" and ver:
        batch["version"] = ver
    for k, v in BATCH_KEYS[kind]:
        if full or rng.random() < 0.6:
            batch[k] = v
    if kind == "slurm" and not full and rng.random() < 0.5:
        # (a name with a quote or a blank breaks the REAL run's unquoted `sbatch --reservation <name>` line: not C17's business)
        batch["reservation"] = rng.choice(["dat_2026", "dat-2026.b", "R1", ""])
    if kind != "local" and case["steps"] and not any(st["scheduled"] for st in case["steps"]):
        case["steps"][0]["scheduled"] = True          # every scheduler case drives the adapter's header / launcher / submit code
    for st in case["steps"]:
        if st["scheduled"]:
            res = {"procs": rng.choice([1, 2, 4])}
            if rng.random() < 0.5:
                res["nodes"] = rng.choice([1, 2])
            if rng.random() < 0.6:
                res["walltime"] = rng.choice(["00:10:00", "30", 5])
            if kind in ("slurm", "flux") and rng.random() < 0.3:
                res["gpus"] = 1
            if kind == "slurm" and rng.random() < 0.3:
                res["exclusive"] = True
            st["res"] = res
            st["launcher"] = rng.random() < 0.5
    case.update({"kind": "procs", "adapter": kind, "batch": batch, "env_flux_uri": kind == "flux" and "uri" not in batch and rng.random() < 0.5,
                 "real": kind != "flux" or batch.get("version", FLUX_REAL[-1]) in FLUX_REAL})
    for k in ("conf", "detached"):
        case.pop(k, None)
    return case


def gen_split_case(rng, kind, ver=None):
    """Two scheduled roots whose jobs finish at DIFFERENT polls under the fake scheduler (job ids n, n+1), each with one
    child; the children carry different resource keys.  A dry run stages both children in ONE pass (one adapter
    instance), the real run in two: the generated scripts must not depend on which steps share a pass."""
    rich = {"procs": 4, "nodes": 2, "walltime": "00:20:00"}
    if kind in ("slurm", "flux"):
        rich["gpus"] = 1
    if kind == "slurm":
        rich["exclusive"] = True
    first_rich = rng.random() < 0.7

    def step(name, deps, res, launcher=False):
        return {"name": name, "deps": deps, "use": [], "scheduled": True, "restart": rng.random() < 0.3, "res": res,
                "launcher": launcher}
    steps = [step("alpha", [], {"procs": 1}), step("beta", [], {"procs": 2, "walltime": "5"}),
             step("gen", ["alpha"], dict(rich) if first_rich else {"procs": 1}, launcher=rng.random() < 0.5),
             step("post-1", ["beta"], {"procs": 1} if first_rich else dict(rich))]
    batch = {"type": kind, "host": "quartz", "bank": "science", "queue": "pbatch"}
    if kind == "flux" and ver:
        batch["version"] = ver
    for k, v in BATCH_KEYS[kind]:
        if k not in ("procs", "gpus", "nodes") and rng.random() < 0.5:
            batch[k] = v
    params = []
    if rng.random() < 0.5:
        params = [{"key": "P", "values": rng.sample([1, 2, "lo"], 2)}]
        steps[2]["use"] = steps[3]["use"] = ["P"]
    return {"kind": "procs", "shape": "split", "adapter": kind, "batch": batch, "steps": steps, "params": params,
            "attempts": rng.choice([1, 2]), "throttle": 0, "rlimit": rng.choice([0, 1]), "hashws": rng.random() < 0.3,
            "usetmp": False, "env_flux_uri": False, "real": True}


def spec_text(case, d):
    import yaml
    ran = os.path.join(d, "ran.log")
    study = []
    for st in case["steps"]:
        uses = "".join(" %s=$(%s)" % (k, k) for k in st["use"])
        pre = "$(LAUNCHER) " if st.get("launcher") else ""
        run = {"cmd": "%secho \"RAN %s%s `pwd`\" >> %s\necho out-%s > $(WORKSPACE)/result.txt\n" % (pre, st["name"], uses, ran, st["name"])}
        run.update(st.get("res") or {})
        if st["deps"]:
            run["depends"] = list(st["deps"])
        if st["restart"]:
            run["restart"] = "%secho \"RESTART %s%s\" >> %s\n" % (pre, st["name"], uses, ran)
        study.append({"name": st["name"], "description": "step %s" % st["name"], "run": run})
    spec = {"description": {"name": "e2e", "description": "generated study for the dry-run process check"},
            "batch": dict(case["batch"]), "study": study}
    if case["params"]:
        spec["global.parameters"] = {p["key"]: {"values": list(p["values"]), "label": "%s.%%%%" % p["key"]}
                                     for p in case["params"]}
    return yaml.safe_dump(spec, default_flow_style=False, sort_keys=False)


# ----------------------------------------------------------------------------
# running
# ----------------------------------------------------------------------------
RUNS = ("dry-cli", "real-cli", "dry-api", "real-api")
ENV_RUNS = ("dry-cli-env", "real-cli-env")     # the command-line runs once more, under the case's stripped environment
USER_VARS = ("LOGNAME", "USER", "LNAME", "USERNAME")
_SETUID_OK = {}


def real_setuid_possible(uid):
    """can a child really drop to `uid` (no passwd entry) and still import the standard library?  Needs root, and an
    interpreter that is not installed below a directory only root may enter (here: /root/.pyenv, mode 0700)."""
    if uid in _SETUID_OK:
        return _SETUID_OK[uid]
    ok = False
    try:
        import pwd
        import subprocess
        if os.geteuid() == 0:
            try:
                pwd.getpwuid(uid)
            except KeyError:
                from harness import e2e
                p = subprocess.run([e2e.PY, "-c", "import os; os.setgid(%d); os.setgroups([]); os.setuid(%d); "
                                    "import logging, json, getpass, tempfile, filelock, yaml; print('ok')" % (uid, uid)],
                                   env={"PATH": "/usr/bin:/bin", "PYTHONDONTWRITEBYTECODE": "1"}, stdout=subprocess.PIPE,
                                   stderr=subprocess.DEVNULL, text=True, timeout=60)
                ok = p.returncode == 0 and "ok" in (p.stdout or "")
    except Exception:
        ok = False
    _SETUID_OK[uid] = ok
    return ok


def stripped_env(case, d, which, env):
    """the COMPLETE environment of a stripped run: nothing inherited but what is listed here"""
    v = case["envv"]
    tmp = os.path.join(d, "tmp-" + which)
    os.makedirs(tmp, exist_ok=True)
    full = {"PATH": os.path.join(d, "bin") + ":/usr/bin:/bin", "LANG": "C", "LC_ALL": "C", "TMPDIR": tmp,
            "PYTHONDONTWRITEBYTECODE": "1", "PYTHONHASHSEED": os.environ.get("PYTHONHASHSEED", "0")}
    full.update({k: x for k, x in env.items() if k.startswith(("C17P_", "E2E_", "PYTHONPATH", "FLUX_URI"))})
    if v.get("home") == "missing":
        full["HOME"] = os.path.join(d, "no-such-home")
    if v.get("shell"):
        full["SHELL"] = v["shell"]
    if v.get("nouid"):
        uid = 61000 + (sum(ord(c) for c in os.path.basename(d)) % 900)
        if real_setuid_possible(uid):
            full["C17P_SETUID"] = str(uid)
            import subprocess
            subprocess.run(["chown", "-R", "%d:%d" % (uid, uid), d], check=False)
        else:
            full["C17P_NOPASSWD"] = "1"        # the uid's passwd lookup fails, as it does for a uid without an entry
    return full


def make_fakes(d):
    bind, site, state = os.path.join(d, "bin"), os.path.join(d, "site"), os.path.join(d, "state")
    for x in (bind, site, state):
        os.makedirs(x, exist_ok=True)
    for p in FAKE_PROGS:
        fp = os.path.join(bind, p)
        with open(fp, "w") as f:
            f.write(FAKE_PROG)
        os.chmod(fp, 0o755)
    with open(os.path.join(site, "sitecustomize.py"), "w") as f:
        f.write(SITECUSTOMIZE)
    return bind, site, state


def run_quad(job):
    from harness import e2e
    case, d = job
    shutil.rmtree(d, ignore_errors=True)
    os.makedirs(d)
    with open(os.path.join(d, "spec.yaml"), "w") as f:
        f.write(spec_text(case, d))
    with open(os.path.join(d, "case.json"), "w") as f:
        json.dump(case, f)
    bind, site, _ = make_fakes(d)
    res = {}
    for which in RUNS + (ENV_RUNS if case.get("envv") else ()):
        if which.startswith("real") and not case.get("real", True):
            continue
        dry, api = which.startswith("dry"), which.endswith("api")
        out = os.path.join(d, which)
        state = os.path.join(d, "state", which)
        os.makedirs(state, exist_ok=True)
        env = {"PATH": bind + os.pathsep + os.environ.get("PATH", "/usr/bin:/bin"),
               "C17P_CMDLOG": os.path.join(d, which + ".cmds.log"), "C17P_STATE": state,
               "C17P_DOORLOG": os.path.join(d, which + ".doors.log"), "C17P_FLUX": "1" if case["adapter"] == "flux" else "",
               "E2E_MARK_LOG": os.path.join(d, which + ".marks.log"),
               # run_study drives the sleeptime of a dry run down to 1, whatever -s says
               "E2E_POLL_SLEEP": "1" if dry or api else str(e2e.POLL_SLEEP),
               "E2E_STUDY_DIR": out, "E2E_SNAP_DIR": os.path.join(d, which + ".snap"), "E2E_MAX_POLLS": "60"}
        if case.get("env_flux_uri"):
            env["FLUX_URI"] = "local:///tmp/flux-env/local-0"
        cat = case.get("cancel_at")
        if cat is not None:
            env["C17P_CANCEL_AT"], env["C17P_CANCEL_DIR"] = str(cat), out
        import subprocess
        if api:
            try:
                p = subprocess.run([e2e.PY, "-m", "harness.props.c17_procs", "api", d, which], cwd=common.VERIF,
                                   env=e2e.base_env(env), text=True, errors="replace", stdout=subprocess.PIPE,
                                   stderr=subprocess.STDOUT, timeout=150)
                rc, tail = p.returncode, (p.stdout or "")[-1500:]
            except subprocess.TimeoutExpired:
                rc, tail = 124, "timeout"
            try:
                r = json.load(open(os.path.join(d, which + ".result.json")))
                if "exc" in r:
                    rc, tail = (rc or 1), r["exc"] + " | " + tail
                elif r.get("status") == "CANCELLED":
                    rc = rc or 3
                elif r.get("status") != "FINISHED":
                    rc, tail = (rc or 2), "study status %s | %s" % (r.get("status"), tail)
            except Exception:
                rc, tail = (rc or 1), "no result file | " + tail
        else:
            env["PYTHONPATH"] = os.pathsep.join([site, common.REPO, common.VERIF])
            argv = ["run"] + (["--dry"] if dry else []) + ["-fg", "-y", "-s", e2e.POLL_SLEEP, "--attempts", case["attempts"],
                                                          "--rlimit", case["rlimit"], "--throttle", case["throttle"], "-o", out]
            argv += (["--hashws"] if case["hashws"] else []) + (["--usetmp"] if case["usetmp"] else []) + ["spec.yaml"]
            full = stripped_env(case, d, which, env) if which in ENV_RUNS else e2e.base_env(env)
            try:
                p = subprocess.run([e2e.PY, "-m", "harness.props.c17_procs", "cli"] + [str(a) for a in argv], cwd=d,
                                   env=full, input="", text=True, errors="replace", stdout=subprocess.PIPE,
                                   stderr=subprocess.STDOUT, timeout=150)
                rc, tail = p.returncode, (p.stdout or "")[-3000:]
            except subprocess.TimeoutExpired:
                rc, tail = 124, "timeout"
        try:
            os.rename(os.path.join(d, "ran.log"), os.path.join(d, which + ".ran.log"))      # what THIS run executed
        except OSError:
            pass
        res[which] = {"rc": rc, "tail": tail[-1200:]}
    return res


def install_cancel():
    """C17P_CANCEL_AT = k >= 0: when the conductor goes to sleep after its pass number k+1 (the k-th POLL sleep), the
    cancel request is made the way `maestro cancel` makes it (Conductor.mark_cancelled: touch <study>/.cancel.lock), so the
    NEXT loop iteration finds it.  Must run after harness.e2e_launcher was imported and before maestrowf.conductor is."""
    at, out = os.environ.get("C17P_CANCEL_AT"), os.environ.get("C17P_CANCEL_DIR")
    if at in (None, "") or int(at) < 0 or not out:
        return
    import time
    inner, poll, st = time.sleep, os.environ.get("E2E_POLL_SLEEP"), {"k": 0}

    def sleep(secs=0, *a, **k):
        if poll is not None and str(secs) == poll:
            if st["k"] == int(at):
                try:
                    from maestrowf.conductor import Conductor
                    Conductor.mark_cancelled(out)
                except Exception:
                    with open(os.path.join(out, ".cancel.lock"), "a"):
                        pass
                with open(os.environ.get("E2E_MARK_LOG") or os.devnull, "a") as f:
                    f.write("CANCELREQ %d\n" % st["k"])
            st["k"] += 1
        return inner(secs, *a, **k)
    time.sleep = sleep


def sub_cli(argv):
    """sub-process: the real command line `maestro <argv>` (maestrowf.maestro.main), time.sleep stubbed by
    harness/e2e_launcher.py; the recorder was injected by the sitecustomize module first on PYTHONPATH"""
    import harness.e2e_launcher as L              # noqa: F401
    install_cancel()
    if os.environ.get("C17P_SETUID"):
        # really become a uid without a passwd entry (the harness, running as root, chown-ed the scratch directory)
        u = int(os.environ["C17P_SETUID"])
        os.setgid(u)
        os.setgroups([])
        os.setuid(u)
    elif os.environ.get("C17P_NOPASSWD"):
        # the interpreter lives where only root may go, so the uid cannot really be dropped: the passwd lookup of the
        # process's uid fails instead, the way it does for a uid without an entry
        import pwd

        def _unknown(uid):
            raise KeyError("getpwuid(): uid not found: %s" % (uid,))
        pwd.getpwuid = _unknown
    import maestrowf.maestro as m
    if os.environ.get("C17P_CANCEL_AT", "").startswith("-"):
        # a cancel request that is there BEFORE the first pass (`maestro run` wipes an existing output directory, so the
        # request cannot precede it): made the way `maestro cancel` makes it, right after run_study has stored the study
        # and its batch block -- the moment from which `maestro cancel <dir>` finds the directory
        from maestrowf.conductor import Conductor
        o_store = Conductor.store_batch

        def store_batch(out_path, batch):
            r = o_store(out_path, batch)
            Conductor.mark_cancelled(out_path)
            return r
        Conductor.store_batch = staticmethod(store_batch)
    sys.argv = ["maestro"] + list(argv)
    m.main()
    sys.exit(0)


def sub_api(d, which):
    """sub-process: what maestro.run_study does, through the Python API, with the recorder installed by hand"""
    import harness.e2e_launcher as L              # stubs time.sleep before maestrowf is imported  # noqa: F841
    log = os.environ["C17P_DOORLOG"]
    if os.environ.get("C17P_FLUX"):
        install_flux(log)
    install_doors(log)
    install_cancel()
    import logging
    logging.disable(logging.CRITICAL)
    case = json.load(open(os.path.join(d, "case.json")))
    res = {}
    try:
        from maestrowf.specification import YAMLSpecification
        from maestrowf.datastructures.core import Study
        from maestrowf.datastructures.environment import Variable
        from maestrowf.conductor import Conductor
        out = os.path.join(d, which)
        spec = YAMLSpecification.load_specification(os.path.join(d, "spec.yaml"))
        env = spec.get_study_environment()
        env.remove("OUTPUT_PATH")
        env.add(Variable("OUTPUT_PATH", out))
        env.add(Variable("SPECROOT", d))
        study = Study(spec.name, spec.description, studyenv=env, parameters=spec.get_parameters(),
                      steps=spec.get_study_steps(), out_path=out)
        study.setup_workspace()
        study.configure_study(throttle=case["throttle"], submission_attempts=case["attempts"], restart_limit=case["rlimit"],
                              use_tmp=case["usetmp"], hash_ws=case["hashws"], dry_run=which.startswith("dry"))
        study.setup_environment()
        batch = dict(spec.batch)
        Conductor.store_study(study)
        Conductor.store_batch(out, batch)
        if case.get("cancel_at") is not None and case["cancel_at"] < 0:
            Conductor.mark_cancelled(out)          # the cancel request is there before the first pass
        conductor = Conductor(study)
        conductor.initialize(batch, 1)
        status = conductor.monitor_study()
        conductor.cleanup()
        res["status"] = status.name
    except BaseException as e:
        res["exc"] = "%s: %s" % (type(e).__name__, str(e)[:300])
    json.dump(res, open(os.path.join(d, which + ".result.json"), "w"))


# ----------------------------------------------------------------------------
# judging
# ----------------------------------------------------------------------------
def read_lines(path):
    try:
        return [ln for ln in open(path, errors="replace").read().split("\n") if ln]
    except OSError:
        return []


def read_doors(path):
    out = []
    for ln in read_lines(path):
        try:
            out.append(json.loads(ln))
        except ValueError:
            out.append({"door": "note:unreadable", "cmd": ln[:200], "by": []})
    return out


def first_diff(a, b):
    if a is None or b is None:
        return "dry run %s, real run %s" % ("<absent>" if a is None else "present", "<absent>" if b is None else "present")
    la, lb = a.split("\n"), b.split("\n")
    for i in range(max(len(la), len(lb))):
        x, y = (la[i] if i < len(la) else "<end of file>"), (lb[i] if i < len(lb) else "<end of file>")
        if x != y:
            return "line %d: dry run %r, real run %r" % (i + 1, x[:160], y[:160])
    return "identical?"


def flux_read_allowed(e):
    """the two broker reads the Flux script header needs, made from FluxScriptAdapter.__init__"""
    by = " < ".join(e.get("by", []))
    from_ctor = "fluxscriptadapter.py" in by and "__init__" in by and ("get_flux_version" in by or "connect_to_flux" in by)
    if e["door"] == "flux:Flux":
        return from_ctor and e.get("cmd") == "Flux()"
    return e["door"] == "flux:Flux.attr_get" and e.get("cmd") == "version" and from_ctor


def describe(which, case):
    how = ("`maestro run --dry -fg -y`" if which.startswith("dry-cli") else "`maestro run -fg -y`" if which.startswith("real-cli") else
           "Study.configure_study(dry_run=%s) + Conductor.monitor_study()" % which.startswith("dry"))
    if which in ENV_RUNS:
        v = case.get("envv") or {}
        how += (" under a stripped environment [no LOGNAME/USER/LNAME/USERNAME, HOME %s, SHELL %s, LANG=LC_ALL=C, fresh TMPDIR, "
                "PATH=<fakes>:/usr/bin:/bin%s]" % ("-> a directory that does not exist" if v.get("home") else "unset",
                                                   v.get("shell") or "unset",
                                                   ", uid without a passwd entry" if v.get("nouid") else ""))
    cat = case.get("cancel_at")
    canc = "" if cat is None else (", cancel request (.cancel.lock, as `maestro cancel` writes it) %s"
                                   % ("present before the first pass" if cat < 0 else "made after pass %d" % (cat + 1)))
    return "%s%s%s%s, batch %s" % (how, " --hashws" if case["hashws"] else "", " --usetmp" if case["usetmp"] else "", canc,
                                   json.dumps(case["batch"], sort_keys=True))


def judge(case, d, res):
    """-> (violations, problems, info)"""
    from harness import e2e
    from harness.props import c17_e2e
    viol, prob = [], []
    info = {"flux_reads": Counter(), "real_cmds": 0, "real_doors": 0, "witness": None, "instances": 0}
    for which in RUNS + ENV_RUNS:
        if which not in res:
            continue
        r = res[which]
        if which == "real-cli-env":
            # what a REAL run does without a user name / home / shell is not C17's business: recorded, not judged
            info["real_env_rc"] = r["rc"]
            continue
        doors = read_doors(os.path.join(d, which + ".doors.log"))
        cmds = read_lines(os.path.join(d, which + ".cmds.log"))
        notes = [e for e in doors if e["door"].startswith("note:")]
        procs = [e for e in doors if not e["door"].startswith(("note:", "flux:"))]
        fl = [e for e in doors if e["door"].startswith("flux:")]
        for e in notes:
            prob.append("%s: recorder problem %s %s" % (which, e["door"], e.get("cmd")))
        out = os.path.join(d, which)
        if which.startswith("dry"):
            if procs or cmds:
                e = procs[0] if procs else None
                viol.append("the dry run (%s) spawned %d process(es) [in-process recorder] / %d scheduler command(s) [fake executables on "
                            "PATH]: %s" % (describe(which, case), len(procs), len(cmds),
                                           ("%r through %s, called from %s" % (e["cmd"], e["door"], " < ".join(e["by"][-3:]) or "?")) if e
                                           else repr(cmds[0])))
            bad = [e for e in fl if not flux_read_allowed(e)]
            if bad:
                viol.append("the dry run (%s) called the Flux broker: %s %r from %s (%d call(s) beyond the version read of the "
                            "adapter constructor)" % (describe(which, case), bad[0]["door"][5:], bad[0].get("cmd"),
                                                      " < ".join(bad[0]["by"][-3:]) or "?", len(bad)))
            for e in fl:
                if flux_read_allowed(e):
                    info["flux_reads"][e["door"][5:] + ("(version)" if e["door"].endswith("attr_get") else "()")] += 1
                    info["witness"] = info["witness"] or {"run": describe(which, case), "call": e["door"][5:], "arg": e["cmd"], "by": e["by"]}
            if os.path.exists(os.path.join(d, which + ".ran.log")):
                viol.append("the dry run (%s) executed step commands: %r" % (describe(which, case), read_lines(os.path.join(d, which + ".ran.log"))[:2]))
            if case.get("cancel_at") is not None:
                # a cancelled dry run: FINISHED (0) when the request came too late, else CANCELLED (3); nothing else is compared
                fired = case["cancel_at"] < 0 or any(ln.startswith("CANCELREQ") for ln in read_lines(os.path.join(d, which + ".marks.log")))
                info["cancel_fired"] = info.get("cancel_fired", 0) + int(fired)
                want = (3,) if fired else (0,)
                if r["rc"] not in want:
                    viol.append("the dry run (%s) ended with exit/status %r, expected %r (%s): %s"
                                % (describe(which, case), r["rc"], want[0], "the request was consumed" if fired else
                                   "the run was over before the request", r["tail"][-500:]))
                try:
                    info["instances"] = len(e2e.parse_status(os.path.join(out, "status.csv")))
                except Exception:
                    pass
            elif r["rc"] != 0:
                viol.append("the dry run (%s) did not end successfully: exit/status %r: %s" % (describe(which, case), r["rc"], r["tail"][-500:]))
            else:
                try:
                    rows = e2e.parse_status(os.path.join(out, "status.csv"))
                    info["instances"] = len(rows)
                    notdry = [(x[0], x[1]) for x in rows if x[1] != "DRYRUN"]
                    if notdry or not rows:
                        viol.append("the dry run (%s) ended with status rows that are not DRYRUN: %r" % (describe(which, case), notdry[:5]))
                except Exception as e:
                    viol.append("the dry run (%s) ended successfully but left no readable status.csv: %r" % (describe(which, case), e))
                if which == "dry-cli-env" and res.get("dry-cli", {}).get("rc") == 0:
                    # the environment of the process is no input of script generation: same tree, modes and bytes
                    ref = os.path.join(d, "dry-cli")
                    t = c17_e2e.tree_clause(case, out, ref)
                    if t:
                        viol.append("%s: compared with the same dry run under the normal environment: %s"
                                    % (describe(which, case), t.replace("the real run", "the normal-environment run").replace("real run", "normal-environment run")))
                    if not case["usetmp"]:
                        sd, sr = c17_e2e.disk_scripts(out), c17_e2e.disk_scripts(ref)
                        if sd != sr:
                            k = next(k for k in sorted(set(sd) | set(sr)) if sd.get(k) != sr.get(k))
                            viol.append("%s: script file %s differs from the one the same dry run writes under the normal environment: %s"
                                        % (describe(which, case), k, first_diff(sd.get(k), sr.get(k)).replace("real run", "normal environment")))
                real = which.replace("dry", "real")
                notx = sorted(k for k, m in c17_e2e.mode_map(out).items() if k.endswith(".sh") and (m is None or not m & 0o100))
                if notx and not (real in res and res[real]["rc"] == 0):
                    viol.append("%s: the dry run left %d generated script(s) not executable by their owner, e.g. %s"
                                % (describe(which, case), len(notx), notx[0]))
                if real in res and res[real]["rc"] == 0:
                    t = c17_e2e.tree_clause(case, out, os.path.join(d, real))
                    if t:
                        viol.append("%s: %s" % (describe(which, case), t))
                    if not case["usetmp"]:
                        sd, sr = c17_e2e.disk_scripts(out), c17_e2e.disk_scripts(os.path.join(d, real))
                        if sd != sr:
                            k = next(k for k in sorted(set(sd) | set(sr)) if sd.get(k) != sr.get(k))
                            viol.append("%s: script file %s differs between the dry and the real run: %s"
                                        % (describe(which, case), k, first_diff(sd.get(k), sr.get(k))))
        else:
            progs = [c.split(" ", 1)[0] for c in cmds]
            if case.get("cancel_at") is not None:
                if r["rc"] not in (0, 3):
                    prob.append("the REAL run (%s) ended with rc=%r, neither FINISHED nor CANCELLED: %s" % (describe(which, case), r["rc"], r["tail"][-500:]))
                    continue
                ncan = sum(1 for p in progs if p in CANCEL_PROGS) + sum(1 for e in fl if e["door"] in ("flux:job.cancel", "flux:job.cancel_async"))
                info["real_cancel_cmds"] = info.get("real_cancel_cmds", 0) + ncan
                info["real_cmds"] += len(cmds)
                info["real_doors"] += len(procs) + len(fl)
                # jobs are in flight when the request made after the FIRST pass is found: the roots were just submitted
                if case["cancel_at"] == 0 and case["adapter"] != "local" and case["steps"] and case["steps"][0]["scheduled"] \
                        and not case["steps"][0]["deps"] and not ncan:
                    prob.append("the monitor is not live: the REAL run (%s) recorded no cancel command (PATH: %r; in-process: %r)"
                                % (describe(which, case), progs[:6], [e["door"] for e in (procs + fl)[:6]]))
                continue
            if r["rc"] != 0:
                prob.append("the REAL run (%s) did not finish with exit code 0 (rc=%r): %s" % (describe(which, case), r["rc"], r["tail"][-500:]))
                continue
            nsched = sum(1 for st in case["steps"] if st["scheduled"])
            info["real_cmds"] += len(cmds)
            info["real_doors"] += len(procs) + len(fl)
            live = True
            if case["adapter"] in ("slurm", "lsf") and nsched:
                live = any(p in SUBMIT_PROGS for p in progs) and any(p in QUERY_PROGS for p in progs) and bool(procs)
            elif case["adapter"] == "flux" and nsched:
                live = any(e["door"] == "flux:job.submit" for e in fl) and any(e["door"] == "flux:job.JobList.jobs" for e in fl)
            if not procs and not fl:
                live = False
            if not live:
                prob.append("the monitor is not live: the REAL run (%s) recorded %d command(s) on PATH %r and %d in-process entries %r "
                            "for %d scheduled step(s)" % (describe(which, case), len(cmds), progs[:4], len(procs) + len(fl),
                                                          [e["door"] for e in (procs + fl)[:4]], nsched))
    return viol, prob, info


def slim(case):
    return {k: case.get(k) for k in ("kind", "adapter", "batch", "steps", "params", "attempts", "throttle", "rlimit", "hashws",
                                     "usetmp", "shape", "env_flux_uri", "real", "cancel_at", "envv")}


def run_cases(ck, cases, tag="C17_procs"):
    from harness import e2e
    tag = e2e.utag(tag)
    work = os.path.join(common.WORK, tag + "_runs")
    shutil.rmtree(work, ignore_errors=True)
    jobs = [(c, os.path.join(work, "p%d" % i)) for i, c in enumerate(cases)]
    results = e2e.pmap(run_quad, jobs)
    dist, reads, witness = Counter(), Counter(), None
    for (case, d), res in zip(jobs, results):
        try:
            viol, prob, info = judge(case, d, res)
        except Exception as e:
            viol, prob, info = [], ["harness could not interpret the runs: %r" % (e,)], {"flux_reads": Counter(), "real_cmds": 0,
                                                                                      "real_doors": 0, "witness": None, "instances": 0}
        rec = dict(slim(case), rc={k: v["rc"] for k, v in res.items()})
        if viol:
            ck.violation("C17 processes: " + viol[0], dict(rec, all=viol[:6]))
        elif prob:
            ck.mismatch("C17 processes: " + prob[0], rec, "\n".join(prob[:6]))
        ck.count("c17procs:" + json.dumps(slim(case), sort_keys=True), nontrivial=info["instances"] >= 2)
        name = case["adapter"] + (":" + case["batch"].get("version", "latest") if case["adapter"] == "flux" else "")
        dist["adapter:" + name] += 1
        dist["runs:dry"] += sum(1 for w in res if w.startswith("dry"))
        dist["runs:real"] += sum(1 for w in res if w.startswith("real"))
        dist["hashws=%s,usetmp=%s" % (case["hashws"], case["usetmp"])] += 1
        for k in case["batch"]:
            dist["batch_key:" + k] += 1
        dist["batch:all_keys"] += int(all(k in case["batch"] for k, _ in BATCH_KEYS[case["adapter"]]))
        dist["shape:" + ("split-level" if case.get("shape") == "split" else "corpus" if case.get("origin") else
                         "cancel" if case.get("cancel_at") is not None else "generated")] += 1
        if case.get("envv"):
            v = case["envv"]
            dist["stripped_env:runs"] += sum(1 for w in res if w in ENV_RUNS)
            dist["stripped_env:HOME=%s" % ("missing-dir" if v.get("home") else "unset")] += 1
            dist["stripped_env:SHELL=%s" % (v.get("shell") or "unset")] += 1
            if v.get("nouid"):
                dist["stripped_env:uid_without_passwd_entry"] += 1
            if "real_env_rc" in info:
                dist["stripped_env:real_twin_rc=%s" % info["real_env_rc"]] += 1
        if case.get("cancel_at") is not None:
            dist["cancel_at:%+d" % case["cancel_at"]] += 1
            dist["cancel_request_consumed_by_dry_runs"] += info.get("cancel_fired", 0)
            dist["real_run_cancel_commands"] += info.get("real_cancel_cmds", 0)
        dist["launcher_steps"] += sum(1 for s in case["steps"] if s.get("launcher"))
        dist["scheduled_steps"] += sum(1 for s in case["steps"] if s["scheduled"])
        dist["real_run_scheduler_commands_on_PATH"] += info["real_cmds"]
        dist["real_run_in_process_entries"] += info["real_doors"]
        reads.update(info["flux_reads"])
        witness = witness or info["witness"]
        shutil.rmtree(d, ignore_errors=True)
    shutil.rmtree(work, ignore_errors=True)
    e2e.sweep()
    out = dict(sorted(dist.items()))
    out["dry_run_processes_and_commands"] = 0 if not ck.concrete else "see violations"
    out["stripped_env:uid_mode"] = ("real setuid to a uid without a passwd entry" if any(_SETUID_OK.values()) else
                                    "passwd lookup of the process's uid made to fail (pwd.getpwuid raises KeyError): %s"
                                    % ("not running as root" if os.geteuid() != 0 else
                                       "the interpreter is installed where only root may go, a child that drops its uid cannot import the standard library"))
    # NOT a filter: what the unchanged tree's Flux dry run does ask of the broker (clause p3)
    out["flux_dry_run_broker_reads"] = dict(sorted(reads.items()))
    if witness:
        out["flux_dry_run_broker_reads_witness"] = witness
    return out


def adapters_for(tier):
    vs = flux_versions()
    ad = [("slurm", None, True), ("lsf", None, True), ("local", None, True)]
    ad += [("flux", v, True) for v in vs[:1]] + [("slurm", None, False)] + [("flux", v, False) for v in vs[1:]]
    ad += [("slurm", None, False), ("lsf", None, False), ("flux", None, False), ("local", None, False), ("slurm", None, False)]
    return ad


def gen_cancel_cases(rng, tier):
    """a cancel request at some poll of the run, every back-end: before the first pass (-1), after pass 1 / 2 / 3 (0 / 1 / 2:
    between passes, or -- for a dry run that is over by then -- never seen)"""
    fv = flux_versions()
    out = []
    kinds = [("slurm", None), ("lsf", None), ("local", None)] + [("flux", v) for v in (fv if tier == "thorough" else fv[:1])]
    for rep in range(1 if tier != "thorough" else 5):
        for kind, ver in kinds:
            for at in (-1, 0, 1) if rep == 0 else (rng.choice([-1, 0]), rng.choice([0, 1, 2])):
                if kind != "local" and (at <= 0 or rng.random() < 0.5):
                    c = gen_split_case(rng, kind, ver)            # two scheduled roots: jobs in flight after pass 1
                else:
                    c = gen_case(rng, rng.choice([1, 4]), [(kind, ver, False)])      # chain / layered shapes: several passes
                    c["throttle"] = rng.choice([0, 1])
                c["cancel_at"] = at
                c["shape"] = "cancel"
                out.append(c)
    return out


def corpus_cases(sub, kind=None):
    """corpus/C17/<sub>/*.json: stored witnesses (run first, every time)"""
    import glob
    out = []
    for f in sorted(glob.glob(os.path.join(common.CORPUS, "C17", sub, "*.json"))):
        try:
            c = json.load(open(f))
        except (OSError, ValueError):
            continue
        c = c.get("case", c)
        c.setdefault("shape", "corpus")
        c["origin"] = "corpus:" + os.path.basename(f)
        out.append(c)
    return out


def run_procs(ck):
    rng = random.Random(ck.seed * 6271 + 1717)
    n = QUICK_N if ck.tier != "thorough" else THOROUGH_N
    ad = adapters_for(ck.tier)
    cases = corpus_cases("procs") + [gen_case(rng, i, ad) for i in range(max(n, len(ad)) if ck.tier == "thorough" else n)]
    fv = flux_versions()
    for r in range(1 if ck.tier != "thorough" else 8):
        cases += [gen_split_case(rng, "slurm"), gen_split_case(rng, "lsf")] + [gen_split_case(rng, "flux", v) for v in fv[:1 + r % 2]]
    shells = [None, "/bin/false", "/bin/sh"]
    for i, c in enumerate(cases):
        if "envv" not in c and not c.get("origin"):
            c["envv"] = {"home": [None, "missing"][i % 2], "shell": shells[i % 3], "nouid": i < 6 or rng.random() < 0.6}
    cases += gen_cancel_cases(rng, ck.tier)
    ck.cov["e2e_procs"] = run_cases(ck, cases)
    ck.cov["e2e_procs_rule"] = (
        "seeded studies with the REAL slurm / lsf / flux (fake in-memory bindings, every interface version) / local adapters and rich "
        "batch blocks (first case per adapter: every key), each run dry and real through the command line (recorder injected by a "
        "sitecustomize module) and through the Python API: a dry run records no process at any door (subprocess.Popen, "
        "maestrowf.utils.start_process, os.system / exec* / spawn* / posix_spawn / fork), no command on the fake scheduler executables "
        "first on PATH and no Flux call beyond the constructor's version read; it ends 0 / all DRYRUN with the real run's directory "
        "tree and script files; the real run of the same study must record submissions and status queries (the monitor is live)")


def is_procs_case(d):
    d = d.get("case", d)
    return isinstance(d, dict) and d.get("kind") == "procs"


def replay_procs(ck, d):
    d = dict(d.get("case", d))
    d.setdefault("shape", "replay")
    d.pop("rc", None)
    d.pop("all", None)
    dist = run_cases(ck, [d], tag="C17_procs_replay")
    print(json.dumps(dist))
    for w, c in ck.concrete:
        print("VIOLATION:", w, json.dumps(c.get("all", []))[:1500])
    for w, _, det in ck.corr_failures:
        print("MISMATCH:", w, det[-1500:])
    return 1 if (ck.concrete or ck.corr_failures) else 0


if __name__ == "__main__":
    if len(sys.argv) > 3 and sys.argv[1] == "api":
        sub_api(sys.argv[2], sys.argv[3])
    elif len(sys.argv) > 2 and sys.argv[1] == "cli":
        sub_cli(sys.argv[2:])

"""C16 / C20, Flux status query -- FluxScriptAdapter.check_jobs through the REAL interfaces.

The other streams of harness/props/c16.py only call `state()` of the Flux interfaces; the
job-list query (get_statuses) is never driven because the `flux` module is absent.  Here the
in-memory fake of harness/props/c07_adapters.py stands in for flux-core:

    flux.job.list.JobList(handle, ids=[JobID..]).jobs()  -> JobInfo(.id.f58, .status_abbrev, ...)
        for the ids the scripted broker knows, in the (shuffled) order the broker answers;
    .errors is EMPTY until .jobs() has run and afterwards holds one text per unknown id
        (as flux-core fills it);  .jobs() raises when the broker is dead.

For every interface version FluxFactory registers and generated id lists (1-6 f58 ids, prefixes
of one another, some unknown to the broker, the others in any of the states D P S R C CD F CA TO
or an undocumented abbreviation) the real adapter's check_jobs(joblist) must satisfy

 (i)   the job-list RPC reported an error  =>  the code is not JobStatusCode.OK; the query RAISED
       (JobList.jobs(), the JobList constructor or the handle creation: OSError ENOENT / ECONNREFUSED /
       EPIPE, ConnectionError, TimeoutError, RuntimeError, ValueError, EnvironmentError with other
       errnos)  =>  the code is ERROR, not OK and not NOJOBS; in both cases
       no entry of the returned dict is a State                      (C16 "a failed query never
       yields OK; on a non-OK code no entry is a state", C20: the engine aborts instead of
       applying a partial table)
 (ii)  it reported none  =>  code OK and every queried id (exact key) is mapped to the interface's
       own state() of the abbreviation the broker holds for EXACTLY that id; no other key
 (iii) check_jobs([]) performs no RPC, claims no job, and its code is OK or NOJOBS.

A failure = ck.violation(what, case); replay with `replay_case(case)`;
corpus/C16/flux/*.json is run first.
"""
import glob
import itertools
import json
import os
import random

from harness import common
from harness.props import c07_adapters as F

PID = "C16"
CORPUS_DIR = os.path.join(common.CORPUS, PID, "flux")

QUICK = 260        # generated cases per interface version (plus the small exhaustive scope)
THOROUGH = 2500

ABBREVS = ["D", "P", "S", "R", "C", "CD", "F", "CA", "TO"]
ODD = ["X", "", "PD", "cd", "I"]
import errno as _e

# what a dead / vanished / misbehaving broker raises out of the job-list query
DEAD = {"OSError(ENOENT)": lambda: OSError(_e.ENOENT, "No such file or directory"),
        "FileNotFoundError": lambda: FileNotFoundError(_e.ENOENT, "No such file or directory", "/run/flux/local"),
        "OSError(ECONNREFUSED)": lambda: OSError(_e.ECONNREFUSED, "Connection refused"),
        "OSError(EPIPE)": lambda: OSError(_e.EPIPE, "Broken pipe"),
        "ConnectionError": lambda: ConnectionError("broker connection lost"),
        "ConnectionResetError": lambda: ConnectionResetError(_e.ECONNRESET, "Connection reset by peer"),
        "TimeoutError": lambda: TimeoutError(_e.ETIMEDOUT, "Connection timed out"),
        "RuntimeError": lambda: RuntimeError("flux_rpc: broker is shutting down"),
        "ValueError": lambda: ValueError("malformed job-list response"),
        "EnvironmentError(EHOSTUNREACH)": lambda: EnvironmentError(_e.EHOSTUNREACH, "No route to host"),
        "EnvironmentError(ENOSYS)": lambda: EnvironmentError(_e.ENOSYS, "Function not implemented"),
        "EnvironmentError(EPROTO)": lambda: EnvironmentError(_e.EPROTO, "Protocol error"),
        "EnvironmentError(EACCES)": lambda: EnvironmentError(_e.EACCES, "Permission denied"),
        "EnvironmentError(no errno)": lambda: EnvironmentError("flux: unexpected end of stream"),
        # names used by older corpus files
        "OSError": lambda: OSError(_e.ENOENT, "No such file or directory"),
        "EnvironmentError": lambda: EnvironmentError(_e.ETIMEDOUT, "Connection timed out")}
DEAD_GEN = [k for k in DEAD if k not in ("OSError", "EnvironmentError")]
WHERE = ["jobs", "joblist", "handle"]


def versions():
    return F.flux_versions()


def own_state(ver, abbrev):
    """The interface's own state() of an abbreviation -> State name (or "EXC")."""
    try:
        from maestrowf.interfaces.script import FluxFactory
        v = FluxFactory.factories[ver].state(abbrev)
        return getattr(v, "name", "BAD")
    except Exception:
        return "EXC"


# ----------------------------------------------------------------------------
# run one case
# ----------------------------------------------------------------------------
def run_case(case):
    ver, ids = case["version"], list(case["ids"])
    broker = dict(case.get("broker", {}))            # id text -> abbreviation (known ids)
    order = [int(F.JobID(i)) for i in case.get("order", [])]
    obs = {"exc": None, "code": None, "st": None, "rpcs": 0, "how": None}
    try:
        with F.FakeFluxInstalled():
            F.WORLD.reset()
            adapter, obs["how"] = F.make_adapter("flux:" + ver)
            dead = DEAD[case["dead"]]() if case.get("dead") else None
            F.WORLD.reset(unknown=[int(F.JobID(i)) for i in ids if i not in broker], dead=dead, order=order)
            F.WORLD.dead_where = case.get("where") or "jobs"
            if dead is not None and F.WORLD.dead_where == "handle":
                adapter._interface.flux_handle = None       # the cached handle is gone: the query reconnects
            for i, ab in broker.items():
                F.WORLD.state[int(F.JobID(i))] = ab
            try:
                ret = adapter.check_jobs(list(ids))
                obs.update(canon(ret))
            except Exception as e:
                obs["exc"] = "%s: %s" % (type(e).__name__, str(e)[:160])
            obs["rpcs"] = F.WORLD.lists + len(F.WORLD.cancels) + len(F.WORLD.submits)
    except Exception as e:
        obs["setup_exc"] = "%s: %s" % (type(e).__name__, str(e)[:200])
    return obs


def canon(ret):
    try:
        code, st = ret
    except Exception:
        return {"exc": "BadReturn: %r" % (ret,)}
    cn = getattr(code, "name", None)
    if type(code).__name__ != "JobStatusCode" or cn not in ("OK", "NOJOBS", "ERROR"):
        return {"exc": "BadCode: %r" % (code,)}
    if not isinstance(st, dict):
        return {"exc": "BadDict: %r" % (st,)}
    items = []
    for k, v in st.items():
        if v is None:
            items.append([k if isinstance(k, str) else repr(k), None])
        elif type(v).__name__ == "State":
            items.append([k if isinstance(k, str) else repr(k), v.name])
        else:
            items.append([k if isinstance(k, str) else repr(k), "BAD:%r" % (v,)])
    return {"code": cn, "st": sorted(items, key=lambda e: e[0])}


def judge(case, obs):
    """-> None or the failing sentence."""
    ver, ids = case["version"], list(case["ids"])
    broker = dict(case.get("broker", {}))
    if obs.get("setup_exc"):
        return None
    if obs["exc"]:
        return "check_jobs " + ("returned something that is not (JobStatusCode, dict): " if obs["exc"].startswith("Bad")
                                else "raised ") + obs["exc"]
    claimed = [k for k, v in obs["st"] if v is not None]
    if not ids:
        if obs["rpcs"]:
            return "check_jobs([]) performed a job-list RPC"
        if claimed:
            return "check_jobs([]) claims a state for %s" % claimed[0]
        if obs["code"] not in ("OK", "NOJOBS"):
            return "check_jobs([]) returned %s" % obs["code"]
        return None
    unknown = [i for i in ids if i not in broker]
    if case.get("dead") or unknown:
        why = ("the job-list query raised %s (in %s)" % (case["dead"], {"jobs": "JobList.jobs()", "joblist": "JobList(...)",
                                                                         "handle": "flux.Flux()"}[case.get("where") or "jobs"])) \
            if case.get("dead") else \
            "the job-list RPC reported an error for %d of the %d ids (first: %s)" % (len(unknown), len(ids), unknown[0])
        if obs["code"] == "OK" or (case.get("dead") and obs["code"] != "ERROR"):
            # a query that raised is a FAILED query: ERROR, never OK and never "no jobs"
            return "%s but check_jobs returned %s (table of %d entries)" % (why, obs["code"], len(obs["st"]))
        if claimed:
            return "%s, the code is %s, yet the table claims a state for %s" % (why, obs["code"], claimed[0])
        return None
    if obs["code"] != "OK":
        return "the job-list RPC succeeded for every id but check_jobs returned %s" % obs["code"]
    got = dict((k, v) for k, v in obs["st"])
    for i in ids:
        want = own_state(ver, broker[i])
        if i not in got:
            return "no entry for the queried id %s (the broker reports %r)" % (i, broker[i])
        if got[i] != want:
            others = [j for j in ids if j != i and own_state(ver, broker[j]) == got[i]]
            return "id %s is reported as %s, the broker holds %r for it (= %s)%s" % (
                i, got[i], broker[i], want, "; that is the state of %s" % others[0] if others else "")
    extra = [k for k in got if k not in ids]
    if extra:
        return "the table has an entry for %s, which was not queried" % extra[0]
    return None


def replay_case(case):
    """case["log"]: logging configuration (default | debug = `maestro -d 1`), see c07_adapters.LogLevel"""
    with F.LogLevel(case.get("log", "default")):
        obs = run_case(case)
    obs["log"] = case.get("log", "default")
    return obs, judge(case, obs)


def is_flux_case(d):
    d = d.get("case", d)
    return isinstance(d, dict) and d.get("kind") == "fluxq"


def replay_flux(ck, d):
    case = d.get("case", d)
    case = {k: v for k, v in case.items() if k not in ("observed", "origin")}
    obs, verdict = replay_case(case)
    print(json.dumps({"case": case, "observed": obs, "verdict": verdict or "holds"}, indent=1, default=str))
    return 1 if verdict else 0


# ----------------------------------------------------------------------------
# generators
# ----------------------------------------------------------------------------
def mk(ver, ids, abbrevs, order=None, dead=None, where=None):
    """abbrevs[k] is None for an id the broker does not know."""
    broker = {i: a for i, a in zip(ids, abbrevs) if a is not None}
    known = [i for i in ids if i in broker]
    return {"kind": "fluxq", "version": ver, "ids": list(ids), "broker": broker,
            "order": list(order) if order is not None else known, "dead": dead,
            "where": (where or "jobs") if dead else None}


def small_scope(ver):
    """Every abbreviation alone; two prefix-related ids x every pair of (abbreviation | unknown) from a
    reduced alphabet x both answer orders; the empty list; a dead broker."""
    out = [mk(ver, [], [])]
    for a in ABBREVS + ODD + [None]:
        out.append(mk(ver, ["ƒ2a"], [a]))
    red = ["R", "CD", "F", "TO", "S", None]
    for ids in (["ƒ2a", "ƒ2aB"], ["ƒ2aB", "ƒ2a"]):
        for a, b in itertools.product(red, red):
            c = mk(ver, ids, [a, b])
            out.append(c)
            if a is not None and b is not None and a != b:
                out.append(mk(ver, ids, [a, b], order=list(reversed(ids))))
    for d in DEAD_GEN:
        for w in WHERE:
            out.append(mk(ver, ["ƒ2a", "ƒ2"], ["R", "CD"], dead=d, where=w))
            out.append(mk(ver, ["ƒ2a"], [None], dead=d, where=w))
    return out


def gen_cases(rng, ver, n):
    out = []
    while len(out) < n:
        k = rng.choice([1, 2, 2, 3, 3, 4, 5, 6])
        ids = F.gen_f58_ids(rng, k)
        if not ids:
            continue
        scen = rng.choice(["clean", "clean", "clean", "unknown", "unknown", "dead"])
        ab = [rng.choice(ABBREVS) if rng.random() < 0.93 else rng.choice(ODD) for _ in ids]
        if scen == "unknown":
            r = rng.random()
            if r < 0.25:
                ab[0] = None
            elif r < 0.45:
                ab[-1] = None
            elif r < 0.55:
                ab = [None] * len(ids)
            else:
                for j in range(len(ids)):
                    if rng.random() < 0.35:
                        ab[j] = None
                if all(a is not None for a in ab):
                    ab[rng.randrange(len(ids))] = None
        known = [i for i, a in zip(ids, ab) if a is not None]
        order = list(known)
        rng.shuffle(order)
        out.append(mk(ver, ids, ab, order=order, dead=rng.choice(DEAD_GEN) if scen == "dead" else None,
                      where=rng.choice(WHERE)))
    return out


# ----------------------------------------------------------------------------
# entry point
# ----------------------------------------------------------------------------
def run_flux(ck):
    rng = random.Random(ck.seed * 104729 + 16)
    vers = versions()
    hist, how = {}, {}

    def bump(k):
        hist[k] = hist.get(k, 0) + 1

    turn = [ck.seed]

    def account(case, origin):
        if "log" not in case:        # the logging configuration alternates over the generated cases
            turn[0] += 1
            case["log"] = F.LOG_LEVELS[turn[0] % 2]
        bump("log=%s" % case["log"])
        obs, verdict = replay_case(case)
        ids, broker = case["ids"], case.get("broker", {})
        nunk = len([i for i in ids if i not in broker])
        scen = "empty list" if not ids else ("dead broker, raised in %s" % (case.get("where") or "jobs")) \
            if case.get("dead") else \
            ("all ids unknown" if nunk == len(ids) else "some id unknown") if nunk else \
            ("clean, answer reordered" if case.get("order") != [i for i in ids if i in broker] else "clean")
        bump("%s %s" % (case["version"], scen))
        for a in broker.values():
            hist["abbrev " + (a if a in ABBREVS else "other")] = hist.get("abbrev " + (a if a in ABBREVS else "other"), 0) + 1
        if obs.get("how"):
            how[case["version"]] = obs["how"]
        key = ("fluxq", case["version"], tuple(ids), tuple(sorted(broker.items())), tuple(case.get("order", [])),
               case.get("dead"), case.get("where"), case.get("log"))
        ck.count(key, nontrivial=len(ids) >= 2 or nunk > 0 or bool(case.get("dead")))
        rec = dict(case, observed=obs, origin=origin)
        if verdict:
            ck.violation("C16/C20 (flux %s check_jobs%s): %s" % (
                case["version"], ", DEBUG logging as under -d 1" if case.get("log") == "debug" else "", verdict), rec)
        elif obs.get("setup_exc"):
            ck.mismatch("C16 flux status query: the flux %s adapter could not be set up under the fake flux module"
                        % case["version"], rec, obs["setup_exc"])
        return rec

    if not vers:
        ck.mismatch("C16 flux status query: FluxFactory registers no interface (or cannot be imported)", None, "")
    ncorpus = 0
    for f in sorted(glob.glob(os.path.join(CORPUS_DIR, "*.json"))):
        try:
            d = json.load(open(f))
            case = d.get("case", d)
            case = {k: v for k, v in case.items() if k not in ("observed", "origin")}
            if case["version"] not in vers:
                continue
            account(case, "corpus:" + os.path.basename(f))
            ncorpus += 1
        except Exception as e:
            ck.mismatch("C16 flux status query: corpus file %s cannot be replayed" % os.path.basename(f), None, repr(e))
    n = QUICK if ck.tier == "quick" else THOROUGH
    sampled = False
    for ver in vers:
        for case in small_scope(ver):
            account(case, "small scope")
        for case in gen_cases(rng, ver, n):
            rec = account(case, "generated")
            if not sampled and len(case["ids"]) >= 3 and len(case["broker"]) < len(case["ids"]):
                ck.sample({"c16_flux": rec})
                sampled = True
    ck.cov["flux_status_query"] = {
        "versions": vers, "adapter_built_by": how, "corpus": ncorpus,
        "rule": "real FluxScriptAdapter.check_jobs per registered interface over a fake flux-core job-list RPC "
                "(errors filled only by jobs(); jobs() raising for a dead broker): small scope (every abbreviation "
                "alone, 2 prefix-related ids x (state|unknown)^2 x both answer orders, dead broker, empty list) + "
                "generated lists of 1-6 prefix-related f58 ids, answer order shuffled. Judged: (i) RPC error/raise => "
                "code not OK and no State in the table, (ii) else OK and table = the interface's own state() of the "
                "abbreviation held for exactly that id, (iii) empty list: no RPC, no claim",
        "histogram": dict(sorted(hist.items()))}

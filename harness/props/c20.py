"""C20 -- see DESIGN.md section 5.  Proofs: coq/theories/Props/C20.v; correspondence
and monitor: harness/exec_props.py (monitor family 20 of Exec/ExecTrace.v)."""
from harness import exec_props as X

# random histories: every fifth poll's query fails or answers NOJOBS; profiles that leave
# entries out of the answer or report None for them ("faulty": 25% absent, 12% None)
BIAS = {"qerr_p": 0.07, "qnojobs_p": 0.16, "profiles": ["faulty", "faulty", "faulty", "mixed", "timeout", "hw"],
        "cancel_p": 0.05, "max_polls": 12, "fair_after": [None, None, 4, 8]}
# exhaustive tiny scope: at EVERY poll the query code is OK / NOJOBS / ERROR, a cancel request may
# arrive, and every queried job is absent / None / PENDING / RUNNING / FINISHED / FAILED / TIMEDOUT
TINY = {"depth_quick": 3, "depth_thorough": 3, "graphs_quick": 3,
        "cfgs": [{"throttle": 0, "attempts": 1, "dry": False}, {"throttle": 1, "attempts": 2, "dry": False}],
        "enum": {"q": True, "cancel": True, "subs": False,
                 "kinds": ["absent", None, "PENDING", "RUNNING", "FINISHED", "FAILED", "TIMEDOUT"]},
        "limit_quick": 12000, "limit_thorough": 200000}
# the thorough tier covers all six tiny graphs; to stay inside its budget it keeps the
# cancel request out of the enumeration (cancel + fault combinations are in the quick scope
# and in the random stream)
TINY_THOROUGH = dict(TINY, enum=dict(TINY["enum"], cancel=False))


def run(ck):
    return X.run_exec(ck, 20, BIAS, tiny=TINY if ck.tier == "quick" else TINY_THOROUGH)


def replay(ck, path):
    return X.replay_exec(ck, 20, path)

"""C20 -- see DESIGN.md section 5.  Proofs: coq/theories/Props/C20.v; correspondence
and monitor: harness/exec_props.py (monitor family 20 of Exec/ExecTrace.v)."""
from harness import exec_props as X

# random histories: every fifth poll's query fails or answers NOJOBS; profiles that leave
# entries out of the answer or report None for them ("faulty": 25% absent, 12% None)
BIAS = {"qerr_p": 0.07, "qnojobs_p": 0.16, "profiles": ["faulty", "faulty", "faulty", "mixed", "timeout", "hw"],
        "cancel_p": 0.05, "max_polls": 12, "fair_after": [None, None, 4, 8]}
# exhaustive tiny scope: at EVERY poll the query code is OK / NOJOBS / ERROR and every queried job
# is absent / None / PENDING (non-terminal, not RUNNING) / RUNNING / FINISHED / FAILED [/ TIMEDOUT]
_CFGS = [{"throttle": 0, "attempts": 1, "dry": False}, {"throttle": 1, "attempts": 2, "dry": False}]
_KINDS = ["absent", None, "PENDING", "RUNNING", "FINISHED", "FAILED"]
# quick: the first three tiny graphs, depth 3, a cancel request may arrive at any poll
# (so that fault + simultaneous cancel is enumerated)
TINY = {"depth_quick": 3, "depth_thorough": 3, "graphs_quick": 3, "cfgs": _CFGS,
        "enum": {"q": True, "cancel": True, "subs": False, "kinds": _KINDS},
        "limit_quick": 12000, "limit_thorough": 200000}
# thorough: all six tiny graphs, TIMEDOUT (restart path) added to the report kinds; to stay inside
# the budget the cancel request is left to the quick scope and to the random stream
TINY_THOROUGH = dict(TINY, enum={"q": True, "cancel": False, "subs": False, "kinds": _KINDS + ["TIMEDOUT"]})


def run(ck):
    return X.run_exec(ck, 20, BIAS, tiny=TINY if ck.tier == "quick" else TINY_THOROUGH)


def replay(ck, path):
    return X.replay_exec(ck, 20, path)
